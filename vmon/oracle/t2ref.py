"""A second Type 2 charstring machine, written from Adobe Technical Note #5177
("The Type 2 Charstring Format") and the OpenType CFF2 charstring chapter; nothing
in here imports fontTools.

Input: a charstring and its subroutines, each given either as *bytes* (the binary
encoding, decoded here) or as a *token list* (numbers, operator names as spelled in
TN5177, and a bytes object after hintmask/cntrmask) - the latter is the form the
library under test calls a "program".

Output (`Result`): the path as an absolute pen record with the moveto emitted lazily
(a moveto that draws nothing creates no point, as in a rasteriser), the advance
width, the maximum operand-stack depth reached, the number of stem hints and the
list of format violations met (operator arity, stack limit, subroutine depth,
operators that do not exist in the dialect, width in CFF2, missing endchar ...).

Stack limits: 48 (TN5177 Appendix B) / 513 (CFF2); subroutine nesting 10.
"""
import struct
from collections import Counter

STACK_LIMIT = {False: 48, True: 513}
SUBR_DEPTH_LIMIT = 10

# one-byte operators (TN5177 Appendix A; 15/16 from the CFF2 chapter)
OPS1 = {
    1: "hstem", 3: "vstem", 4: "vmoveto", 5: "rlineto", 6: "hlineto", 7: "vlineto",
    8: "rrcurveto", 10: "callsubr", 11: "return", 14: "endchar", 15: "vsindex",
    16: "blend", 18: "hstemhm", 19: "hintmask", 20: "cntrmask", 21: "rmoveto",
    22: "hmoveto", 23: "vstemhm", 24: "rcurveline", 25: "rlinecurve", 26: "vvcurveto",
    27: "hhcurveto", 29: "callgsubr", 30: "vhcurveto", 31: "hvcurveto",
}
OPS2 = {
    0: "dotsection", 3: "and", 4: "or", 5: "not", 9: "abs", 10: "add", 11: "sub", 12: "div",
    14: "neg", 15: "eq", 18: "drop", 20: "put", 21: "get", 22: "ifelse", 23: "random",
    24: "mul", 26: "sqrt", 27: "dup", 28: "exch", 29: "index", 30: "roll",
    34: "hflex", 35: "flex", 36: "hflex1", 37: "flex1",
}
ALIASES = {"ignore": "dotsection"}     # the library's spelling of 12 0
ARITH = {"and", "or", "not", "abs", "add", "sub", "div", "neg", "eq", "drop", "put", "get",
         "ifelse", "random", "mul", "sqrt", "dup", "exch", "index", "roll"}
CFF_ONLY = ARITH | {"endchar", "return", "dotsection"}
CFF2_ONLY = {"blend", "vsindex"}
STEMS = {"hstem", "vstem", "hstemhm", "vstemhm"}
MASKS = {"hintmask", "cntrmask"}
MOVES = {"rmoveto": 2, "hmoveto": 1, "vmoveto": 1}
PATH_OPS = {"rlineto", "hlineto", "vlineto", "rrcurveto", "hhcurveto", "vvcurveto", "hvcurveto",
            "vhcurveto", "rcurveline", "rlinecurve", "flex", "hflex", "hflex1", "flex1"}


class T2Error(Exception):
    """The program cannot be executed at all (stack underflow, missing subroutine,
    truncated encoding, runaway recursion)."""


def subr_bias(n):
    """TN5176 §16 / TN5177 §4.7."""
    if n < 1240:
        return 107
    if n < 33900:
        return 1131
    return 32768


def arity_ok(op, n):
    """Is `n` a legal operand count for path operator `op` (TN5177 §4.1-4.3)?"""
    if op == "rmoveto":
        return n == 2
    if op in ("hmoveto", "vmoveto"):
        return n == 1
    if op == "rlineto":
        return n >= 2 and n % 2 == 0
    if op in ("hlineto", "vlineto"):
        return n >= 1
    if op == "rrcurveto":
        return n >= 6 and n % 6 == 0
    if op in ("hhcurveto", "vvcurveto"):
        return n >= 4 and n % 4 in (0, 1)
    if op in ("hvcurveto", "vhcurveto"):
        return n >= 4 and n % 8 in (0, 1, 4, 5)
    if op == "rcurveline":
        return n >= 8 and n % 6 == 2
    if op == "rlinecurve":
        return n >= 8 and (n - 6) % 2 == 0
    if op == "flex":
        return n == 13
    if op == "hflex":
        return n == 7
    if op == "hflex1":
        return n == 9
    if op == "flex1":
        return n == 11
    raise KeyError(op)


class Result:
    __slots__ = ("path", "width", "width_explicit", "max_stack", "errors", "n_hints", "ops", "forms",
                 "n_fraction", "seac", "subr_depth", "tokens", "ended", "masks", "max_abs", "first_clear",
                 "operand_only_calls", "max_stack_op", "features", "max_stack_in_subr")

    def __init__(self):
        self.path = []
        self.width = None
        self.width_explicit = False
        self.max_stack = 0
        self.errors = []
        self.n_hints = 0
        self.ops = Counter()
        self.forms = set()          # (operator, argument-count class)
        self.n_fraction = 0         # operands that are not whole numbers
        self.seac = None
        self.subr_depth = 0
        self.tokens = None          # token trace of the top-level charstring (optional)
        self.ended = False
        self.masks = []
        self.max_abs = 0.0
        self.first_clear = None     # (operator, operand count) at the first stack-clearing operator
        self.operand_only_calls = 0  # calls of subroutines that executed no operator (they only push operands)
        self.max_stack_op = None    # operator that consumed the deepest stack
        self.max_stack_in_subr = False
        self.features = set()       # vsindex | blend-in-hint-args | short-subr | endchar-in-subr (see Machine._exec)

    def key(self):
        return (self.path, self.width)


# ---------------------------------------------------------------- token sources
class _Bytes:
    """Decoder of the binary encoding (TN5177 §3)."""

    def __init__(self, data):
        self.d = bytes(data)
        self.i = 0

    def next(self):
        d, i = self.d, self.i
        if i >= len(d):
            return None
        b0 = d[i]
        i += 1
        try:
            if b0 >= 32:
                if b0 <= 246:
                    v = b0 - 139
                elif b0 <= 250:
                    v = (b0 - 247) * 256 + d[i] + 108
                    i += 1
                elif b0 <= 254:
                    v = -(b0 - 251) * 256 - d[i] - 108
                    i += 1
                else:
                    if i + 4 > len(d):
                        raise IndexError
                    raw = struct.unpack(">l", d[i:i + 4])[0]
                    i += 4
                    v = raw / 65536.0     # exact: 32 significant bits
                    if raw & 0xFFFF == 0:
                        v = float(raw >> 16)
                self.i = i
                return ("n", v)
            if b0 == 28:
                if i + 2 > len(d):
                    raise IndexError
                v = struct.unpack(">h", d[i:i + 2])[0]
                self.i = i + 2
                return ("n", v)
            if b0 == 12:
                b1 = d[i]
                self.i = i + 1
                return ("o", OPS2.get(b1, "escape%d" % b1))
        except IndexError:
            raise T2Error("truncated operand/operator at byte %d" % (i - 1))
        self.i = i
        return ("o", OPS1.get(b0, "reserved%d" % b0))

    def mask(self, nbytes):
        m = self.d[self.i:self.i + nbytes]
        if len(m) != nbytes:
            raise T2Error("truncated hint mask")
        self.i += nbytes
        return m, None


class _Tokens:
    def __init__(self, toks):
        self.t = toks
        self.i = 0

    def next(self):
        if self.i >= len(self.t):
            return None
        tok = self.t[self.i]
        self.i += 1
        if isinstance(tok, str):
            return ("o", ALIASES.get(tok, tok))
        if isinstance(tok, (bytes, bytearray)):
            return ("m", bytes(tok))
        if isinstance(tok, bool) or not isinstance(tok, (int, float)):
            raise T2Error("token of unsupported type %s" % type(tok).__name__)
        return ("n", tok)

    def mask(self, nbytes):
        if self.i >= len(self.t) or not isinstance(self.t[self.i], (bytes, bytearray)):
            raise T2Error("hintmask/cntrmask without mask bytes in token form")
        m = bytes(self.t[self.i])
        self.i += 1
        return m, (None if len(m) == nbytes else "mask-length:%d:%d" % (len(m), nbytes))


def _source(cs):
    if isinstance(cs, (bytes, bytearray)):
        return _Bytes(cs)
    return _Tokens(cs)


# ---------------------------------------------------------------- the machine
class Machine:
    def __init__(self, cff2=False, lsubrs=(), gsubrs=(), default_width=0, nominal_width=0,
                 num_regions=None, scalars=None, blend_ks=None, vsindex=0, trace=False,
                 stack_limit=None, max_tokens=2000000):
        """num_regions: callable vsindex -> k (or an int); scalars: callable vsindex -> list of k
        region scalars, or None for the default location (all 0); blend_ks: optional explicit list
        of k for each executed blend in order (for programs detached from a font)."""
        self.cff2 = cff2
        self.lsubrs, self.gsubrs = lsubrs, gsubrs
        self.lbias, self.gbias = subr_bias(len(lsubrs)), subr_bias(len(gsubrs))
        self.default_width, self.nominal_width = default_width, nominal_width
        self.num_regions, self.scalars = num_regions, scalars
        self.blend_ks = list(blend_ks) if blend_ks is not None else None
        self.vsindex0 = vsindex
        self.limit = stack_limit or STACK_LIMIT[bool(cff2)]
        self.trace = trace
        self.max_tokens = max_tokens

    # -- helpers
    def _err(self, e):
        if len(self.r.errors) < 50:
            self.r.errors.append(e)

    def _push(self, v):
        st = self.stack
        st.append(v)
        n = len(st)
        if n > self.r.max_stack:
            self.r.max_stack = n
        if v != int(v):
            self.r.n_fraction += 1

    def _k(self):
        if self.blend_ks is not None:
            if not self.blend_ks:
                raise T2Error("more blend operators than region counts supplied")
            return self.blend_ks.pop(0)
        nr = self.num_regions
        if nr is None:
            raise T2Error("blend without variation store")
        return nr(self.vsindex) if callable(nr) else nr

    def _emit_move(self):
        if not self.open:
            self.r.path.append(("moveTo", ((self.x, self.y),)))
            self.open = True

    def _close(self):
        if self.open:
            self.r.path.append(("closePath", ()))
            self.open = False

    def _line(self, dx, dy):
        self._emit_move()
        self.x += dx
        self.y += dy
        self.r.path.append(("lineTo", ((self.x, self.y),)))
        self._track()

    def _curve(self, a, b, c, d, e, f):
        self._emit_move()
        x1, y1 = self.x + a, self.y + b
        x2, y2 = x1 + c, y1 + d
        self.x, self.y = x2 + e, y2 + f
        self.r.path.append(("curveTo", ((x1, y1), (x2, y2), (self.x, self.y))))
        m = max(abs(x1), abs(y1), abs(x2), abs(y2))
        if m > self.r.max_abs:
            self.r.max_abs = m
        self._track()

    def _track(self):
        m = max(abs(self.x), abs(self.y))
        if m > self.r.max_abs:
            self.r.max_abs = m

    def _take_width(self, op, expected_parity_odd, nominal_counts):
        """First stack-clearing operator: an extra leading operand is the width (TN5177 §3.1
        'width').  nominal_counts(n) -> True if n is a legal count *without* width."""
        st = self.stack
        n = len(st)
        if self.seen_width:
            return
        self.seen_width = True
        self.r.first_clear = (op, n)
        if self.cff2:
            return
        has = (n % 2 == 1) if not expected_parity_odd else (n % 2 == 0 and n > 0)
        if op == "endchar":
            has = n in (1, 5)
        if has:
            w = st.pop(0)
            self.r.width = self.nominal_width + w if self.nominal_width is not None else w
            self.r.width_explicit = True
        else:
            self.r.width = self.default_width

    # -- execution
    def run(self, cs):
        self.r = Result()
        self.stack = []
        self.x = self.y = 0
        self.open = False
        self.seen_width = False
        self.hints_done = False
        self.path_started = False
        self.vsindex = self.vsindex0
        self.blend_seen = False
        self.nops = 0
        self.nreal = 0
        self.blend_since_clear = False
        self._pending_max = False
        self.transient = [None] * 32
        if self.trace:
            self.r.tokens = []
        self._exec(cs, 0)
        r = self.r
        if not r.ended:
            self._close()
            if not self.cff2:
                self._err("missing-endchar")
            if self.stack and not self.cff2:
                self._err("operands-left:%d" % len(self.stack))
        if self.cff2:
            r.width = None
            if self.stack:
                # CFF2: a charstring may not leave operands behind either
                self._err("operands-left:%d" % len(self.stack))
        elif not self.seen_width:
            r.width = self.default_width
        return r

    def _exec(self, cs, depth):
        if depth > SUBR_DEPTH_LIMIT:
            self._err("subr-depth:%d" % depth)
            if depth > 64:
                raise T2Error("runaway subroutine recursion")
        r = self.r
        if depth > r.subr_depth:
            r.subr_depth = depth
        src = _source(cs)
        trace = r.tokens if (self.trace and depth == 0) else None
        st = self.stack
        frame_ops = 0          # operators among this frame's own tokens
        last_was_op = False
        while True:
            tok = src.next()
            if tok is None:
                if depth and not self.cff2:
                    self._err("subr-without-return")
                if depth and (frame_ops == 0 or (frame_ops == 1 and last_was_op)):
                    # a subroutine whose only operator (calls and the final return aside), if any,
                    # is its last token
                    r.features.add("short-subr")
                return False
            self.nops += 1
            if self.nops > self.max_tokens:
                raise T2Error("token budget exceeded")
            kind, v = tok
            if kind == "n":
                if trace is not None:
                    trace.append(v)
                st.append(v)
                n = len(st)
                if n > r.max_stack:
                    r.max_stack = n
                    r.max_stack_in_subr = depth > 0
                    self._pending_max = True
                    if n > self.limit:
                        self._err("stack-overflow")
                if v.__class__ is float and not v.is_integer():
                    r.n_fraction += 1
                last_was_op = False
                continue
            if kind == "m":
                raise T2Error("stray mask bytes")
            op = v
            if op in ("callsubr", "callgsubr"):
                last_was_op = False
            elif op == "return":
                if depth and (frame_ops == 0 or (frame_ops == 1 and last_was_op)):
                    r.features.add("short-subr")
            else:
                frame_ops += 1
                last_was_op = True
                if op == "endchar" and depth:
                    r.features.add("endchar-in-subr")
                    if frame_ops == 1:
                        r.features.add("short-subr")
            if trace is not None:
                trace.append(op)
            r.ops[op] += 1
            if self._pending_max:
                self._pending_max = False
                r.max_stack_op = op
            if op not in ("callsubr", "callgsubr", "return"):
                self.nreal += 1
            # ---- dialect
            if self.cff2 and op in CFF_ONLY:
                self._err("invalid-op-in-cff2:%s" % op)
                if op in ("endchar", "return"):
                    # a CFF2 interpreter has no such operator; treat as end of data for drawing
                    if op == "endchar":
                        self._end()
                        return True
                    return False
                if op == "dotsection":
                    del st[:]
                    continue
            if not self.cff2 and op in CFF2_ONLY:
                self._err("invalid-op-in-cff:%s" % op)
            if op.startswith(("reserved", "escape")):
                self._err("invalid-op:%s" % op)
                del st[:]
                continue
            # ---- subroutines
            if op in ("callsubr", "callgsubr"):
                if not st:
                    raise T2Error("%s on empty stack" % op)
                if self.blend_since_clear and not self.hints_done:
                    r.features.add("blend-in-hint-args")
                idx = st.pop()
                subrs, bias = (self.lsubrs, self.lbias) if op == "callsubr" else (self.gsubrs, self.gbias)
                if idx != int(idx):
                    raise T2Error("non-integer subroutine number")
                j = int(idx) + bias
                if not 0 <= j < len(subrs):
                    raise T2Error("%s %d out of range (%d subrs)" % (op, idx, len(subrs)))
                mark = self.nreal
                if self._exec(_subr_code(subrs[j]), depth + 1):
                    return True
                if self.nreal == mark:
                    r.operand_only_calls += 1
                continue
            if op == "return":
                if depth == 0:
                    self._err("return-at-top-level")
                return False
            if op == "endchar":
                self._take_width(op, False, None)
                n = len(st)
                if n == 4:
                    r.seac = tuple(st)
                elif n:
                    self._err("arity:endchar:%d" % n)
                del st[:]
                self._end()
                return True
            # ---- hints
            if op in STEMS:
                self.blend_since_clear = False
                self._take_width(op, False, None)
                n = len(st)
                if n < 2 or n % 2:
                    self._err("arity:%s:%d" % (op, n))
                if self.path_started or self.hints_done:
                    self._err("late-stem:%s" % op)
                r.n_hints += n // 2
                r.forms.add((op, "n>=24" if n >= 24 else "n<24"))
                del st[:]
                continue
            if op in MASKS:
                self._take_width(op, False, None)
                n = len(st)
                if n and self.blend_since_clear:
                    r.features.add("blend-in-hint-args")
                self.blend_since_clear = False
                if n:
                    # implicit vstemhm (TN5177 §4.3 hintmask note)
                    if n % 2:
                        self._err("arity:%s:%d" % (op, n))
                    if self.hints_done:
                        self._err("late-stem:implicit")
                    r.n_hints += n // 2
                    r.forms.add((op, "implicit-vstem"))
                    del st[:]
                self.hints_done = True
                nbytes = (r.n_hints + 7) // 8
                m, e = src.mask(nbytes)
                if e:
                    self._err(e)
                if trace is not None:
                    trace.append(m)
                r.masks.append((op, m))
                r.forms.add((op, "bytes%d" % min(nbytes, 3)))
                continue
            # ---- CFF2 variation operators
            if op == "vsindex":
                r.features.add("vsindex")
                if depth:
                    r.features.add("vsindex-in-subr")
                if not st:
                    raise T2Error("vsindex on empty stack")
                if self.blend_seen or self.path_started or r.n_hints:
                    self._err("late-vsindex")
                self.vsindex = int(st.pop())
                if st:
                    self._err("arity:vsindex:%d" % (len(st) + 1))
                continue
            if op == "blend":
                self.blend_seen = True
                self.blend_since_clear = True
                if not st:
                    raise T2Error("blend on empty stack")
                nb = st.pop()
                if nb != int(nb) or nb < 1:
                    raise T2Error("blend count %r" % (nb,))
                nb = int(nb)
                k = self._k()
                need = nb * (k + 1)
                if len(st) < need:
                    raise T2Error("blend needs %d operands, %d on stack" % (need, len(st)))
                base = len(st) - need
                sc = None
                if self.scalars is not None:
                    sc = self.scalars(self.vsindex) if callable(self.scalars) else self.scalars
                    if sc is not None and len(sc) != k:
                        raise T2Error("scalar count %d != regions %d" % (len(sc), k))
                out = []
                for i in range(nb):
                    val = st[base + i]
                    if sc is not None:
                        d0 = base + nb + i * k
                        for j in range(k):
                            val = val + sc[j] * st[d0 + j]
                    out.append(val)
                del st[base:]
                st.extend(out)
                r.forms.add(("blend", "n%d/k%d" % (min(nb, 4), min(k, 4))))
                continue
            # ---- moveto
            if op in MOVES:
                self.blend_since_clear = False
                self._take_width(op, op != "rmoveto", None)
                n = len(st)
                self.hints_done = True
                self.path_started = True
                if n != MOVES[op]:
                    self._err("arity:%s:%d" % (op, n))
                    if n < MOVES[op]:
                        raise T2Error("%s with %d operands" % (op, n))
                self._close()
                if op == "rmoveto":
                    self.x += st[-2]
                    self.y += st[-1]
                elif op == "hmoveto":
                    self.x += st[-1]
                else:
                    self.y += st[-1]
                self._track()
                del st[:]
                continue
            # ---- path
            if op in PATH_OPS:
                n = len(st)
                if not self.seen_width:
                    # a path operator may not come first; the width rule does not apply to it
                    self._err("path-before-moveto:%s" % op)
                    self.seen_width = True
                    r.width = self.default_width
                elif not self.path_started:
                    self._err("path-before-moveto:%s" % op)
                self.hints_done = True
                self.path_started = True
                if not arity_ok(op, n):
                    self._err("arity:%s:%d" % (op, n))
                    raise T2Error("%s with %d operands" % (op, n))
                self._path(op, st, n)
                del st[:]
                continue
            # ---- arithmetic etc. (CFF only)
            if op in ARITH:
                self._arith(op, st)
                continue
            if op == "dotsection":
                del st[:]
                continue
            self._err("invalid-op:%s" % op)
            del st[:]

    def _end(self):
        self._close()
        self.r.ended = True

    def _path(self, op, a, n):
        f = self.r.forms
        if op == "rlineto":
            for i in range(0, n, 2):
                self._line(a[i], a[i + 1])
            f.add((op, "n%d" % min(n // 2, 3)))
        elif op in ("hlineto", "vlineto"):
            horiz = op == "hlineto"
            for v in a:
                if horiz:
                    self._line(v, 0)
                else:
                    self._line(0, v)
                horiz = not horiz
            f.add((op, "odd" if n % 2 else "even", "n%d" % min(n, 3)))
        elif op == "rrcurveto":
            for i in range(0, n, 6):
                self._curve(*a[i:i + 6])
            f.add((op, "n%d" % min(n // 6, 3)))
        elif op == "hhcurveto":
            i = 0
            dy1 = 0
            if n % 2:
                dy1 = a[0]
                i = 1
            while i < n:
                self._curve(a[i], dy1, a[i + 1], a[i + 2], a[i + 3], 0)
                dy1 = 0
                i += 4
            f.add((op, "lead" if n % 2 else "nolead", "n%d" % min(n // 4, 3)))
        elif op == "vvcurveto":
            i = 0
            dx1 = 0
            if n % 2:
                dx1 = a[0]
                i = 1
            while i < n:
                self._curve(dx1, a[i], a[i + 1], a[i + 2], 0, a[i + 3])
                dx1 = 0
                i += 4
            f.add((op, "lead" if n % 2 else "nolead", "n%d" % min(n // 4, 3)))
        elif op in ("hvcurveto", "vhcurveto"):
            horiz = op == "hvcurveto"
            i = 0
            ncurves = n // 4
            for c in range(ncurves):
                last = 0
                if c == ncurves - 1 and n % 2:
                    last = a[i + 4]
                if horiz:
                    # dx1 dx2 dy2 dy3 (dx3 = last)
                    self._curve(a[i], 0, a[i + 1], a[i + 2], last, a[i + 3])
                else:
                    # dy1 dx2 dy2 dx3 (dy3 = last)
                    self._curve(0, a[i], a[i + 1], a[i + 2], a[i + 3], last)
                horiz = not horiz
                i += 4
            f.add((op, "trail" if n % 2 else "notrail", "c%d" % min(ncurves, 4)))
        elif op == "rcurveline":
            for i in range(0, n - 2, 6):
                self._curve(*a[i:i + 6])
            self._line(a[n - 2], a[n - 1])
            f.add((op, "n%d" % min((n - 2) // 6, 3)))
        elif op == "rlinecurve":
            for i in range(0, n - 6, 2):
                self._line(a[i], a[i + 1])
            self._curve(*a[n - 6:n])
            f.add((op, "n%d" % min((n - 6) // 2, 3)))
        elif op == "flex":
            self._curve(*a[0:6])
            self._curve(*a[6:12])
            f.add((op,))
        elif op == "hflex":
            # dx1 dx2 dy2 dx3 dx4 dx5 dx6
            self._curve(a[0], 0, a[1], a[2], a[3], 0)
            self._curve(a[4], 0, a[5], -a[2], a[6], 0)
            f.add((op,))
        elif op == "hflex1":
            # dx1 dy1 dx2 dy2 dx3 dx4 dx5 dy5 dx6
            self._curve(a[0], a[1], a[2], a[3], a[4], 0)
            self._curve(a[5], 0, a[6], a[7], a[8], -(a[1] + a[3] + a[7]))
            f.add((op,))
        elif op == "flex1":
            # dx1 dy1 dx2 dy2 dx3 dy3 dx4 dy4 dx5 dy5 d6
            dx = a[0] + a[2] + a[4] + a[6] + a[8]
            dy = a[1] + a[3] + a[5] + a[7] + a[9]
            self._curve(*a[0:6])
            if abs(dx) > abs(dy):
                self._curve(a[6], a[7], a[8], a[9], a[10], -dy)
                f.add((op, "h"))
            else:
                self._curve(a[6], a[7], a[8], a[9], -dx, a[10])
                f.add((op, "v"))

    def _arith(self, op, st):
        def need(k):
            if len(st) < k:
                raise T2Error("%s needs %d operands" % (op, k))
        if op == "random":
            raise T2Error("random is not deterministic")
        if op in ("abs", "neg", "not", "sqrt", "dup", "drop", "get"):
            need(1)
        elif op in ("add", "sub", "mul", "div", "and", "or", "eq", "exch", "put"):
            need(2)
        if op == "abs":
            st[-1] = abs(st[-1])
        elif op == "neg":
            st[-1] = -st[-1]
        elif op == "not":
            st[-1] = 0 if st[-1] else 1
        elif op == "sqrt":
            st[-1] = st[-1] ** 0.5
        elif op == "dup":
            self._push(st[-1])
        elif op == "drop":
            st.pop()
        elif op == "add":
            b = st.pop(); st[-1] = st[-1] + b
        elif op == "sub":
            b = st.pop(); st[-1] = st[-1] - b
        elif op == "mul":
            b = st.pop(); st[-1] = st[-1] * b
        elif op == "div":
            b = st.pop()
            if b == 0:
                raise T2Error("div by zero")
            q = st[-1] / b
            st[-1] = int(q) if q == int(q) else q
        elif op == "and":
            b = st.pop(); st[-1] = 1 if (st[-1] and b) else 0
        elif op == "or":
            b = st.pop(); st[-1] = 1 if (st[-1] or b) else 0
        elif op == "eq":
            b = st.pop(); st[-1] = 1 if st[-1] == b else 0
        elif op == "exch":
            st[-1], st[-2] = st[-2], st[-1]
        elif op == "put":
            i = int(st.pop()); v = st.pop()
            if not 0 <= i < 32:
                raise T2Error("put index")
            self.transient[i] = v
        elif op == "get":
            i = int(st.pop())
            if not 0 <= i < 32 or self.transient[i] is None:
                raise T2Error("get index")
            self._push(self.transient[i])
        elif op == "ifelse":
            need(4)
            v2 = st.pop(); v1 = st.pop(); s2 = st.pop(); s1 = st.pop()
            self._push(s1 if v1 <= v2 else s2)
        elif op == "index":
            need(1)
            i = int(st.pop())
            if i < 0:
                i = 0
            need(i + 1)
            self._push(st[-1 - i])
        elif op == "roll":
            need(2)
            j = int(st.pop()); nn = int(st.pop())
            if nn < 0:
                raise T2Error("roll count")
            need(nn)
            if nn:
                j %= nn
                seg = st[-nn:]
                st[-nn:] = seg[-j:] + seg[:-j] if j else seg


def _subr_code(s):
    """A subroutine may be handed over as bytes, a token list, or any object with
    `.bytecode` / `.program` attributes (read-only access, no method is called)."""
    if isinstance(s, (bytes, bytearray, list, tuple)):
        return s
    bc = getattr(s, "bytecode", None)
    if bc is not None:
        return bc
    return s.program


def run(cs, **kw):
    """Execute one charstring; see Machine for the keyword arguments."""
    return Machine(**kw).run(_subr_code(cs))


# ---------------------------------------------------------------- translation validation
def decode_operand_at(data, i):
    """-> ('n', value, raw16_16 or None, next) | ('o', name, None, next)"""
    src = _Bytes(data)
    src.i = i
    t = src.next()
    if t is None:
        return None
    return t[0], t[1], None, src.i


def walk_program_vs_bytes(program, data, cff2=False, float_tol=2.0 ** -17):
    """Token-by-token comparison of a token program with a byte encoding, using the
    program's own mask tokens for the mask lengths.  Returns None if they denote the
    same charstring, else a short reason.  With cff2=True a trailing endchar/return of
    the program may be absent from the bytes (CFF2 has no such operators)."""
    src = _Bytes(data)
    prog = list(program)
    if cff2 and prog and prog[-1] in ("endchar", "return"):
        prog = prog[:-1]
    i = 0
    n = len(prog)
    while i < n:
        tok = prog[i]
        i += 1
        if isinstance(tok, (bytes, bytearray)):
            return "stray mask token at %d" % (i - 1)
        try:
            got = src.next()
        except T2Error as e:
            return "bytes undecodable at token %d: %s" % (i - 1, e)
        if got is None:
            return "bytes end at token %d of %d" % (i - 1, n)
        if isinstance(tok, str):
            name = ALIASES.get(tok, tok)
            if got != ("o", name):
                return "token %d: operator %s encoded as %r" % (i - 1, tok, got[1])
            if name in MASKS:
                if i >= n or not isinstance(prog[i], (bytes, bytearray)):
                    return "token %d: %s without mask" % (i - 1, tok)
                m = bytes(prog[i])
                i += 1
                if src.d[src.i:src.i + len(m)] != m:
                    return "mask bytes differ after token %d" % (i - 2)
                src.i += len(m)
        else:
            if got[0] != "n":
                return "token %d: number %r encoded as operator %s" % (i - 1, tok, got[1])
            if isinstance(tok, int):
                if got[1] != tok:
                    return "token %d: %r encoded as %r" % (i - 1, tok, got[1])
            else:
                if abs(got[1] - tok) > float_tol:
                    return "token %d: %r encoded as %r" % (i - 1, tok, got[1])
    if src.i != len(src.d):
        return "%d trailing bytes" % (len(src.d) - src.i)
    return None


# ---------------------------------------------------------------- CFF / CFF2 table reader (bytes)
# Written from Adobe TN5176 ("The Compact Font Format Specification") and the OpenType CFF2
# chapter.  Only what is needed to *execute* the charstrings of a compiled table: INDEX,
# DICT operands, Top DICT -> CharStrings / Private / FDArray / FDSelect / VarStore,
# Private DICT -> defaultWidthX / nominalWidthX / Subrs / vsindex.  No fontTools involved, so the
# subroutine biases are those of `subr_bias` above applied to the INDEX counts found in the bytes.
class CFFTable:
    def __init__(self):
        self.cff2 = False
        self.gsubrs = []
        self.glyphs = []          # charstring bytes by glyph index
        self.fd = []              # FD index by glyph index
        self.privs = []           # dicts: default, nominal, lsubrs, vsindex
        self.regions = None       # per vsindex: list of regions, region = [(start, peak, end) per axis]
        self.fdselect_format = None
        self.sids = None          # SID by glyph index (CFF charset), None for CFF2 / CID fonts without one

    def gid_of_std_code(self, code):
        """Glyph index of the glyph that Standard Encoding code `code` names (seac operands)."""
        sid = STD_ENC_SID.get(int(code))
        if sid is None or self.sids is None:
            return None
        try:
            return self.sids.index(sid)
        except ValueError:
            return None

    def run(self, gid, norm_loc=None, trace=False, _nested=False):
        """Execute glyph `gid`; norm_loc = normalised coordinates (list) or None for the default."""
        p = self.privs[self.fd[gid]] if self.privs else {"default": 0, "nominal": 0, "lsubrs": [], "vsindex": 0}
        kw = dict(cff2=self.cff2, lsubrs=p["lsubrs"], gsubrs=self.gsubrs, trace=trace)
        if self.cff2:
            kw["vsindex"] = p["vsindex"]
            regs = self.regions
            if regs is not None:
                kw["num_regions"] = lambda vs: len(regs[vs])
                if norm_loc is not None:
                    def scal(vs):
                        out = []
                        for reg in regs[vs]:
                            s = 1.0
                            for c, (a, b, e) in zip(norm_loc, reg):
                                s *= _tent(c, a, b, e)
                            out.append(s)
                        return out
                    kw["scalars"] = scal
        else:
            kw["default_width"] = p["default"]
            kw["nominal_width"] = p["nominal"]
        r = Machine(**kw).run(self.glyphs[gid])
        if r.seac is not None and not _nested:
            # endchar with adx ady bchar achar (TN5177 4.3 note on endchar): the glyph is the base glyph
            # plus the accent glyph displaced by (adx, ady)
            adx, ady, bchar, achar = r.seac
            for code, dx, dy in ((bchar, 0, 0), (achar, adx, ady)):
                g = self.gid_of_std_code(code)
                if g is None or g >= len(self.glyphs):
                    r.errors.append("seac-component-missing:%d" % int(code))
                    continue
                try:
                    c = self.run(g, norm_loc, _nested=True)
                except T2Error as e:
                    r.errors.append("seac-component-unexecutable:%d" % int(code))
                    continue
                r.path.extend((op, tuple((x + dx, y + dy) for x, y in pts)) for op, pts in c.path)
        return r


def _std_enc_sid():
    m = {}
    for first, last, sid in ((32, 126, 1), (161, 175, 96), (177, 180, 111), (182, 189, 115), (191, 191, 123),
                             (193, 200, 124), (202, 203, 132), (205, 208, 134), (225, 225, 138), (227, 227, 139),
                             (232, 235, 140), (241, 241, 144), (245, 245, 145), (248, 251, 146)):
        for c in range(first, last + 1):
            m[c] = sid + c - first
    return m


STD_ENC_SID = _std_enc_sid()


def _charset(d, off, nglyphs):
    """SID (or CID) by glyph index; predefined charsets 0..2 are identity-like up to their size."""
    if off in (0, 1, 2):
        return list(range(nglyphs)) if off == 0 else None
    fmt = d[off]
    sids = [0]
    pos = off + 1
    if fmt == 0:
        for _ in range(nglyphs - 1):
            sids.append(struct.unpack(">H", d[pos:pos + 2])[0])
            pos += 2
    elif fmt in (1, 2):
        while len(sids) < nglyphs:
            if fmt == 1:
                first, nleft = struct.unpack(">HB", d[pos:pos + 3])
                pos += 3
            else:
                first, nleft = struct.unpack(">HH", d[pos:pos + 4])
                pos += 4
            sids.extend(range(first, first + nleft + 1))
        del sids[nglyphs:]
    else:
        raise T2Error("charset format %d" % fmt)
    return sids


def _tent(c, s, p, e):
    if s > p or p > e or (s < 0 and e > 0 and p != 0) or p == 0:
        return 1.0
    if c < s or c > e:
        return 0.0
    if c == p:
        return 1.0
    return (c - s) / (p - s) if c < p else (e - c) / (e - p)


def _index(d, pos, cff2):
    """-> (list of item bytes, position after the INDEX)"""
    if cff2:
        if pos + 4 > len(d):
            raise T2Error("truncated INDEX")
        count = struct.unpack(">L", d[pos:pos + 4])[0]
        pos += 4
    else:
        if pos + 2 > len(d):
            raise T2Error("truncated INDEX")
        count = struct.unpack(">H", d[pos:pos + 2])[0]
        pos += 2
    if count == 0:
        return [], pos
    osz = d[pos]
    pos += 1
    if not 1 <= osz <= 4:
        raise T2Error("INDEX offSize %d" % osz)
    n = (count + 1) * osz
    raw = d[pos:pos + n]
    if len(raw) != n:
        raise T2Error("truncated INDEX offsets")
    offs = [int.from_bytes(raw[i * osz:(i + 1) * osz], "big") for i in range(count + 1)]
    base = pos + n - 1
    if offs[0] != 1 or any(b < a for a, b in zip(offs, offs[1:])) or base + offs[-1] > len(d):
        raise T2Error("bad INDEX offsets")
    return [d[base + offs[i]:base + offs[i + 1]] for i in range(count)], base + offs[-1]


def _dict(d):
    """DICT data -> {operator: operand list} (operator = int or (12, int))."""
    out = {}
    st = []
    i = 0
    n = len(d)
    while i < n:
        b0 = d[i]
        i += 1
        if b0 <= 21 or b0 in (22, 23, 24):
            if b0 == 12:
                op = (12, d[i])
                i += 1
            else:
                op = b0
            if op == 23:
                continue            # blend inside a Private DICT: operands stay for the next operator
            out[op] = st
            st = []
        elif b0 == 28:
            st.append(struct.unpack(">h", d[i:i + 2])[0])
            i += 2
        elif b0 == 29:
            st.append(struct.unpack(">l", d[i:i + 4])[0])
            i += 4
        elif b0 == 30:
            s = ""
            while True:
                b = d[i]
                i += 1
                done = False
                for nib in (b >> 4, b & 15):
                    if nib == 15:
                        done = True
                        break
                    s += "0123456789.EE?-"[nib] if nib != 12 else "E-"
                if done:
                    break
            try:
                st.append(float(s) if s else 0.0)
            except ValueError:
                raise T2Error("bad real %r" % s)
        elif 32 <= b0 <= 246:
            st.append(b0 - 139)
        elif 247 <= b0 <= 250:
            st.append((b0 - 247) * 256 + d[i] + 108)
            i += 1
        elif 251 <= b0 <= 254:
            st.append(-(b0 - 251) * 256 - d[i] - 108)
            i += 1
        else:
            raise T2Error("reserved DICT byte %d" % b0)
    return out


def _private(d, size, off, cff2):
    pd = _dict(d[off:off + size])
    p = {"default": 0, "nominal": 0, "lsubrs": [], "vsindex": 0}
    if 20 in pd and pd[20]:
        p["default"] = pd[20][-1]
    if 21 in pd and pd[21]:
        p["nominal"] = pd[21][-1]
    if 22 in pd and pd[22]:
        p["vsindex"] = int(pd[22][-1])
    if 19 in pd and pd[19]:
        p["lsubrs"], _ = _index(d, off + int(pd[19][-1]), cff2)
    for k in ("default", "nominal"):
        v = p[k]
        if isinstance(v, float) and v == int(v):
            p[k] = int(v)
    return p


def _fdselect(d, off, nglyphs, cff2):
    fmt = d[off]
    if fmt == 0:
        return list(d[off + 1:off + 1 + nglyphs]), fmt
    if fmt == 3:
        nr = struct.unpack(">H", d[off + 1:off + 3])[0]
        pos = off + 3
        rs = [struct.unpack(">HB", d[pos + 3 * i:pos + 3 * i + 3]) for i in range(nr)]
        sentinel = struct.unpack(">H", d[pos + 3 * nr:pos + 3 * nr + 2])[0]
    elif fmt == 4 and cff2:
        nr = struct.unpack(">L", d[off + 1:off + 5])[0]
        pos = off + 5
        rs = [struct.unpack(">LH", d[pos + 6 * i:pos + 6 * i + 6]) for i in range(nr)]
        sentinel = struct.unpack(">L", d[pos + 6 * nr:pos + 6 * nr + 4])[0]
    else:
        raise T2Error("FDSelect format %d" % fmt)
    out = [0] * nglyphs
    for k, (first, fd) in enumerate(rs):
        last = rs[k + 1][0] if k + 1 < len(rs) else sentinel
        for g in range(first, min(last, nglyphs)):
            out[g] = fd
    return out, fmt


def _varstore(d, off):
    base = off + 2                       # uint16 length, then the ItemVariationStore
    fmt, rl_off, nvd = struct.unpack(">HLH", d[base:base + 8])
    vd_offs = [struct.unpack(">L", d[base + 8 + 4 * i:base + 12 + 4 * i])[0] for i in range(nvd)]
    rl = base + rl_off
    nax, nreg = struct.unpack(">HH", d[rl:rl + 4])
    regs = []
    pos = rl + 4
    for _ in range(nreg):
        reg = []
        for _a in range(nax):
            s, p, e = struct.unpack(">hhh", d[pos:pos + 6])
            reg.append((s / 16384.0, p / 16384.0, e / 16384.0))
            pos += 6
        regs.append(reg)
    per = []
    for o in vd_offs:
        p0 = base + o
        item_count, word_count, nri = struct.unpack(">HHH", d[p0:p0 + 6])
        idx = struct.unpack(">%dH" % nri, d[p0 + 6:p0 + 6 + 2 * nri]) if nri else ()
        per.append([regs[i] for i in idx])
    return per


def parse_cff(data):
    """CFF or CFF2 table bytes -> CFFTable."""
    d = bytes(data)
    t = CFFTable()
    try:
        major, minor, hdr = d[0], d[1], d[2]
        if major == 1:
            names, pos = _index(d, hdr, False)
            tops, pos = _index(d, pos, False)
            strings, pos = _index(d, pos, False)
            t.gsubrs, pos = _index(d, pos, False)
            if not tops:
                raise T2Error("no Top DICT")
            top = _dict(tops[0])
        elif major == 2:
            t.cff2 = True
            tdl = struct.unpack(">H", d[3:5])[0]
            top = _dict(d[hdr:hdr + tdl])
            t.gsubrs, pos = _index(d, hdr + tdl, True)
        else:
            raise T2Error("CFF major version %d" % major)
        if 17 not in top:
            raise T2Error("no CharStrings")
        t.glyphs, _ = _index(d, int(top[17][-1]), t.cff2)
        n = len(t.glyphs)
        if not t.cff2 and (12, 30) not in top:       # name-keyed CFF: charset gives the glyphs' SIDs
            t.sids = _charset(d, int(top[15][-1]) if 15 in top and top[15] else 0, n)
        if (12, 36) in top:
            fds, _ = _index(d, int(top[(12, 36)][-1]), t.cff2)
            for fdd in fds:
                fd = _dict(fdd)
                if 18 in fd and len(fd[18]) >= 2:
                    t.privs.append(_private(d, int(fd[18][-2]), int(fd[18][-1]), t.cff2))
                else:
                    t.privs.append({"default": 0, "nominal": 0, "lsubrs": [], "vsindex": 0})
            if (12, 37) in top:
                t.fd, t.fdselect_format = _fdselect(d, int(top[(12, 37)][-1]), n, t.cff2)
            else:
                t.fd = [0] * n
        else:
            if 18 in top and len(top[18]) >= 2:
                t.privs.append(_private(d, int(top[18][-2]), int(top[18][-1]), False))
            else:
                t.privs.append({"default": 0, "nominal": 0, "lsubrs": [], "vsindex": 0})
            t.fd = [0] * n
        if t.cff2 and 24 in top:
            t.regions = _varstore(d, int(top[24][-1]))
        if any(f >= len(t.privs) for f in t.fd):
            raise T2Error("FDSelect points past the FDArray")
    except (IndexError, struct.error) as e:
        raise T2Error("truncated/garbled CFF table: %s" % e)
    return t


def sfnt_table(data, tag):
    """Raw bytes of table `tag` of a plain sfnt (None if absent)."""
    n = struct.unpack(">H", data[4:6])[0]
    for i in range(n):
        tg, cs, off, ln = struct.unpack(">4sLLL", data[12 + 16 * i:28 + 16 * i])
        if tg == tag:
            return data[off:off + ln]
    return None
