"""Spec-written decoders for the low-level binary codecs (independent of fontTools).

CFF / Type 2 operands (Adobe TN 5176 §4, TN 5177 §3.2), WOFF2 UIntBase128 and
255UInt16 (W3C WOFF2 §4.1), gvar packed point numbers and packed deltas (OpenType
'gvar' / TupleVariationStore), Type 1 eexec (Adobe Type 1 Font Format §7).
Every decoder returns (value, bytes_consumed).
"""
import struct
from fractions import Fraction


class Bad(Exception):
    pass


def cff_operand(data, i=0, dialect="cff"):
    b0 = data[i]
    if 32 <= b0 <= 246:
        return b0 - 139, 1
    if 247 <= b0 <= 250:
        return (b0 - 247) * 256 + data[i + 1] + 108, 2
    if 251 <= b0 <= 254:
        return -(b0 - 251) * 256 - data[i + 1] - 108, 2
    if b0 == 28:
        return struct.unpack(">h", data[i + 1:i + 3])[0], 3
    if b0 == 29 and dialect == "cff":
        return struct.unpack(">l", data[i + 1:i + 5])[0], 5
    if b0 == 255 and dialect == "t2":
        return Fraction(struct.unpack(">l", data[i + 1:i + 5])[0], 65536), 5
    if b0 == 255 and dialect == "t1":
        return struct.unpack(">l", data[i + 1:i + 5])[0], 5
    if b0 == 30 and dialect == "cff":
        return cff_real(data, i)
    raise Bad("not an operand byte: %d" % b0)


_NIB = {10: ".", 11: "E", 12: "E-", 14: "-"}


def cff_real(data, i=0):
    assert data[i] == 30
    s = ""
    j = i + 1
    while True:
        b = data[j]
        j += 1
        done = False
        for nib in (b >> 4, b & 15):
            if nib == 15:
                done = True
                break
            if nib <= 9:
                s += str(nib)
            elif nib in _NIB:
                s += _NIB[nib]
            else:
                raise Bad("reserved nibble")
        if done:
            break
    if s in ("", "-"):
        raise Bad("empty real")
    return s, j - i


def real_value(s):
    """Exact rational value of a CFF real-number string such as '-.5E-3'."""
    mant, _, exp = s.partition("E")
    if mant in ("", "-", ".", "-."):
        raise Bad("no mantissa in %r" % s)
    return Fraction(mant if mant[-1] != "." else mant + "0") * Fraction(10) ** int(exp or 0)


def base128(data):
    """WOFF2 UIntBase128: returns (value, consumed); rejects leading zeros/overflow."""
    accum = 0
    for i in range(5):
        b = data[i]
        if i == 0 and b == 0x80:
            raise Bad("leading zero")
        if accum & 0xFE000000:
            raise Bad("overflow")
        accum = (accum << 7) | (b & 0x7F)
        if not b & 0x80:
            return accum, i + 1
    raise Bad("too long")


def u255(data):
    code = data[0]
    if code == 253:
        return struct.unpack(">H", data[1:3])[0], 3
    if code == 255:
        return 253 + data[1], 2
    if code == 254:
        return 506 + data[1], 2
    return code, 1


def uint32var(data):
    b0 = data[0]
    if b0 < 0x80:
        return b0, 1
    if b0 < 0xC0:
        return ((b0 & 0x3F) << 8) | data[1], 2
    if b0 < 0xE0:
        return ((b0 & 0x1F) << 16) | (data[1] << 8) | data[2], 3
    if b0 < 0xF0:
        return ((b0 & 0x0F) << 24) | (data[1] << 16) | (data[2] << 8) | data[3], 4
    return ((b0 & 0x0F) << 32) | (data[1] << 24) | (data[2] << 16) | (data[3] << 8) | data[4], 5


def packed_points(data, i=0):
    """Returns (None for 'all points' | list of point numbers, consumed)."""
    j = i
    n = data[j]
    j += 1
    if n & 0x80:
        n = ((n & 0x7F) << 8) | data[j]
        j += 1
    if n == 0:
        return None, j - i
    pts = []
    cur = 0
    while len(pts) < n:
        ctrl = data[j]
        j += 1
        run = (ctrl & 0x7F) + 1
        for _ in range(run):
            if ctrl & 0x80:
                d = (data[j] << 8) | data[j + 1]
                j += 2
            else:
                d = data[j]
                j += 1
            cur += d
            pts.append(cur)
    if len(pts) != n:
        raise Bad("run overshoots the declared point count")
    return pts, j - i


def packed_deltas(data, count, i=0):
    j = i
    out = []
    while len(out) < count:
        ctrl = data[j]
        j += 1
        run = (ctrl & 0x3F) + 1
        kind = ctrl & 0xC0
        for _ in range(run):
            if kind == 0x80:          # DELTAS_ARE_ZERO
                out.append(0)
            elif kind == 0x40:        # DELTAS_ARE_WORDS
                out.append(struct.unpack(">h", data[j:j + 2])[0])
                j += 2
            elif kind == 0xC0:        # DELTAS_ARE_LONGS (both bits)
                out.append(struct.unpack(">l", data[j:j + 4])[0])
                j += 4
            else:
                out.append(struct.unpack(">b", data[j:j + 1])[0])
                j += 1
    if len(out) != count:
        raise Bad("run overshoots the declared delta count")
    return out, j - i


def eexec_encrypt(plain, r):
    out = bytearray()
    for p in plain:
        c = p ^ (r >> 8)
        r = ((c + r) * 52845 + 22719) & 0xFFFF
        out.append(c)
    return bytes(out), r


def eexec_decrypt(cipher, r):
    out = bytearray()
    for c in cipher:
        out.append(c ^ (r >> 8))
        r = ((c + r) * 52845 + 22719) & 0xFFFF
    return bytes(out), r
