"""Independent Bézier machinery for C13 (no fontTools imports).

* de Casteljau splitting at arbitrary parameters, degree elevation;
* parametric error bound between a quadratic and a cubic piece: the error curve is a
  cubic Bézier, bounded by its control polygon with recursive subdivision;
* geometric (parameter-free) one-sided distances between paths via dense polylines
  with a computed chord-error allowance (numpy).
"""
import math

import numpy as np


def lerp(a, b, t):
    return (a[0] + (b[0] - a[0]) * t, a[1] + (b[1] - a[1]) * t)


def split_cubic(p, t):
    p0, p1, p2, p3 = p
    a, b, c = lerp(p0, p1, t), lerp(p1, p2, t), lerp(p2, p3, t)
    d, e = lerp(a, b, t), lerp(b, c, t)
    f = lerp(d, e, t)
    return (p0, a, d, f), (f, e, c, p3)


def cubic_piece(p, t0, t1):
    """Sub-curve of cubic p over [t0, t1] by two de Casteljau splits."""
    if t0 > 0:
        _, p = split_cubic(p, t0)
        t1 = (t1 - t0) / (1 - t0) if t0 < 1 else 1.0
    if t1 < 1:
        p, _ = split_cubic(p, t1)
    return p


def elevate(q):
    q0, q1, q2 = q
    return (q0,
            (q0[0] + 2 * (q1[0] - q0[0]) / 3.0, q0[1] + 2 * (q1[1] - q0[1]) / 3.0),
            (q2[0] + 2 * (q1[0] - q2[0]) / 3.0, q2[1] + 2 * (q1[1] - q2[1]) / 3.0),
            q2)


def eval_cubic(p, t):
    mt = 1 - t
    a, b, c, d = mt ** 3, 3 * mt * mt * t, 3 * mt * t * t, t ** 3
    return (a * p[0][0] + b * p[1][0] + c * p[2][0] + d * p[3][0],
            a * p[0][1] + b * p[1][1] + c * p[2][1] + d * p[3][1])


def spline_quadratics(spline):
    """TrueType-style quadratic spline [on, off..., on] -> list of (q0, q1, q2)."""
    n = len(spline) - 2
    out = []
    on = spline[0]
    for i in range(1, n + 1):
        off = spline[i]
        nxt = spline[-1] if i == n else ((spline[i][0] + spline[i + 1][0]) / 2.0, (spline[i][1] + spline[i + 1][1]) / 2.0)
        out.append((on, off, nxt))
        on = nxt
    return out


def max_error_curve(e, tol, depth=0, t0=0.0, t1=1.0):
    """e: control points of the (cubic) error curve.  Returns (ok, worst, t) where ok
    means max |e(t)| <= tol proven by the control polygon; otherwise a parameter whose
    *evaluated* error exceeds tol is exhibited, or (None, bound, t) when undecided at
    the recursion limit."""
    norms = [math.hypot(x, y) for x, y in e]
    hull = max(norms)
    if hull <= tol:
        return True, hull, None
    # the end points are on the curve
    if norms[0] > tol:
        return False, norms[0], t0
    if norms[3] > tol:
        return False, norms[3], t1
    left, right = split_cubic(e, 0.5)
    mid = left[3]
    nm = math.hypot(*mid)
    tm = (t0 + t1) / 2
    if nm > tol:
        return False, nm, tm
    if depth >= 40:
        return None, hull, tm
    r = max_error_curve(left, tol, depth + 1, t0, tm)
    if r[0] is not True:
        return r
    r2 = max_error_curve(right, tol, depth + 1, tm, t1)
    if r2[0] is not True:
        return r2
    return True, max(r[1], r2[1]), None


def parametric_check(cubic, spline, tol_eff):
    """The i-th quadratic of the spline against the i-th of n equal-parameter pieces of
    the cubic.  -> (ok True/False/None, info)"""
    quads = spline_quadratics(spline)
    n = len(quads)
    worst = 0.0
    for i, q in enumerate(quads):
        piece = cubic_piece(cubic, i / n, (i + 1) / n)
        el = elevate(q)
        e = tuple((a[0] - b[0], a[1] - b[1]) for a, b in zip(el, piece))
        ok, w, t = max_error_curve(e, tol_eff)
        if ok is not True:
            return ok, {"segment": i, "of": n, "error": w, "t": t}
        worst = max(worst, w)
    return True, {"worst": worst, "n": n}


# ---------------------------------------------------------------- geometric distance
def _second_diff_bound(p):
    d = len(p) - 1
    if d < 2:
        return 0.0
    m = 0.0
    for k in range(d - 1):
        m = max(m, math.hypot(p[k + 2][0] - 2 * p[k + 1][0] + p[k][0], p[k + 2][1] - 2 * p[k + 1][1] + p[k][1]))
    return d * (d - 1) * m


def _bez_points(p, ts):
    p = np.asarray(p, dtype=float)
    d = len(p) - 1
    ts = np.asarray(ts, dtype=float)[:, None]
    if d == 1:
        return p[0] * (1 - ts) + p[1] * ts
    if d == 2:
        return p[0] * (1 - ts) ** 2 + 2 * p[1] * (1 - ts) * ts + p[2] * ts ** 2
    return p[0] * (1 - ts) ** 3 + 3 * p[1] * (1 - ts) ** 2 * ts + 3 * p[2] * (1 - ts) * ts ** 2 + p[3] * ts ** 3


def flatten(segments, chord_err, max_pts=20000):
    """segments: list of control-point tuples (degree 1..3).  Polyline whose distance
    to the true path is <= the returned delta (chord sagitta bound |B''|/(8 m^2))."""
    pts = []
    delta = 0.0
    for p in segments:
        b2 = _second_diff_bound(p)
        m = 1 if b2 == 0 else int(math.ceil(math.sqrt(b2 / (8.0 * chord_err))))
        m = max(1, min(m, max_pts))
        delta = max(delta, b2 / (8.0 * m * m))
        ts = np.linspace(0.0, 1.0, m + 1)
        pp = _bez_points(p, ts)
        pts.append(pp if not pts else pp[1:])
    return np.vstack(pts), delta


def points_to_polyline_dist(P, L):
    """max over points P of the distance to polyline L (numpy, chunked)."""
    if len(L) == 1:
        return float(np.max(np.hypot(P[:, 0] - L[0, 0], P[:, 1] - L[0, 1]))), 0
    A, B = L[:-1], L[1:]
    AB = B - A
    L2 = (AB ** 2).sum(axis=1)
    L2s = np.where(L2 == 0, 1.0, L2)
    worst, wi = 0.0, 0
    step = max(1, 2000000 // max(1, len(A)))
    for s in range(0, len(P), step):
        Pc = P[s:s + step]
        AP = Pc[:, None, :] - A[None, :, :]
        t = np.clip((AP * AB[None]).sum(axis=2) / L2s[None], 0.0, 1.0)
        proj = A[None] + t[..., None] * AB[None]
        d = np.hypot(Pc[:, None, 0] - proj[..., 0], Pc[:, None, 1] - proj[..., 1]).min(axis=1)
        k = int(np.argmax(d))
        if d[k] > worst:
            worst, wi = float(d[k]), s + k
    return worst, wi


def sample(segments, per_seg=48):
    ts = np.linspace(0.0, 1.0, per_seg + 1)
    return np.vstack([_bez_points(p, ts) for p in segments])


def _eval_many(ctrl, deg, t):
    """ctrl: (K,4,2) control points (padded), deg: (K,), t: (K,M) -> (K,M,2)"""
    t = t[..., None]
    mt = 1 - t
    p0, p1, p2, p3 = (ctrl[:, i][:, None, :] for i in range(4))
    lin = p0 * mt + p1 * t
    quad = p0 * mt ** 2 + 2 * p1 * mt * t + p2 * t ** 2
    cub = p0 * mt ** 3 + 3 * p1 * mt ** 2 * t + 3 * p2 * mt * t ** 2 + p3 * t ** 3
    d = deg[:, None, None]
    return np.where(d == 1, lin, np.where(d == 2, quad, cub))


def one_sided_exceeds(X, Y, tol, eps, per_seg=24, max_pairs=3000000, levels=7):
    """Is there a sampled point of path X provably farther than tol+eps from path Y?

    Branch-and-bound on chords of Y: a chord over a parameter span dt of a segment with
    second-derivative bound b2 is within b2*dt^2/8 of the curve, so for a point p
    d(p, chord) - delta <= d(p, curve piece) <= d(p, chord) + delta.  A point is
    cleared when some upper bound <= tol+eps, refuted (violation witness) when every
    piece's lower bound exceeds tol+eps; otherwise near pieces are subdivided.
    -> (True, point, lower_bound) | (False, n_undecided, None)"""
    P = sample(X, per_seg)
    S = len(Y)
    ctrl = np.zeros((S, 4, 2))
    deg = np.zeros(S, dtype=int)
    b2 = np.zeros(S)
    for i, seg in enumerate(Y):
        deg[i] = len(seg) - 1
        for k, q in enumerate(seg):
            ctrl[i, k] = q
        b2[i] = _second_diff_bound(seg)
    N = len(P)
    thr = tol + eps
    # prefilter: a curve lies in the bounding box of its control points, so a point farther than thr from the
    # box is farther than thr from the curve
    lo = np.array([[min(q[0] for q in seg), min(q[1] for q in seg)] for seg in Y])
    hi = np.array([[max(q[0] for q in seg), max(q[1] for q in seg)] for seg in Y])
    dx = np.maximum(np.maximum(lo[None, :, 0] - P[:, None, 0], P[:, None, 0] - hi[None, :, 0]), 0.0)
    dy = np.maximum(np.maximum(lo[None, :, 1] - P[:, None, 1], P[:, None, 1] - hi[None, :, 1]), 0.0)
    dbox = np.hypot(dx, dy)                                     # (N, S)
    nearbox = dbox <= thr
    lonely = ~nearbox.any(axis=1)
    if lonely.any():
        k = int(np.argmax(lonely))
        return True, (float(P[k, 0]), float(P[k, 1])), float(dbox[k].min())
    pi, si = np.nonzero(nearbox)
    t0 = np.zeros(len(pi))
    t1 = np.ones(len(pi))
    alive = np.ones(N, dtype=bool)          # not yet cleared
    M = 8
    for level in range(levels):
        if len(pi) == 0:
            break
        if len(pi) > max_pairs:
            return False, int(alive.sum()), None
        ts = t0[:, None] + (t1 - t0)[:, None] * np.linspace(0, 1, M + 1)[None, :]
        pts = _eval_many(ctrl[si], deg[si], ts)                 # (K, M+1, 2)
        A, B = pts[:, :-1], pts[:, 1:]
        AB = B - A
        L2 = (AB ** 2).sum(axis=2)
        L2s = np.where(L2 == 0, 1.0, L2)
        Pp = P[pi][:, None, :]
        tt = np.clip(((Pp - A) * AB).sum(axis=2) / L2s, 0.0, 1.0)
        proj = A + tt[..., None] * AB
        d = np.hypot(Pp[..., 0] - proj[..., 0], Pp[..., 1] - proj[..., 1])   # (K, M)
        delta = (b2[si] * ((t1 - t0) / M) ** 2 / 8.0)[:, None]
        ub = d + delta
        lb = d - delta
        cleared_pairs = (ub <= thr).any(axis=1)
        cleared_pts = np.zeros(N, dtype=bool)
        cleared_pts[pi[cleared_pairs]] = True
        alive &= ~cleared_pts
        near = (lb <= thr) & alive[pi][:, None]
        has_near = np.zeros(N, dtype=bool)
        has_near[pi[near.any(axis=1)]] = True
        # points still alive that were examined this level but have no near piece left
        examined = np.zeros(N, dtype=bool)
        examined[pi] = True
        refuted = alive & examined & ~has_near
        if refuted.any():
            k = int(np.argmax(refuted))
            mask = pi == k
            return True, (float(P[k, 0]), float(P[k, 1])), float(lb[mask].min())
        kk, mm = np.nonzero(near)
        w = (t1 - t0)[kk] / M
        nt0 = t0[kk] + mm * w
        pi, si, t0, t1 = pi[kk], si[kk], nt0, nt0 + w
        alive_mask = alive[pi]
        pi, si, t0, t1 = pi[alive_mask], si[alive_mask], t0[alive_mask], t1[alive_mask]
    return False, int(alive.sum()), None


def hausdorff_exceeds(segsA, segsB, tol, scale):
    """Two-sided, sound: True only when a sampled point of one path is *provably*
    farther than tol (+ float allowance) from the other.  -> (exceeds, lower_bound, allowance)"""
    eps = tol * 1e-6 + 1e-11 * max(scale, 1.0)
    und = 0
    for X, Y in ((segsA, segsB), (segsB, segsA)):
        ex, info, lb = one_sided_exceeds(X, Y, tol, eps)
        if ex:
            return True, lb, eps
        und += info
    return False, float(und), eps
