"""Struct-level readers of head/maxp/hhea/vhea/hmtx/vmtx/loca/glyf and an independent
recomputation of the derived fields a font producer has to keep consistent.

Written from the OpenType specification; imports nothing from fontTools.  Exact
arithmetic (`fractions.Fraction`) is used for component transforms (F2Dot14 values
are exact rationals), so the only tolerance needed is the unspecified rounding of
transformed points (±1 unit, see `Glyphs.bbox`)."""
import struct
from fractions import Fraction

# simple glyph flags
ON_CURVE, X_SHORT, Y_SHORT, REPEAT, X_SAME, Y_SAME, OVERLAP_SIMPLE = 1, 2, 4, 8, 16, 32, 64
# composite flags
ARG_WORDS, ARGS_XY, ROUND_XY, HAVE_SCALE, MORE, HAVE_XY_SCALE, HAVE_2X2 = 0x1, 0x2, 0x4, 0x8, 0x20, 0x40, 0x80
HAVE_INSTR, USE_MY_METRICS, OVERLAP_COMPOUND, SCALED_OFFSET, UNSCALED_OFFSET = 0x100, 0x200, 0x400, 0x800, 0x1000


class Bad(Exception):
    pass


class Unjudgeable(Exception):
    """The glyph data does not define the quantity (cycle, dangling reference,
    point-matching index out of range)."""


# ------------------------------------------------------------------ fixed tables
def read_head(d):
    if len(d) < 54:
        raise Bad("head table is %d bytes (< 54)" % len(d))
    (ver, rev, adj, magic, flags, upem) = struct.unpack_from(">IIIIHH", d, 0)
    xMin, yMin, xMax, yMax, macStyle, ppem, hint, locfmt, gdf = struct.unpack_from(">hhhhHHhhh", d, 36)
    return {"version": ver, "fontRevision": rev, "checkSumAdjustment": adj, "magicNumber": magic, "flags": flags,
            "unitsPerEm": upem, "created": d[20:28], "modified": d[28:36], "bbox": (xMin, yMin, xMax, yMax),
            "macStyle": macStyle, "indexToLocFormat": locfmt, "glyphDataFormat": gdf}


MAXP_FIELDS = ["maxPoints", "maxContours", "maxCompositePoints", "maxCompositeContours", "maxZones",
               "maxTwilightPoints", "maxStorage", "maxFunctionDefs", "maxInstructionDefs", "maxStackElements",
               "maxSizeOfInstructions", "maxComponentElements", "maxComponentDepth"]


def read_maxp(d):
    if len(d) < 6:
        raise Bad("maxp table is %d bytes" % len(d))
    ver, n = struct.unpack_from(">IH", d, 0)
    out = {"version": ver, "numGlyphs": n}
    if ver == 0x00010000:
        if len(d) != 32:
            raise Bad("maxp 1.0 table is %d bytes (expected 32)" % len(d))
        out.update(zip(MAXP_FIELDS, struct.unpack_from(">13H", d, 6)))
    elif ver == 0x00005000:
        if len(d) != 6:
            raise Bad("maxp 0.5 table is %d bytes (expected 6)" % len(d))
    else:
        raise Bad("maxp version 0x%08X" % ver)
    return out


def read_xhea(d):
    """hhea and vhea share one layout."""
    if len(d) != 36:
        raise Bad("hhea/vhea table is %d bytes (expected 36)" % len(d))
    ver, asc, desc, gap, advMax, minA, minB, ext = struct.unpack_from(">IhhhHhhh", d, 0)
    fmt, n = struct.unpack_from(">hH", d, 32)
    return {"version": ver, "advanceMax": advMax, "minFirstSB": minA, "minSecondSB": minB, "maxExtent": ext,
            "metricDataFormat": fmt, "numberOfMetrics": n}


def read_xmtx(d, n_metrics, n_glyphs):
    """-> list of (advance, sidebearing) per glyph.  Length must be exact."""
    if n_metrics > n_glyphs or (n_metrics == 0 and n_glyphs > 0):
        raise Bad("numberOfMetrics %d with %d glyphs" % (n_metrics, n_glyphs))
    want = 4 * n_metrics + 2 * (n_glyphs - n_metrics)
    if len(d) != want:
        raise Bad("metrics table is %d bytes; numberOfMetrics=%d numGlyphs=%d need %d"
                  % (len(d), n_metrics, n_glyphs, want))
    out = []
    for i in range(n_metrics):
        out.append(struct.unpack_from(">Hh", d, 4 * i))
    last = out[-1][0] if out else 0
    for i in range(n_glyphs - n_metrics):
        out.append((last, struct.unpack_from(">h", d, 4 * n_metrics + 2 * i)[0]))
    return out


def read_loca(d, fmt, n_glyphs):
    if fmt not in (0, 1):
        raise Bad("indexToLocFormat %d" % fmt)
    size = 4 if fmt else 2
    if len(d) != size * (n_glyphs + 1):
        raise Bad("loca is %d bytes; format %d with %d glyphs needs %d" % (len(d), fmt, n_glyphs, size * (n_glyphs + 1)))
    vals = struct.unpack(">%d%s" % (n_glyphs + 1, "I" if fmt else "H"), d)
    return [v * 2 for v in vals] if not fmt else list(vals)


# ------------------------------------------------------------------ glyph model
class Comp:
    __slots__ = ("flags", "gid", "a1", "a2", "t")   # t = (xx, xy, yx, yy) raw F2Dot14 ints or None

    def key(self):
        # everything a consumer sees (MORE_COMPONENTS / HAVE_INSTRUCTIONS / ARG_WORDS are encoding artefacts;
        # the scale *kind* is normalised to its 2x2 meaning)
        keep = ARGS_XY | ROUND_XY | USE_MY_METRICS | OVERLAP_COMPOUND | SCALED_OFFSET | UNSCALED_OFFSET
        return (self.flags & keep, self.gid, self.a1, self.a2, self.t)


class G:
    __slots__ = ("nc", "bbox", "pts", "ends", "instr", "overlap", "comps", "size", "slack")

    def __init__(self):
        self.nc, self.bbox, self.pts, self.ends, self.instr = 0, None, [], [], b""
        self.overlap, self.comps, self.size, self.slack = False, [], 0, b""

    def outline_key(self):
        if self.nc == 0:
            return ("empty",)
        if self.nc > 0:
            return ("simple", tuple(self.pts), tuple(self.ends), bytes(self.instr), self.bbox, self.overlap)
        return ("composite", tuple(c.key() for c in self.comps), bytes(self.instr), self.bbox)


def read_components(d, pos):
    """Composite glyph records starting at d[pos] -> (components, have_instructions, new pos)."""
    comps = []
    have_instr = False
    while True:
        if pos + 4 > len(d):
            raise Bad("composite record truncated")
        flags, gid = struct.unpack_from(">HH", d, pos)
        pos += 4
        c = Comp()
        c.flags, c.gid = flags, gid
        if flags & ARG_WORDS:
            c.a1, c.a2 = struct.unpack_from(">hh" if flags & ARGS_XY else ">HH", d, pos)
            pos += 4
        else:
            c.a1, c.a2 = struct.unpack_from(">bb" if flags & ARGS_XY else ">BB", d, pos)
            pos += 2
        if flags & HAVE_SCALE:
            (s,) = struct.unpack_from(">h", d, pos)
            pos += 2
            c.t = (s, 0, 0, s)
        elif flags & HAVE_XY_SCALE:
            sx, sy = struct.unpack_from(">hh", d, pos)
            pos += 4
            c.t = (sx, 0, 0, sy)
        elif flags & HAVE_2X2:
            c.t = struct.unpack_from(">hhhh", d, pos)   # xscale, scale01, scale10, yscale
            pos += 8
        else:
            c.t = None
        comps.append(c)
        have_instr = have_instr or bool(flags & HAVE_INSTR)
        if not flags & MORE:
            break
    return comps, have_instr, pos


def read_glyph(d):
    """One glyph description (the bytes of its loca range)."""
    g = G()
    g.size = len(d)
    if len(d) == 0:
        return g
    if len(d) < 10:
        raise Bad("glyph description is %d bytes (< 10)" % len(d))
    nc, xMin, yMin, xMax, yMax = struct.unpack_from(">hhhhh", d, 0)
    g.nc = nc
    g.bbox = (xMin, yMin, xMax, yMax)
    pos = 10
    try:
        if nc == 0:
            g.bbox = None
        elif nc > 0:
            g.ends = list(struct.unpack_from(">%dH" % nc, d, pos))
            pos += 2 * nc
            if any(a >= b for a, b in zip(g.ends, g.ends[1:])):
                raise Bad("endPtsOfContours not increasing")
            (ilen,) = struct.unpack_from(">H", d, pos)
            pos += 2
            g.instr = bytes(d[pos:pos + ilen])
            if len(g.instr) != ilen:
                raise Bad("instructions truncated")
            pos += ilen
            npts = g.ends[-1] + 1
            flags = []
            while len(flags) < npts:
                f = d[pos]
                pos += 1
                rep = 1
                if f & REPEAT:
                    rep += d[pos]
                    pos += 1
                flags.extend([f] * rep)
            if len(flags) != npts:
                raise Bad("flag repeat runs past the last point")
            xs, x = [], 0
            for f in flags:
                if f & X_SHORT:
                    dx = d[pos] if f & X_SAME else -d[pos]
                    pos += 1
                elif f & X_SAME:
                    dx = 0
                else:
                    (dx,) = struct.unpack_from(">h", d, pos)
                    pos += 2
                x += dx
                xs.append(x)
            y = 0
            for i, f in enumerate(flags):
                if f & Y_SHORT:
                    dy = d[pos] if f & Y_SAME else -d[pos]
                    pos += 1
                elif f & Y_SAME:
                    dy = 0
                else:
                    (dy,) = struct.unpack_from(">h", d, pos)
                    pos += 2
                y += dy
                g.pts.append((xs[i], y, f & (ON_CURVE | 0x80)))     # bit 7: cubic off-curve (glyf format 1)
            g.overlap = bool(flags[0] & OVERLAP_SIMPLE)
        else:
            g.comps, have_instr, pos = read_components(d, pos)
            if have_instr:
                (ilen,) = struct.unpack_from(">H", d, pos)
                pos += 2
                g.instr = bytes(d[pos:pos + ilen])
                if len(g.instr) != ilen:
                    raise Bad("instructions truncated")
                pos += ilen
    except (struct.error, IndexError):
        raise Bad("glyph description truncated")
    if pos > len(d):
        raise Bad("glyph description truncated")
    g.slack = bytes(d[pos:])
    return g


def read_glyf(glyf, loca):
    """-> (list of G, problems).  `loca` = absolute byte offsets (numGlyphs+1)."""
    problems = []
    glyphs = []
    if any(a > b for a, b in zip(loca, loca[1:])):
        problems.append(("loca", "loca offsets are not monotonically non-decreasing", {}))
    if loca and loca[-1] > len(glyf):
        problems.append(("loca", "last loca offset %d beyond glyf length %d" % (loca[-1], len(glyf)), {}))
    for i in range(len(loca) - 1):
        a, b = loca[i], loca[i + 1]
        if b < a or b > len(glyf):
            glyphs.append(None)
            continue
        try:
            g = read_glyph(glyf[a:b])
        except Bad as e:
            problems.append(("glyf", "glyph %d: %s" % (i, e), {"gid": i}))
            g = None
        else:
            if len(g.slack) > 3 or any(g.slack):
                problems.append(("glyf-slack", "glyph %d: %d trailing bytes %s after the description"
                                 % (i, len(g.slack), g.slack[:8].hex()), {"gid": i}))
        glyphs.append(g)
    return glyphs, problems


# ------------------------------------------------------------------ recomputation
F14 = Fraction(1, 16384)


class Glyphs:
    """Derived quantities of a glyph list (model objects `G`)."""

    def __init__(self, glyphs):
        self.g = glyphs
        self._pts = {}
        self._flat = {}

    # flattened exact points of a glyph -------------------------------------
    def points(self, gid, stack=()):
        if gid in self._pts:
            return self._pts[gid]
        if gid in stack:
            raise Unjudgeable("component cycle through glyph %d" % gid)
        if gid >= len(self.g) or self.g[gid] is None:
            raise Unjudgeable("reference to missing glyph %d" % gid)
        g = self.g[gid]
        if g.nc >= 0:
            pts = [(x, y) for x, y, _ in g.pts]
        else:
            pts = []
            for c in g.comps:
                sub = self.points(c.gid, stack + (gid,))
                if c.t is not None:
                    xx, xy, yx, yy = (v * F14 for v in c.t)
                    # spec: x' = xscale*x + scale10*y ; y' = scale01*x + yscale*y
                    tr = lambda p: (xx * p[0] + yx * p[1], xy * p[0] + yy * p[1])
                else:
                    tr = None
                if c.flags & ARGS_XY:
                    dx, dy = c.a1, c.a2
                    if tr is not None and (c.flags & SCALED_OFFSET) and not (c.flags & UNSCALED_OFFSET):
                        dx, dy = tr((dx, dy))
                    elif tr is not None and (c.flags & SCALED_OFFSET) and (c.flags & UNSCALED_OFFSET):
                        raise Unjudgeable("both SCALED and UNSCALED_COMPONENT_OFFSET set")
                    sub = [tr(p) for p in sub] if tr else sub
                    sub = [(x + dx, y + dy) for x, y in sub]
                else:
                    sub = [tr(p) for p in sub] if tr else list(sub)
                    if c.a1 >= len(pts) or c.a2 >= len(sub):
                        raise Unjudgeable("point-matching indices out of range")
                    dx, dy = pts[c.a1][0] - sub[c.a2][0], pts[c.a1][1] - sub[c.a2][1]
                    sub = [(x + dx, y + dy) for x, y in sub]
                pts.extend(sub)
        self._pts[gid] = pts
        return pts

    def has_transform(self, gid, stack=()):
        """Any non-translation transform anywhere below this glyph?"""
        g = self.g[gid]
        if g is None or g.nc >= 0 or gid in stack:
            return False
        return any(c.t is not None or self.has_transform(c.gid, stack + (gid,)) for c in g.comps if c.gid < len(self.g))

    def bbox(self, gid):
        """-> (exact bounds as Fractions or None when the glyph has no points, tolerance)."""
        pts = self.points(gid)
        tol = 1 if self.has_transform(gid) else 0
        if not pts:
            return None, tol
        xs = [p[0] for p in pts]
        ys = [p[1] for p in pts]
        return (min(xs), min(ys), max(xs), max(ys)), tol

    # maxp ---------------------------------------------------------------------
    def flat_counts(self, gid, stack=()):
        """(points, contours, depth) of the fully flattened glyph; depth 0 for simple/empty."""
        if gid in self._flat:
            return self._flat[gid]
        if gid in stack:
            raise Unjudgeable("component cycle through glyph %d" % gid)
        if gid >= len(self.g) or self.g[gid] is None:
            raise Unjudgeable("reference to missing glyph %d" % gid)
        g = self.g[gid]
        if g.nc >= 0:
            r = (len(g.pts), g.nc, 0)
        else:
            np_, nc_, depth = 0, 0, 0
            for c in g.comps:
                a, b, d = self.flat_counts(c.gid, stack + (gid,))
                np_, nc_, depth = np_ + a, nc_ + b, max(depth, d)
            r = (np_, nc_, depth + 1)
        self._flat[gid] = r
        return r

    def maxp(self):
        out = dict.fromkeys(["maxPoints", "maxContours", "maxCompositePoints", "maxCompositeContours",
                             "maxComponentElements", "maxComponentDepth", "maxSizeOfInstructions"], 0)
        for gid, g in enumerate(self.g):
            if g is None:
                raise Unjudgeable("glyph %d unreadable" % gid)
            out["maxSizeOfInstructions"] = max(out["maxSizeOfInstructions"], len(g.instr))
            if g.nc > 0:
                out["maxPoints"] = max(out["maxPoints"], len(g.pts))
                out["maxContours"] = max(out["maxContours"], g.nc)
            elif g.nc < 0:
                np_, nc_, depth = self.flat_counts(gid)
                out["maxCompositePoints"] = max(out["maxCompositePoints"], np_)
                out["maxCompositeContours"] = max(out["maxCompositeContours"], nc_)
                out["maxComponentElements"] = max(out["maxComponentElements"], len(g.comps))
                out["maxComponentDepth"] = max(out["maxComponentDepth"], depth)
        return out

    def font_bbox(self):
        """Union of the *stored* glyph boxes of all glyphs that have a description
        (numberOfContours != 0); (0,0,0,0) when there is none."""
        boxes = [g.bbox for g in self.g if g is not None and g.nc != 0]
        if not boxes:
            return (0, 0, 0, 0)
        return (min(b[0] for b in boxes), min(b[1] for b in boxes), max(b[2] for b in boxes), max(b[3] for b in boxes))


def xhea_expected(metrics, extents):
    """Derived hhea/vhea fields.

    metrics : [(advance, first side bearing)] per glyph
    extents : per glyph None (no outline), or (extent_along_axis, definite) where
              `definite` is False when it is debatable whether the glyph counts as
              'having contours' (a composite that flattens to no points).
    -> dict field -> set of acceptable values."""
    adv = max((a for a, _ in metrics), default=0)
    variants = []
    for include_debatable in (True, False):
        rows = [(m, e[0]) for m, e in zip(metrics, extents) if e is not None and (e[1] or include_debatable)]
        if rows:
            variants.append((min(sb for (a, sb), w in rows),
                             min(a - sb - w for (a, sb), w in rows),
                             max(sb + w for (a, sb), w in rows)))
        else:
            variants.append((0, 0, 0))
    return {"advanceMax": {adv},
            "minFirstSB": {v[0] for v in variants},
            "minSecondSB": {v[1] for v in variants},
            "maxExtent": {v[2] for v in variants}}


def minimal_number_of_metrics(metrics):
    """Smallest numberOfMetrics that still encodes these advances (>= 1)."""
    n = len(metrics)
    while n > 1 and metrics[n - 2][0] == metrics[n - 1][0]:
        n -= 1
    return n


# ------------------------------------------------------------------ CFF (just enough)
def _cff_index(d, pos, cff2=False):
    if cff2:
        (count,) = struct.unpack_from(">I", d, pos)
        pos += 4
    else:
        (count,) = struct.unpack_from(">H", d, pos)
        pos += 2
    if count == 0:
        return [], pos
    osz = d[pos]
    pos += 1
    offs = [int.from_bytes(d[pos + i * osz:pos + (i + 1) * osz], "big") for i in range(count + 1)]
    base = pos + (count + 1) * osz - 1
    return [(base + offs[i], base + offs[i + 1]) for i in range(count)], base + offs[-1]


def _cff_dict(d):
    out, stack, i = {}, [], 0
    while i < len(d):
        b0 = d[i]
        if b0 <= 21 or b0 in (23, 24):          # operators (22..27 reserved except 23/24 in CFF2)
            if b0 == 12:
                op = (12, d[i + 1])
                i += 2
            else:
                op = b0
                i += 1
            out[op] = stack
            stack = []
        elif b0 == 28:
            stack.append(struct.unpack_from(">h", d, i + 1)[0])
            i += 3
        elif b0 == 29:
            stack.append(struct.unpack_from(">i", d, i + 1)[0])
            i += 5
        elif b0 == 30:
            s = ""
            i += 1
            done = False
            while not done:
                for nib in (d[i] >> 4, d[i] & 15):
                    if nib == 15:
                        done = True
                        break
                    s += "0123456789.EE?-"[nib] if nib != 12 else "E-"
                i += 1
            try:
                stack.append(float(s))
            except ValueError:
                stack.append(None)
        elif 32 <= b0 <= 246:
            stack.append(b0 - 139)
            i += 1
        elif 247 <= b0 <= 250:
            stack.append((b0 - 247) * 256 + d[i + 1] + 108)
            i += 2
        elif 251 <= b0 <= 254:
            stack.append(-(b0 - 251) * 256 - d[i + 1] - 108)
            i += 2
        else:
            raise Bad("CFF DICT byte %d" % b0)
    return out


def read_cff(d):
    """-> {'major', 'FontBBox' (list or None), 'numGlyphs', ...internal offsets} of the first font."""
    try:
        major = d[0]
        if major == 1:
            hdr = d[2]
            _, pos = _cff_index(d, hdr)                 # Name INDEX
            tops, pos = _cff_index(d, pos)              # Top DICT INDEX
            top = _cff_dict(d[tops[0][0]:tops[0][1]])
            _, pos = _cff_index(d, pos)                 # String INDEX
            gsubrs, _ = _cff_index(d, pos)
            cs, _ = _cff_index(d, top[17][0])
        elif major == 2:
            hdr = d[2]
            (tlen,) = struct.unpack_from(">H", d, 3)
            top = _cff_dict(d[hdr:hdr + tlen])
            gsubrs, _ = _cff_index(d, hdr + tlen, cff2=True)
            cs, _ = _cff_index(d, top[17][0], cff2=True)
        else:
            raise Bad("CFF major version %d" % major)
    except (IndexError, KeyError, struct.error) as e:
        raise Bad("CFF unreadable: %r" % e)
    return {"major": major, "FontBBox": top.get(5), "numGlyphs": len(cs), "_top": top, "_cs": cs, "_gsubrs": gsubrs}


def _private_subrs(d, priv, cff2):
    """Local Subrs INDEX of a Private DICT operand pair [size, offset]."""
    if not priv or len(priv) != 2:
        return []
    size, off = priv
    pd = _cff_dict(d[off:off + size])
    if 19 not in pd:
        return []
    subrs, _ = _cff_index(d, off + pd[19][0], cff2=cff2)
    return subrs


def _fd_select(d, off, n, cff2):
    fmt = d[off]
    if fmt == 0:
        return list(d[off + 1:off + 1 + n])
    out = [0] * n
    if fmt == 3:
        (nr,) = struct.unpack_from(">H", d, off + 1)
        recs = [struct.unpack_from(">HB", d, off + 3 + 3 * i) for i in range(nr)]
        (sent,) = struct.unpack_from(">H", d, off + 3 + 3 * nr)
    elif fmt == 4 and cff2:
        (nr,) = struct.unpack_from(">I", d, off + 1)
        recs = [struct.unpack_from(">IH", d, off + 5 + 6 * i) for i in range(nr)]
        (sent,) = struct.unpack_from(">I", d, off + 5 + 6 * nr)
    else:
        raise Bad("FDSelect format %d" % fmt)
    for i, (first, fd) in enumerate(recs):
        last = recs[i + 1][0] if i + 1 < len(recs) else sent
        for g in range(first, min(last, n)):
            out[g] = fd
    return out


def _bias(n):
    return 107 if n < 1240 else (1131 if n < 33900 else 32768)


class _T2:
    """Type 2 charstring path extractor (Adobe TN #5177), enough for outlines: all path
    and hint operators, subroutines, flex; arithmetic/storage operators and CFF2
    blend make the glyph Unjudgeable.  Produces subpaths: [start, [segments]] with
    segments ('L', p) / ('C', p1, p2, p3); a subpath without segments is a lone moveto."""

    def __init__(self, d, gsubrs, lsubrs, cff2):
        self.d, self.g, self.l, self.cff2 = d, gsubrs, lsubrs, cff2

    def run(self, span):
        self.stack, self.paths, self.x, self.y = [], [], 0, 0
        self.nstems, self.width_done, self.done = 0, self.cff2, False
        self.exec(span, 0)
        return self.paths

    # helpers
    def _clear_width(self, expect_even=None, expect=None):
        st = self.stack
        if not self.width_done:
            self.width_done = True
            if expect_even is not None and len(st) % 2 == 1:
                del st[0]
            elif expect is not None and len(st) > expect:
                del st[0]

    def _move(self, dx, dy):
        self.x += dx
        self.y += dy
        self.paths.append([(self.x, self.y), []])

    def _line(self, dx, dy):
        if not self.paths:
            self.paths.append([(self.x, self.y), []])
        self.x += dx
        self.y += dy
        self.paths[-1][1].append(("L", (self.x, self.y)))

    def _curve(self, a, b, c, d_, e, f):
        if not self.paths:
            self.paths.append([(self.x, self.y), []])
        p1 = (self.x + a, self.y + b)
        p2 = (p1[0] + c, p1[1] + d_)
        p3 = (p2[0] + e, p2[1] + f)
        self.x, self.y = p3
        self.paths[-1][1].append(("C", p1, p2, p3))

    def exec(self, span, depth):
        if depth > 10:
            raise Unjudgeable("subroutine nesting > 10")
        d, i, end = self.d, span[0], span[1]
        st = self.stack
        while i < end and not self.done:
            b0 = d[i]
            i += 1
            if b0 >= 32 or b0 == 28:
                if b0 == 28:
                    st.append(struct.unpack_from(">h", d, i)[0])
                    i += 2
                elif b0 <= 246:
                    st.append(b0 - 139)
                elif b0 <= 250:
                    st.append((b0 - 247) * 256 + d[i] + 108)
                    i += 1
                elif b0 <= 254:
                    st.append(-(b0 - 251) * 256 - d[i] - 108)
                    i += 1
                else:
                    st.append(Fraction(struct.unpack_from(">i", d, i)[0], 65536))
                    i += 4
                continue
            op = b0
            if op == 12:
                op = (12, d[i])
                i += 1
            if op in (1, 3, 18, 23):
                self._clear_width(expect_even=True)
                self.nstems += len(st) // 2
                del st[:]
            elif op in (19, 20):
                self._clear_width(expect_even=True)
                self.nstems += len(st) // 2
                del st[:]
                i += (self.nstems + 7) // 8
            elif op == 21:
                self._clear_width(expect=2)
                self._move(st[-2], st[-1])
                del st[:]
            elif op == 22:
                self._clear_width(expect=1)
                self._move(st[-1], 0)
                del st[:]
            elif op == 4:
                self._clear_width(expect=1)
                self._move(0, st[-1])
                del st[:]
            elif op == 5:
                for k in range(0, len(st) - 1, 2):
                    self._line(st[k], st[k + 1])
                del st[:]
            elif op in (6, 7):
                horiz = op == 6
                for v in st:
                    self._line(v, 0) if horiz else self._line(0, v)
                    horiz = not horiz
                del st[:]
            elif op == 8:
                for k in range(0, len(st) - 5, 6):
                    self._curve(*st[k:k + 6])
                del st[:]
            elif op == 24:
                n = (len(st) - 2) // 6 * 6
                for k in range(0, n, 6):
                    self._curve(*st[k:k + 6])
                self._line(st[n], st[n + 1])
                del st[:]
            elif op == 25:
                n = len(st) - 6
                for k in range(0, n - 1, 2):
                    self._line(st[k], st[k + 1])
                self._curve(*st[n:n + 6])
                del st[:]
            elif op == 26:
                k, dx1 = 0, 0
                if len(st) % 4 == 1:
                    dx1, k = st[0], 1
                while k + 3 < len(st):
                    self._curve(dx1, st[k], st[k + 1], st[k + 2], 0, st[k + 3])
                    dx1 = 0
                    k += 4
                del st[:]
            elif op == 27:
                k, dy1 = 0, 0
                if len(st) % 4 == 1:
                    dy1, k = st[0], 1
                while k + 3 < len(st):
                    self._curve(st[k], dy1, st[k + 1], st[k + 2], st[k + 3], 0)
                    dy1 = 0
                    k += 4
                del st[:]
            elif op in (30, 31):
                horiz = op == 31
                k, n = 0, len(st)
                while k + 3 < n:
                    last = (n - k == 5)
                    extra = st[k + 4] if last else 0
                    if horiz:
                        self._curve(st[k], 0, st[k + 1], st[k + 2], extra, st[k + 3])
                    else:
                        self._curve(0, st[k], st[k + 1], st[k + 2], st[k + 3], extra)
                    horiz = not horiz
                    k += 4
                del st[:]
            elif op in (10, 29):
                subrs = self.l if op == 10 else self.g
                idx = st.pop() + _bias(len(subrs))
                if not 0 <= idx < len(subrs):
                    raise Unjudgeable("subroutine index out of range")
                self.exec(subrs[idx], depth + 1)
            elif op == 11:
                return
            elif op == 14:
                if not self.width_done and len(st) in (1, 5):
                    del st[0]
                self.width_done = True
                if len(st) >= 4:
                    raise Unjudgeable("endchar with seac arguments")
                self.done = True
                return
            elif op == (12, 35):
                self._curve(*st[0:6])
                self._curve(*st[6:12])
                del st[:]
            elif op == (12, 34):
                dx1, dx2, dy2, dx3, dx4, dx5, dx6 = st[:7]
                self._curve(dx1, 0, dx2, dy2, dx3, 0)
                self._curve(dx4, 0, dx5, -dy2, dx6, 0)
                del st[:]
            elif op == (12, 36):
                dx1, dy1, dx2, dy2, dx3, dx4, dx5, dy5, dx6 = st[:9]
                self._curve(dx1, dy1, dx2, dy2, dx3, 0)
                self._curve(dx4, 0, dx5, dy5, dx6, -(dy1 + dy2 + dy5))
                del st[:]
            elif op == (12, 37):
                dx1, dy1, dx2, dy2, dx3, dy3, dx4, dy4, dx5, dy5, d6 = st[:11]
                sx, sy = dx1 + dx2 + dx3 + dx4 + dx5, dy1 + dy2 + dy3 + dy4 + dy5
                self._curve(dx1, dy1, dx2, dy2, dx3, dy3)
                if abs(sx) > abs(sy):
                    self._curve(dx4, dy4, dx5, dy5, d6, -sy)
                else:
                    self._curve(dx4, dy4, dx5, dy5, -sx, d6)
                del st[:]
            else:
                raise Unjudgeable("charstring operator %r not modelled" % (op,))


def cff_paths(d, info=None):
    """Outline subpaths of every glyph of the first font in a CFF/CFF2 table.
    -> list (per glyph) of subpath lists, or None for a glyph that is Unjudgeable."""
    info = info or read_cff(d)
    cff2 = info["major"] == 2
    top = info["_top"]
    try:
        if (12, 36) in top:
            fda, _ = _cff_index(d, top[(12, 36)][0], cff2=cff2)
            fds = [_cff_dict(d[a:b]) for a, b in fda]
            lsubrs = [_private_subrs(d, fd.get(18), cff2) for fd in fds]
            if (12, 37) in top:
                sel = _fd_select(d, top[(12, 37)][0], info["numGlyphs"], cff2)
            else:
                sel = [0] * info["numGlyphs"]
        else:
            lsubrs = [_private_subrs(d, top.get(18), cff2)]
            sel = [0] * info["numGlyphs"]
    except (IndexError, KeyError, struct.error) as e:
        raise Bad("CFF private/FD structures unreadable: %r" % e)
    out = []
    for gid, span in enumerate(info["_cs"]):
        try:
            vm = _T2(d, info["_gsubrs"], lsubrs[sel[gid]] if sel[gid] < len(lsubrs) else [], cff2)
            out.append(vm.run(span))
        except (Unjudgeable, IndexError, struct.error, TypeError, ValueError):
            out.append(None)
    return out


def subpath_bounds(paths, lone_points):
    """Tight bounds (curve extrema) of T2 subpaths; lone movetos counted iff asked.
    -> (xMin, yMin, xMax, yMax) floats or None."""
    rec = []
    for start, segs in paths:
        if not segs:
            if lone_points:
                rec.append(("moveTo", (start,)))
                rec.append(("lineTo", (start,)))
            continue
        rec.append(("moveTo", (start,)))
        for sg in segs:
            if sg[0] == "L":
                rec.append(("lineTo", (sg[1],)))
            else:
                rec.append(("curveTo", tuple(sg[1:])))
        rec.append(("closePath", ()))
    b, _ = record_bounds([(op, tuple(tuple(float(c) for c in pt) for pt in pts)) for op, pts in rec])
    return b


# ------------------------------------------------------------------ tight bounds of pen records
def _cubic_extrema(p0, p1, p2, p3):
    """Parameter values in (0,1) where the derivative of a 1-D cubic vanishes."""
    a = -p0 + 3 * p1 - 3 * p2 + p3
    b = 2 * (p0 - 2 * p1 + p2)
    c = p1 - p0
    ts = []
    if abs(a) < 1e-12:
        if abs(b) > 1e-12:
            ts.append(-c / b)
    else:
        disc = b * b - 4 * a * c
        if disc >= 0:
            r = disc ** 0.5
            ts.extend([(-b + r) / (2 * a), (-b - r) / (2 * a)])
    return [t for t in ts if 0 < t < 1]


def record_bounds(rec):
    """Tight bounding box (curve extrema, not control points) of a pen recording
    [(op, pts)], or None when nothing is drawn.  Also returns whether any segment
    was drawn (a lone moveTo is 'debatable')."""
    xs, ys = [], []
    cur = start = None
    drew = False

    def add(p):
        xs.append(p[0])
        ys.append(p[1])

    for op, pts in rec:
        if op == "moveTo":
            cur = start = pts[0]
        elif op == "lineTo":
            add(cur)
            add(pts[0])
            cur = pts[0]
            drew = True
        elif op == "curveTo":
            p0, (p1, p2, p3) = cur, pts
            add(p0)
            add(p3)
            for k, store in ((0, xs), (1, ys)):
                for t in _cubic_extrema(p0[k], p1[k], p2[k], p3[k]):
                    mt = 1 - t
                    store.append(mt ** 3 * p0[k] + 3 * mt * mt * t * p1[k] + 3 * mt * t * t * p2[k] + t ** 3 * p3[k])
            cur = p3
            drew = True
        elif op == "qCurveTo":
            qs = [q for q in pts if q is not None]
            on = []
            # expand implied on-curve points
            ctrl = qs[:-1]
            end = qs[-1]
            p0 = cur if cur is not None else end
            for i, cpt in enumerate(ctrl):
                nxt = end if i == len(ctrl) - 1 else ((cpt[0] + ctrl[i + 1][0]) / 2, (cpt[1] + ctrl[i + 1][1]) / 2)
                add(p0)
                add(nxt)
                for k, store in ((0, xs), (1, ys)):
                    den = p0[k] - 2 * cpt[k] + nxt[k]
                    if abs(den) > 1e-12:
                        t = (p0[k] - cpt[k]) / den
                        if 0 < t < 1:
                            mt = 1 - t
                            store.append(mt * mt * p0[k] + 2 * mt * t * cpt[k] + t * t * nxt[k])
                p0 = nxt
            if not ctrl:
                add(p0)
                add(end)
            cur = end
            drew = True
        elif op in ("closePath", "endPath"):
            if start is not None and cur is not None and start != cur:
                add(cur)
                add(start)
            cur = start
    if not xs:
        return None, drew
    return (min(xs), min(ys), max(xs), max(ys)), drew
