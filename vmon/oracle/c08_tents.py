"""Exact (fractions.Fraction) tent / region scalars and normalisation helpers for C08 and C10.

Written from the OpenType variations spec ("Algorithm for interpolation of instance
values"), not from fontTools.varLib.models / instancer.solver:

* a tent (start, peak, end) on one axis contributes 1 when peak == 0 or the tent is
  malformed (start > peak, peak > end, start < 0 < end with peak != 0), 0 outside
  [start, end] (and at start/end unless equal to the peak), and the linear ramp in
  between;
* a region scalar is the product over its axes.

Used only to *size the rounding budget* (sum of |scalar| over the tuples that survived
instancing / were built) and for the axis-map sub-claim of C10; never to predict the
library's output.
"""
from fractions import Fraction as F

STEP = F(1, 16384)


def fr(v):
    return v if isinstance(v, F) else F(v)


def tent_scalar(x, tent):
    start, peak, end = (fr(t) for t in tent)
    x = fr(x)
    if peak == 0:
        return F(1)
    if start > peak or peak > end:
        return F(1)
    if start < 0 and end > 0:
        return F(1)
    if x == peak:
        return F(1)
    if x <= start or x >= end:
        return F(0)
    if x < peak:
        return (x - start) / (peak - start)
    return (end - x) / (end - peak)


def region_scalar(loc, region):
    """loc: {tag: value}; region: {tag: (start, peak, end)}; axes missing from loc are 0."""
    s = F(1)
    for tag, tent in region.items():
        s *= tent_scalar(loc.get(tag, 0), tent)
        if s == 0:
            return s
    return s


def abs_scalar_sum(loc, regions):
    return sum((abs(region_scalar(loc, r)) for r in regions), F(0))


# ---------------------------------------------------------------- normalisation (spec: fvar + avar v1)
def normalize_value(v, triple):
    """Default normalisation of the fvar spec, exact."""
    lo, df, hi = (fr(t) for t in triple)
    v = max(lo, min(hi, fr(v)))
    if v == df:
        return F(0)
    if v < df:
        return (v - df) / (df - lo)
    return (v - df) / (hi - df)


def piecewise(v, knots):
    """knots: sorted list of (from, to) pairs (Fractions); linear between, clamped outside."""
    v = fr(v)
    if not knots:
        return v
    if v <= knots[0][0]:
        return knots[0][1]
    if v >= knots[-1][0]:
        return knots[-1][1]
    for (a, fa), (b, fb) in zip(knots, knots[1:]):
        if a <= v <= b:
            if a == b:
                return fa
            return fa + (v - a) * (fb - fa) / (b - a)
    raise AssertionError("unreachable")


def max_slope(knots):
    """Largest slope of a piecewise-linear map given as sorted (from, to) pairs (floats ok)."""
    worst = F(1)
    for (a, fa), (b, fb) in zip(knots, knots[1:]):
        if b != a:
            worst = max(worst, abs(fr(fb) - fr(fa)) / (fr(b) - fr(a)))
        else:
            worst = max(worst, F(64))
    return worst


def q14(v):
    """Nearest multiple of 1/16384 (ties up) as a Fraction."""
    return F((fr(v) * 16384 + F(1, 2)).__floor__(), 16384)
