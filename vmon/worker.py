"""Worker: `python -B -m vmon.worker <check> <cases.json> <out.jsonl>`.

Runs the cases of one shard in one process with the check's monitors attached.
Writes one JSON line per case and a final summary line with monitor counters,
site coverage and audit counts.  Per-case wall-clock watchdog via SIGALRM: a case
that trips it is *inconclusive*, never a violation.
"""
import importlib
import json
import os
import signal
import sys
import time
import traceback


def main(argv):
    check, cases_path, out_path = argv[:3]
    from vmon import env

    out = open(out_path, "a", buffering=1)
    try:
        loc = env.bootstrap()
    except Exception as e:
        out.write(json.dumps({"fatal": "wrong-import", "detail": repr(e)}) + "\n")
        return 3
    from vmon import hooks, probes, audit
    from vmon.case import Ctx, LibRaised, CaseTimeout

    mod = importlib.import_module("vmon.checks." + check.lower())
    with open(cases_path) as f:
        cases = json.load(f)
    try:
        if hasattr(mod, "setup"):
            mod.setup()
    except Exception:
        out.write(json.dumps({"fatal": "setup", "detail": traceback.format_exc()[-3000:]}) + "\n")
        return 3

    def on_alarm(signum, frame):
        raise CaseTimeout()

    signal.signal(signal.SIGALRM, on_alarm)
    default_to = int(getattr(mod, "CASE_TIMEOUT", 120))
    for case in cases:
        out.write(json.dumps({"start": case.get("id")}) + "\n")
        ctx = Ctx(case)
        hooks.reset_case()
        t0 = time.time()
        # repeating: if a timeout raised inside library code is swallowed there (bare except), it is raised again
        signal.setitimer(signal.ITIMER_REAL, int(case.get("timeout", default_to)), 15)
        try:
            mod.run_case(case, ctx)
        except LibRaised:
            pass
        except CaseTimeout:
            ctx.inconclusive("case-timeout")
        except MemoryError:
            ctx.inconclusive("MemoryError")
        except RecursionError:
            ctx.inconclusive("harness RecursionError: " + traceback.format_exc()[-1500:])
        except Exception:
            ctx.inconclusive("harness-error: " + traceback.format_exc()[-3000:])
        finally:
            signal.setitimer(signal.ITIMER_REAL, 0)
        for rep in hooks.take_reports():
            ctx.violations.append(rep)
        for me in hooks.take_monitor_errors():
            ctx.inconclusive("monitor-error: " + me)
        r = ctx.result()
        r["wall"] = round(time.time() - t0, 3)
        out.write(json.dumps(r, default=repr) + "\n")
    out.write(json.dumps({
        "summary": True,
        "import": loc,
        "monitors": dict(hooks.counters),
        "sites": probes.site_summary(),
        "audit": dict(audit.counts),
    }) + "\n")
    out.close()
    return 0


if __name__ == "__main__":
    rc = main(sys.argv[1:])
    sys.stdout.flush()
    os._exit(rc)
