"""C16 pipeline runner: `python -B -m vmon.c16_pipe spec.json` (fresh interpreter, the
hash seed / environment / clock offset chosen by the parent case).

Runs each job of the spec — one fontTools pipeline on one corpus input — and prints one
JSON document: sha256 of every output table per job, the environment variables and clock
functions *library code* consulted while the job ran, and (on request) the XML dump of
named output tables for a witness diff.  The parent compares documents across
interpreters; nothing is judged here.
"""
import hashlib
import io
import json
import os
import sys
import time

MARK = "C16PIPE-JSON:"
_REAL = {"time": time.time, "gmtime": time.gmtime, "localtime": time.localtime}
_state = {"shift": 0.0, "job": None, "clock": {}, "env": {}}
_SKIP_FILES = (os.sep + "os.py", "_collections_abc.py", "<frozen os>", "<frozen _collections_abc>")


def _lib_caller(depth=2):
    """(relative file, function) of the nearest non-stdlib-plumbing caller if it is library code."""
    lib = _state.get("lib")
    f = sys._getframe(depth)
    while f is not None:
        fn = f.f_code.co_filename
        if fn == __file__ or fn.endswith(_SKIP_FILES):
            f = f.f_back
            continue
        if lib and fn.startswith(lib):
            return "%s:%s" % (os.path.relpath(fn, lib), f.f_code.co_name)
        return None
    return None


def _note(kind, name, who):
    d = _state[kind].setdefault(_state["job"] or "-", {})
    d.setdefault(name, [])
    if who not in d[name]:
        d[name].append(who)


def _time():
    who = _lib_caller()
    if who:
        _note("clock", "time.time", who)
    return _REAL["time"]() + _state["shift"]


def _gmtime(secs=None):
    if secs is None:
        who = _lib_caller()
        if who:
            _note("clock", "time.gmtime()", who)
        secs = _REAL["time"]() + _state["shift"]
    return _REAL["gmtime"](secs)


def _localtime(secs=None):
    if secs is None:
        who = _lib_caller()
        if who:
            _note("clock", "time.localtime()", who)
        secs = _REAL["time"]() + _state["shift"]
    return _REAL["localtime"](secs)


def _install_wrappers():
    time.time, time.gmtime, time.localtime = _time, _gmtime, _localtime
    cls = type(os.environ)
    orig = cls.__getitem__

    def getitem(self, key):
        who = _lib_caller()
        if who:
            _note("env", key if isinstance(key, str) else repr(key), who)
        return orig(self, key)

    cls.__getitem__ = getitem


# ------------------------------------------------------------------ helpers
def _sha(b):
    return hashlib.sha256(b).hexdigest()


def _hash_bytes(data):
    """{tag: sha256} of an sfnt / per-container hash for WOFF(2)."""
    from vmon.oracle import c20_sfnt as S

    try:
        ver, tabs = S.sfnt_tables(data)
        out = {t: _sha(b if t != "head" or len(b) < 12 else b[:8] + b"\0\0\0\0" + b[12:]) for t, b in tabs.items()}
        out["<file>"] = _sha(data)
        out["<order>"] = _sha(repr([e[0] for e in sorted(S.sfnt_directory(data)[1], key=lambda e: e[2])]).encode())
        return out
    except Exception:
        return {"<file>": _sha(data)}


def _hash_font(font, **kw):
    b = io.BytesIO()
    font.save(b, **kw)
    return _hash_bytes(b.getvalue()), b.getvalue()


def _xml_of(data_or_font, tags):
    from fontTools.ttLib import TTFont
    from fontTools.misc.xmlWriter import XMLWriter

    font = data_or_font if not isinstance(data_or_font, bytes) else TTFont(io.BytesIO(data_or_font))
    out = {}
    for tag in tags:
        try:
            s = io.StringIO()
            w = XMLWriter(s)
            font._tableToXML(w, tag)
            w.close()
            out[tag] = s.getvalue()
        except Exception as e:
            out[tag] = "<!-- dump failed: %s -->" % type(e).__name__
    return out


def _load(rel, **kw):
    from vmon import corpus

    return corpus.load(rel, **kw)


def _binary(rel):
    """A binary-loaded font: TTX inputs are compiled first (inside this same interpreter)."""
    from vmon import corpus

    return corpus.open_bytes(corpus.font_bytes(rel))


# ------------------------------------------------------------------ pipelines
def p_recompile(job):
    from vmon import corpus
    import random

    f = corpus.load(job["input"], lazy=job.get("lazy"))
    tags = [t for t in f.keys() if t != "GlyphOrder"]
    random.Random(job.get("perm", 0)).shuffle(tags)
    for t in tags:
        f[t]
    return f


def p_ttx(job):
    from fontTools.ttLib import TTFont

    f = TTFont(recalcTimestamp=job.get("recalcTimestamp", True))
    f.importXML(os.path.join(os.environ["VMON_REPO"], "Tests", job["input"]))
    return f


FEA_GLYPHS = None


def _fea_font():
    global FEA_GLYPHS
    from fontTools.ttLib import TTFont

    if FEA_GLYPHS is None:
        sys.path.insert(0, os.path.join(os.environ["VMON_REPO"], "Tests", "feaLib"))
        try:
            import builder_test
            FEA_GLYPHS = builder_test.makeTTFont().getGlyphOrder()
        finally:
            sys.path.pop(0)
    font = TTFont()
    font.setGlyphOrder(list(FEA_GLYPHS))
    return font


def p_fea(job):
    from fontTools.feaLib.builder import addOpenTypeFeatures
    from fontTools.fontBuilder import addFvar

    font = _fea_font()
    if "gen" in job:
        # a generated feature file (many language systems, aalt over language-specific features, size, kern)
        import random
        from fontTools.feaLib.builder import addOpenTypeFeaturesFromString
        from vmon.gen import c16_fea

        text = c16_fea.generate(random.Random("c16-fea/%s" % job["gen"]))
        addOpenTypeFeaturesFromString(font, text)
        return ("tables", {t: font.getTableData(t) for t in sorted(font.keys()) if t != "GlyphOrder"}, font)
    path = os.path.join(os.environ["VMON_REPO"], "Tests", job["input"])
    if os.path.basename(path).startswith("variable_"):
        from fontTools.ttLib import newTable

        font["name"] = newTable("name")      # exactly what Tests/feaLib/builder_test.py does
        addFvar(font, [("wght", 200, 200, 1000, "Weight"), ("wdth", 100, 100, 200, "Width")], [])
        del font["name"]
    addOpenTypeFeatures(font, path)
    tabs = {}
    for t in sorted(font.keys()):
        if t != "GlyphOrder":
            tabs[t] = font.getTableData(t)
    return ("tables", tabs, font)


def p_subset(job):
    from fontTools import subset

    font = _binary(job["input"])
    cps = sorted(font.getBestCmap() or {})[job.get("phase", 0)::2]
    o = subset.Options()
    if job.get("opts") is not None:
        # the documented command-line forms, including the in-place list edits --opt+=a,b / --opt-=a,b
        o.parse_opts(list(job["opts"]))
    elif not job.get("defaults"):
        o.layout_features = ["*"]
        o.glyph_names = True
        o.notdef_outline = True
        o.name_IDs = ["*"]
        o.name_languages = ["*"]
    if job.get("retain_gids"):
        o.retain_gids = True
    s = subset.Subsetter(o)
    s.populate(unicodes=cps)
    s.subset(font)
    return font


def p_instance(job):
    from fontTools.varLib import instancer

    font = _binary(job["input"])
    ax = font["fvar"].axes
    mode = job.get("mode", "partial")
    if mode == "full":
        lim = {a.axisTag: (a.minValue + a.maxValue) / 2 if a.defaultValue in (a.minValue, a.maxValue) else a.defaultValue for a in ax}
        lim[ax[0].axisTag] = (ax[0].minValue * 3 + ax[0].maxValue) / 4
    else:
        lim = {a.axisTag: ((a.minValue + a.defaultValue) / 2, (a.maxValue + a.defaultValue) / 2) for a in ax[:1]}
        for a in ax[1:2]:
            lim[a.axisTag] = a.maxValue
    if job.get("downgradeCFF2"):
        return instancer.instantiateVariableFont(font, lim, downgradeCFF2=True)
    return instancer.instantiateVariableFont(font, lim)


BUILD_MASTERS = {
    "TestNonMarkingCFF2": "master_non_marking_cff2", "TestCFF2": "master_cff2", "TestCFF2Input": "master_cff2_input",
    "TestSparseCFF2VF": "master_sparse_cff2", "test_vpal": "master_vpal_test", "DropOnCurves": "master_ttx_drop_oncurves",
    "TestNoOverwriteSTAT": "master_no_overwrite_stat", "TestVVAR": "master_vvar_cff2", "TestBASE": "master_base_test",
    "KerningMerging": "master_kerning_merging", "InterpolateLayout": "master_ttx_interpolatable_otf",
    "InterpolateLayout2": "master_ttx_interpolatable_otf", "TestVariableCOLR": "master_ttx_variable_colr",
    "SparseCFF2": "master_sparse_cff2_empty", "InconsistentUseMyMetrics": "master_use_my_metrics",
}


def p_build(job):
    """varLib.build of a corpus designspace; masters are the TTX files of the directory the
    repo's varLib tests use, compiled to binary first (as those tests do)."""
    from fontTools import varLib
    from fontTools.ttLib import TTFont

    D = os.path.join(os.environ["VMON_REPO"], "Tests", "varLib", "data")
    ds = os.path.join(os.environ["VMON_REPO"], "Tests", job["input"])
    name = os.path.splitext(os.path.basename(ds))[0]
    pref = [BUILD_MASTERS.get(name), "master_ttx_interpolatable_ttf"] + sorted(d for d in os.listdir(D) if d.startswith("master"))
    cache = {}

    def finder(s):
        stem = os.path.splitext(os.path.basename(s))[0]
        for d in pref:
            if not d:
                continue
            p = os.path.join(D, d, stem + ".ttx")
            if os.path.exists(p):
                if job.get("binary_masters", True):
                    if p not in cache:
                        f = TTFont(recalcBBoxes=False, recalcTimestamp=False)
                        f.importXML(p)
                        b = io.BytesIO()
                        f.save(b, reorderTables=None)
                        b.seek(0)
                        cache[p] = TTFont(b)
                    return cache[p]
                return p
        return s

    doc = None
    if job.get("binary_masters", True):
        from fontTools.designspaceLib import DesignSpaceDocument

        doc = DesignSpaceDocument.fromfile(ds)
        for src in doc.sources:
            r = finder(src.path or src.filename or "")
            if not isinstance(r, str):
                src.font = r
        vf, _, _ = varLib.build(doc, lambda s: s)
    else:
        vf, _, _ = varLib.build(ds, finder)
    return vf


def p_merge(job):
    from fontTools.merge import Merger
    from vmon import corpus
    import tempfile

    d = tempfile.mkdtemp(prefix="c16merge-", dir=os.environ.get("VMON_SCRATCH") or None)
    paths = []
    try:
        for i, rel in enumerate(job["inputs"]):
            p = os.path.join(d, "in%d.ttf" % i)
            with open(p, "wb") as f:
                f.write(corpus.font_bytes(rel))
            paths.append(p)
        m = Merger()
        return m.merge(paths)       # inputs are read into memory by TTFont(lazy=None)
    finally:
        import shutil

        shutil.rmtree(d, ignore_errors=True)


def p_cu2qu_ufo(job):
    import ufoLib2
    from fontTools.cu2qu.ufo import fonts_to_quadratic
    from fontTools.pens.recordingPen import RecordingPointPen

    base = os.path.join(os.environ["VMON_REPO"], "Tests")
    fonts = [ufoLib2.Font.open(os.path.join(base, u)) for u in job["inputs"]]
    modified = fonts_to_quadratic(fonts, **job.get("kwargs", {}))
    tabs = {"<modified>": repr(sorted(modified)).encode()}
    for i, f in enumerate(fonts):
        for name in sorted(f.keys()):
            pen = RecordingPointPen()
            f[name].drawPoints(pen)
            tabs["%d/%s" % (i, name)] = repr(pen.value).encode()
    return ("tables", tabs, None)


def p_cu2qu_otf(job):
    """otf2ttf: every CFF outline through Cu2QuPen into a glyf table."""
    from fontTools.pens.cu2quPen import Cu2QuPen
    from fontTools.pens.ttGlyphPen import TTGlyphPen
    from fontTools.ttLib import newTable

    font = _binary(job["input"])
    gs = font.getGlyphSet()
    glyphs = {}
    for name in font.getGlyphOrder():
        tp = TTGlyphPen(gs)
        gs[name].draw(Cu2QuPen(tp, job.get("max_err", 1.0), reverse_direction=True))
        glyphs[name] = tp.glyph()
    glyf = newTable("glyf")
    glyf.glyphs = glyphs
    glyf.glyphOrder = font.getGlyphOrder()
    font["glyf"] = glyf
    font["loca"] = newTable("loca")
    for t in ("CFF ", "CFF2", "VORG"):
        if t in font:
            del font[t]
    font["maxp"].tableVersion = 0x00010000
    for a in ("maxZones", "maxTwilightPoints", "maxStorage", "maxFunctionDefs", "maxInstructionDefs", "maxStackElements",
              "maxSizeOfInstructions", "maxComponentElements", "maxPoints", "maxContours", "maxCompositePoints",
              "maxCompositeContours", "maxComponentDepth"):
        setattr(font["maxp"], a, 0)
    font["maxp"].maxZones = 1
    font.sfntVersion = "\0\1\0\0"
    font["post"].formatType = 2.0
    font["post"].extraNames = []
    font["post"].mapping = {}
    font["post"].glyphOrder = font.getGlyphOrder()
    return font


def table_from_xml(tag, xml, glyphs):
    from fontTools.misc.testTools import FakeFont, parseXML
    from fontTools.ttLib import newTable

    font = FakeFont(list(glyphs))
    table = newTable(tag)
    for element in parseXML(xml):
        if not isinstance(element, tuple):
            continue
        name, attrs, content = element
        table.fromXML(name, attrs, content, font)
    return table, font


def p_tablexml(job):
    """One table built from an XML dump (generated, or a *_XML constant of the repo's table tests)
    through fromXML on a fake glyph order, then compiled."""
    import random
    import re

    src = job["source"]
    if src.startswith("gen:"):
        from vmon.gen import c16_aat

        tag, xml, glyphs = c16_aat.GENERATORS[src[4:]](random.Random("c16-aat/%s/%s" % (src, job.get("seed", 0))))
    else:
        _, modname, const = src.split(":")
        d = os.path.join(os.environ["VMON_REPO"], "Tests", "ttLib", "tables")
        with open(os.path.join(d, modname + ".py"), encoding="utf-8") as f:
            text = f.read()
        m = re.search(r"^%s = \[\n(.*?)^\]" % re.escape(const), text, re.S | re.M)
        import ast

        lines = ast.literal_eval("[" + m.group(1) + "]")
        xml = "\n".join(lines)
        from fontTools.ttLib import identifierToTag

        tag = identifierToTag(modname[: -len("_test")])
        names = []
        for v in re.findall(r'="([^"]*)"', xml):
            if re.fullmatch(r"[A-Za-z_.][\w.\-]*", v) and v not in names:
                names.append(v)
        glyphs = [".notdef"] + [n for n in names if n != ".notdef"]
    table, font = table_from_xml(tag, xml, glyphs)
    data = table.compile(font)
    holder = {"xml": None}

    def dump():
        from fontTools.misc.testTools import getXML
        from fontTools.ttLib import newTable

        t2 = newTable(tag)
        t2.decompile(data, font)
        return "\n".join(getXML(t2.toXML, font))

    return ("tables", {tag: data}, dump)


def fea_font_bytes(rel):
    """A saved FontBuilder font with the feaLib tests' glyph set and the given corpus feature file."""
    from fontTools.fontBuilder import FontBuilder
    from fontTools.ttLib.tables._g_l_y_f import Glyph
    from fontTools.feaLib.builder import addOpenTypeFeatures

    _fea_font()
    order = list(FEA_GLYPHS)
    fb = FontBuilder(1000, isTTF=True)
    fb.setupGlyphOrder(order)
    fb.setupCharacterMap({ord(g): g for g in order if len(g) == 1})
    fb.setupGlyf({g: Glyph() for g in order})
    fb.setupHorizontalMetrics({g: (500, 0) for g in order})
    fb.setupHorizontalHeader(ascent=800, descent=-200)
    fb.setupNameTable({"familyName": "Host", "styleName": "Regular"})
    fb.setupOS2()
    fb.setupPost()
    addOpenTypeFeatures(fb.font, os.path.join(os.environ["VMON_REPO"], "Tests", rel))
    b = io.BytesIO()
    fb.font.save(b)
    return b.getvalue()


PIPES = {"tablexml": p_tablexml, "recompile": p_recompile, "ttx": p_ttx, "fea": p_fea, "subset": p_subset, "instance": p_instance,
         "build": p_build, "merge": p_merge, "cu2qu-ufo": p_cu2qu_ufo, "cu2qu-otf": p_cu2qu_otf}


def run_job(job, want_xml=()):
    res = PIPES[job["pipeline"]](job)
    xml = {}
    if isinstance(res, tuple) and res[0] == "tables":
        tabs = {t: _sha(b) for t, b in res[1].items()}
        if want_xml:
            if callable(res[2]):
                try:
                    text = res[2]()
                except Exception as e:
                    text = "<!-- dump failed: %s -->" % type(e).__name__
                xml = {t: text for t in want_xml if t in res[1]}
            elif res[2] is not None:
                xml = _xml_of(res[2], [t for t in want_xml if t in res[1]])
            else:
                xml = {t: res[1][t].decode("utf-8", "replace").replace("), (", "),\n(") for t in want_xml if t in res[1]}
        return tabs, xml
    if isinstance(res, tuple) and res[0] == "hashed":
        if want_xml:
            xml = _xml_of(res[2], [t for t in want_xml if not t.startswith("<")])
        return res[1], xml
    h, data = _hash_font(res)
    if want_xml:
        xml = _xml_of(data, [t for t in want_xml if not t.startswith("<")])
    return h, xml


def main(argv):
    with open(argv[0]) as f:
        spec = json.load(f)
    _state["shift"] = float(spec.get("clock_shift", 0))
    _install_wrappers()
    from vmon import env

    env.bootstrap()
    if sys.pycache_prefix and not sys.pycache_prefix.startswith((env.REPO, env.VERIF)):
        sys.dont_write_bytecode = False     # cache byte code in the parent's scratch directory only
    _state["lib"] = os.path.realpath(env.LIB) + os.sep
    import logging

    logging.disable(logging.CRITICAL)
    out = {"hashseed": os.environ.get("PYTHONHASHSEED"), "jobs": {}}
    real_stdout = sys.stdout
    sys.stdout = sys.stderr          # the library prints warnings from a few places
    jobs = list(spec["jobs"])
    if spec.get("order") == "reversed":
        jobs.reverse()
    for job in jobs:
        _state["job"] = job["id"]
        t0 = _REAL["time"]()
        try:
            tabs, xml = run_job(job, spec.get("xml", {}).get(job["id"], ()))
            rec = {"ok": True, "tables": tabs}
            if xml:
                rec["xml"] = xml
        except Exception as e:
            import traceback

            rec = {"ok": False, "error": type(e).__name__, "msg": str(e)[:200],
                   "tb": traceback.format_exc()[-1200:]}
        rec["wall"] = round(_REAL["time"]() - t0, 3)
        out["jobs"][job["id"]] = rec
    _state["job"] = None
    out["clock"] = _state["clock"]
    out["env"] = _state["env"]
    sys.stdout = real_stdout
    sys.stdout.write("\n" + MARK + json.dumps(out) + "\n")
    sys.stdout.flush()
    return 0


if __name__ == "__main__":
    rc = main(sys.argv[1:])
    os._exit(rc)
