"""Corpus enumeration and derived fonts (DESIGN §3.1).

The inventory (corpus_inventory.json, produced by tools/mkinventory.py on the
baseline tree and committed) lists every binary font and every TTX file that
compiles into a loadable font, with the facts checks need to pick cases without
opening the files.  A listed file that stops loading on a changed tree is a
violation for the check that uses it, never silently dropped.
"""
import functools
import io
import json
import os

from . import env

INVENTORY = os.path.join(env.VERIF, "corpus_inventory.json")
PUA = 0xF0000


@functools.lru_cache(maxsize=1)
def inventory():
    with open(INVENTORY) as f:
        return json.load(f)


def fonts(kind=None, pred=None):
    """Inventory records (dicts with 'path' relative to the repo's Tests/)."""
    out = []
    for rec in inventory()["fonts"]:
        if kind and rec["kind"] not in (kind if isinstance(kind, (list, tuple, set)) else (kind,)):
            continue
        if pred and not pred(rec):
            continue
        out.append(rec)
    return out


def abspath(rel):
    return os.path.join(env.TESTS, rel)


def load(rel, fontNumber=None, **kw):
    """Open a corpus font as a TTFont.  TTX sources are imported (not saved)."""
    from fontTools.ttLib import TTFont

    path = abspath(rel)
    if rel.endswith(".ttx"):
        kw.pop("lazy", None)
        f = TTFont(recalcTimestamp=False, **kw)
        f.importXML(path)
        return f
    if fontNumber is not None:
        kw["fontNumber"] = fontNumber
    kw.setdefault("recalcTimestamp", False)
    return TTFont(path, **kw)


_bytes_cache = {}


def font_bytes(rel, fontNumber=None):
    """sfnt bytes of a corpus font (TTX compiled once per process; TTC member
    extracted by re-saving)."""
    key = (rel, fontNumber)
    if key in _bytes_cache:
        return _bytes_cache[key]
    if rel.endswith(".ttx") or fontNumber is not None:
        f = load(rel, fontNumber)
        b = io.BytesIO()
        f.save(b)
        data = b.getvalue()
    else:
        with open(abspath(rel), "rb") as fh:
            data = fh.read()
    if len(_bytes_cache) > 64:
        _bytes_cache.clear()
    _bytes_cache[key] = data
    return data


def open_bytes(data, **kw):
    from fontTools.ttLib import TTFont

    kw.setdefault("recalcTimestamp", False)
    return TTFont(io.BytesIO(data), **kw)


def save_bytes(font, **kw):
    b = io.BytesIO()
    font.save(b, **kw)
    return b.getvalue()


def add_pua(font):
    """Add a format-12 cmap U+F0000+gid -> glyph for every glyph, keeping existing
    Unicode mappings (DESIGN §3.1 'PUA augmentation')."""
    from fontTools.ttLib.tables._c_m_a_p import CmapSubtable
    from fontTools.ttLib import newTable

    order = font.getGlyphOrder()
    if "cmap" not in font:
        font["cmap"] = newTable("cmap")
        font["cmap"].tableVersion = 0
        font["cmap"].tables = []
    cm = font["cmap"]
    best = {}
    try:
        best = dict(font.getBestCmap() or {})
    except Exception:
        best = {}
    st = CmapSubtable.newSubtable(12)
    st.platformID, st.platEncID, st.language = 3, 10, 0
    st.cmap = dict(best)
    for i, g in enumerate(order):
        st.cmap[PUA + i] = g
    cm.tables = [t for t in cm.tables if not (t.platformID == 3 and t.platEncID == 10)
                 and not (t.platformID == 0 and t.platEncID in (4, 6))] + [st]
    return {g: PUA + i for i, g in enumerate(order)}


def fix_glyph_names(font):
    """Make glyph names independent of `post` format 3 renaming: materialise the
    current order so later saves keep the same names in memory."""
    order = list(font.getGlyphOrder())
    font.setGlyphOrder(order)
    return order


def variable_locations(font, rnd, n_random=3, include_extremes=True, outside=False):
    """User-space locations for a variable font."""
    if "fvar" not in font:
        return [None]
    axes = font["fvar"].axes
    locs = [None, {a.axisTag: a.defaultValue for a in axes}]
    if include_extremes:
        locs.append({a.axisTag: a.minValue for a in axes})
        locs.append({a.axisTag: a.maxValue for a in axes})
        for a in axes[:3]:
            for v in (a.minValue, a.maxValue):
                d = {b.axisTag: b.defaultValue for b in axes}
                d[a.axisTag] = v
                locs.append(d)
    for _ in range(n_random):
        locs.append({a.axisTag: round(rnd.uniform(a.minValue, a.maxValue), 3) for a in axes})
    if outside:
        locs.append({a.axisTag: a.maxValue + (a.maxValue - a.minValue) * 0.5 + 10 for a in axes})
        locs.append({a.axisTag: a.minValue - (a.maxValue - a.minValue) * 0.5 - 10 for a in axes})
    seen, out = set(), []
    for l in locs:
        k = None if l is None else tuple(sorted(l.items()))
        if k not in seen:
            seen.add(k)
            out.append(l)
    return out
