"""C05 — glyph outlines and advances reported through the glyph-set / pen interface
are the font's true ones.

For every glyph of every corpus font with outlines (and of generated fonts for the
constructs the corpus lacks) the outline drawn by ``glyphSet[name].draw(pen)``
(components decomposed with DecomposingRecordingPen) and ``.width`` / ``.height`` are
compared with HarfBuzz at the default location and at many variation locations, and
with FreeType at the default location.  ``TTFont.normalizeLocation`` is compared with an
exact Fraction model of fvar/avar normalisation written from the spec (cross-checked
against HarfBuzz's own normalised coordinates).  Monitors on the real functions record
which operators / component flags / variation paths were actually executed.
"""
import random
from collections import Counter
from fractions import Fraction

from vmon import corpus, hooks, probes
from vmon.oracle import geom, hbft
from vmon.oracle import c05_geom as fgeom
from vmon.oracle import c05_tables as T

PROPERTY = "C05"
LEVEL = "exploration"
RULE = ("a case is one font (corpus file or seeded generated font); every glyph is drawn at every "
        "location of the case's location set {default, explicit default, axis extremes, all-min/max, "
        "random user locations, 2.14-exact user locations, avar knots and between-knot points, "
        "out-of-range}; a (glyph, location) pair is non-trivial when the glyph has an outline or an "
        "advance to compare and both oracles agree; it is distinct by (outline technology, glyph "
        "structure traits = component flags / transform / nesting or the set of T2 path operators "
        "executed, metrics source, location class)")
ASSUMPTIONS = [
    "HarfBuzz 12.1 (draw_glyph, advances, variation normalisation) is the reference; FreeType 2.13.2 (NO_SCALE|NO_HINTING) is a second opinion at the default location: where the two disagree the glyph is not judged",
    "outline tolerance 0.02 units against HarfBuzz (float32 arithmetic) after canonicalisation (vmon.oracle.geom two-stage comparison; stage 1 is retried with segments shorter than tol/2 removed on both sides - float dust that one engine keeps and the other drops; stage 2 is geom.geometric_eq vectorised with numpy in vmon/oracle/c05_geom.py)",
    "advances: HarfBuzz returns integers, |width - hb| <= 0.5 + 1e-6",
    "fontTools does not quantise normalised coordinates to F2Dot14 while HarfBuzz does: outlines are compared at the location HarfBuzz actually uses (fed back as normalized=True); the user-space path is compared directly where the normalised coordinates are 2.14-exact and otherwise with the tolerance widened by the first-order sensitivity of HarfBuzz's own outline to a one-unit (1/16384) step per axis times the quantisation offset (x1.25 for mixed second-order terms)",
    "normalizeLocation is judged against an exact Fraction model of the fvar default normalisation and avar v1 segment maps (|diff| <= 1e-9); the model is cross-checked against HarfBuzz within max(0.5*slope+0.5, 0.125*slope+0.625) units of 1/16384 (integer avar arithmetic after 2.14 rounding, or 16.16 intermediates rounded twice, depending on HarfBuzz version); avar v2 fonts are compared with HarfBuzz only, at 2.14-exact inputs, within one unit",
    "FreeType tolerance: 0.02 for untransformed TrueType, 1.0 for CFF (FreeType truncates fractional coordinates), 1.0 per transformed nesting level (times the transform's row sum) for composites",
    "VARC glyphs and cubic curves in glyf (glyf format 1) are outside the statement and not judged (counted); CFF2 charstrings that start with a width operand are invalid input (fontTools rejects them with its documented assertion)",
    "generated fonts are assembled with fontBuilder; only their bytes are given to the oracles",
]
CASE_TIMEOUT = 300
REQUIRED_MONITORS = ["TTFont.getGlyphSet", "TTFont.normalizeLocation", "_TTGlyphGlyf._getGlyphInstance",
                     "Glyph.draw", "Glyph.getCoordinates", "iup_delta", "avar.renormalizeLocation", "T2.op"]
MANIFEST = {
    "text": "Exploration with reference-model monitors: every glyph of every corpus font with outlines, plus seeded generated fonts (2x2/scaled composites, SCALED/UNSCALED_COMPONENT_OFFSET, anchor points, nesting, USE_MY_METRICS, partial gvar point sets with coincident IUP references, HVAR with and without index map, avar maps, every T2 path operator form incl. the flex family, subrs at the 1240/33900 bias boundaries, multi-region CFF2 blends) is drawn through glyphSet[name].draw at the default location, axis extremes, random, avar-knot and out-of-range locations and compared with HarfBuzz (and FreeType at the default location) after canonicalisation; advances against HarfBuzz; normalizeLocation against an exact Fraction model of fvar/avar. Monitors on getGlyphSet, normalizeLocation, _getGlyphInstance, Glyph.draw/getCoordinates, iup_delta, avar.renormalizeLocation and every T2OutlineExtractor operator handler record what was executed. Tests cannot settle this because they compare stored pen recordings of a handful of glyphs at three or four locations.",
    "note": "Trusted base: HarfBuzz 12.1, FreeType 2.13.2, vmon/oracle/geom.py, vmon/oracle/c05_tables.py (spec-written fvar/avar readers and Fraction normalisation). Tolerances: 0.02 units outlines, 0.5 advances; quantisation of normalised coordinates handled by comparing at HarfBuzz's own 2.14 location. VARC and cubic-glyf glyphs are not judged.",
    "technique": "differential runtime monitoring against independent OpenType engines; spec-written Fraction reference model for normalisation; seeded generators for rare constructs; operator/flag coverage monitors",
    "design_ref": "DESIGN.md §4 C05",
}

TOL = 0.02
_cur = {"ops": set(), "flags": set(), "depth": 0, "norm": None, "obs": Counter()}


# ---------------------------------------------------------------- monitors
def setup():
    from fontTools.ttLib import ttFont as TF, ttGlyphSet as GS
    from fontTools.ttLib.tables import _g_l_y_f as G, _a_v_a_r as AV
    from fontTools.misc import psCharStrings as PS
    from fontTools.varLib import iup

    def post_getGlyphSet(st, a, kw, res, exc):
        if exc is None:
            _cur["obs"]["getGlyphSet:" + type(res).__name__] += 1
            _cur["glyphset_location"] = getattr(res, "location", None)

    def post_normalizeLocation(st, a, kw, res, exc):
        if exc is None:
            _cur["norm"] = dict(res)

    def post_instance(st, a, kw, res, exc):
        if exc is None:
            g = a[0]
            _cur["obs"]["instance:" + ("phantom-metrics" if g.glyphSet.hvarTable is None else "hvar-metrics")] += 1

    flagnames = [(G.ROUND_XY_TO_GRID, "ROUND_XY_TO_GRID"), (G.USE_MY_METRICS, "USE_MY_METRICS"),
                 (G.SCALED_COMPONENT_OFFSET, "SCALED_COMPONENT_OFFSET"), (G.UNSCALED_COMPONENT_OFFSET, "UNSCALED_COMPONENT_OFFSET"),
                 (G.OVERLAP_COMPOUND, "OVERLAP_COMPOUND")]

    def pre_draw(a, kw):
        g = a[0]
        if g.isComposite():
            for c in g.components:
                names = [n for b, n in flagnames if c.flags & b]
                if hasattr(c, "firstPt"):
                    names.append("ANCHOR_POINTS")
                if hasattr(c, "transform"):
                    t = c.transform
                    names.append("2x2" if (t[0][1] or t[1][0]) else "XY_SCALE" if t[0][0] != t[1][1] else "SCALE")
                for n in names or ["PLAIN_OFFSET"]:
                    _cur["obs"]["component:" + n] += 1
        else:
            _cur["obs"]["draw:simple"] += 1

    def pre_iup(a, kw):
        deltas, coords, ends = a[0], a[1], a[2]
        # classify what the interpolation will meet
        refs = [i for i, d in enumerate(deltas) if d is not None]
        _cur["obs"]["iup:calls"] += 1
        xs = Counter(coords[i][0] for i in refs)
        ys = Counter(coords[i][1] for i in refs)
        if any(v > 1 for v in xs.values()) or any(v > 1 for v in ys.values()):
            _cur["obs"]["iup:coincident-reference-coordinate"] += 1
        start = 0
        for e in list(ends):
            n = sum(1 for i in refs if start <= i <= e)
            if n == 0:
                _cur["obs"]["iup:contour-without-reference"] += 1
            elif n == 1:
                _cur["obs"]["iup:contour-single-reference"] += 1
            start = e + 1

    def post_renorm(st, a, kw, res, exc):
        if exc is None:
            _cur["obs"]["avar:v%d" % getattr(a[0], "majorVersion", 1)] += 1

    hooks.attach(TF.TTFont, "getGlyphSet", post=post_getGlyphSet, name="TTFont.getGlyphSet")
    hooks.attach(TF.TTFont, "normalizeLocation", post=post_normalizeLocation, name="TTFont.normalizeLocation")
    hooks.attach(GS._TTGlyphGlyf, "_getGlyphInstance", post=post_instance, name="_TTGlyphGlyf._getGlyphInstance")
    hooks.attach(G.Glyph, "draw", pre=pre_draw, name="Glyph.draw")
    hooks.attach(G.Glyph, "getCoordinates", name="Glyph.getCoordinates")
    hooks.attach(iup, "iup_delta", pre=pre_iup, name="iup_delta")
    hooks.attach(AV.table__a_v_a_r, "renormalizeLocation", post=post_renorm, name="avar.renormalizeLocation")

    # every operator handler of the outline extractor
    hooks.counters.setdefault("T2.op", 0)
    X = PS.T2OutlineExtractor

    def mk(opname):
        def pre(a, kw):
            ex = a[0]
            n = len(ex.operandStack)
            hooks.counters["T2.op"] += 1
            _cur["ops"].add(opname)
            key = "T2:%s" % opname
            if opname in ("hhcurveto", "vvcurveto"):
                key += "/lead" if n % 2 else "/nolead"
            elif opname in ("hvcurveto", "vhcurveto"):
                key += "/tail" if n % 4 == 1 else "/notail"
            elif opname in ("hlineto", "vlineto"):
                key += "/odd" if n % 2 else "/even"
            elif opname in ("callsubr", "callgsubr"):
                d = len(ex.callingStack)
                if d > _cur["depth"]:
                    _cur["depth"] = d
                nsub = len(ex.localSubrs if opname == "callsubr" else ex.globalSubrs)
                key += "/bias%d" % (107 if nsub < 1240 else 1131 if nsub < 33900 else 32768)
            elif opname == "blend":
                key += "/blended" if ex.blender is not None else "/default"
            elif opname == "flex1" and n >= 11:
                s = ex.operandStack
                dx = s[-11] + s[-9] + s[-7] + s[-5] + s[-3]
                dy = s[-10] + s[-8] + s[-6] + s[-4] + s[-2]
                key += "/dx>dy" if abs(dx) > abs(dy) else "/dx<=dy"
            _cur["obs"][key] += 1
        return pre

    for attr in sorted(dir(X)):
        if attr.startswith("op_") and callable(getattr(X, attr)):
            hooks.attach(X, attr, pre=mk(attr[3:]), name="T2.op_" + attr[3:])

    gc = G.Glyph.getCoordinates
    probes.add_site("getCoordinates.anchor-transform", gc, r"coordinates\.transform\(compo\.transform\)")
    probes.add_site("getCoordinates.anchor-move", gc, r"move = x1 - x2, y1 - y2")
    probes.add_site("getCoordinates.offset-plain", gc, r'if not hasattr\(compo, "transform"\)')
    probes.add_site("getCoordinates.offset-with-transform", gc, r"apple_way = compo\.flags")
    probes.add_site("getCoordinates.offset-mode-default", gc, r"SCALE_COMPONENT_OFFSET_DEFAULT  #")
    probes.add_site("getCoordinates.offset-mode-explicit", gc, r"scale_component_offset = apple_way")
    probes.add_site("getCoordinates.round-before-transform", gc, r"coordinates\.toInt\(round=round\)")
    probes.add_site("_getGlyphInstance.iup", GS._TTGlyphGlyf._getGlyphInstance, r"delta = iup_delta\(")
    probes.add_site("_getGlyphInstance.phantom-metrics", GS._TTGlyphGlyf._getGlyphInstance, r"self\.width = width")
    probes.add_site("_TTGlyph.hvar-direct-or-map", GS._TTGlyph.__init__, r"self\.width \+= glyphSet\.hvarInstancer")
    probes.add_site("T2.endchar-seac", PS.T2OutlineExtractor.op_endchar, r"adx, ady, bchar, achar = args")
    probes.add_site("T2.blend-default", PS.SimpleT2Decompiler.op_blend, r"del self\.operandStack\[")
    probes.add_site("T2.blend-blended", PS.SimpleT2Decompiler.op_blend, r"delta = self\.blender\(")


# ---------------------------------------------------------------- cases
def _pred(rec):
    return bool(rec.get("outlines")) and rec.get("complete")


def cases(tier, seed):
    T_ = tier == "thorough"
    out = []
    recs = corpus.fonts(pred=_pred)
    aots = [r for r in recs if "/aots/" in r["path"]]
    rest = [r for r in recs if "/aots/" not in r["path"]]
    rnd = random.Random("c05-cases/%s" % seed)
    if not T_:
        aots = sorted(rnd.sample(aots, min(len(aots), 36)), key=lambda r: r["path"])
    for r in rest + aots:
        cid = "corpus:%s%s" % (r["path"], "#%d" % r["member"] if r.get("member") is not None else "")
        out.append({"id": cid, "kind": "corpus", "path": r["path"], "member": r.get("member"), "seed": seed,
                    "nrandom": 12 if T_ else 3, "timeout": 600 if r["numGlyphs"] > 1000 else 300})
    mult = 12 if T_ else 1

    def gen(kind, n, **params):
        for i in range(n):
            pid = ",".join("%s=%s" % kv for kv in sorted(params.items()))
            out.append({"id": "gen:%s:%s:%d" % (kind, pid, i), "kind": "gen", "gen": kind, "i": i, "params": params,
                        "seed": seed, "nrandom": 8 if T_ else 3})

    gen("ttcomp", 5 * mult)
    gen("ttcomp", 2 * mult, lsb_shift=True)
    for hv in ("none", "direct", "map"):
        gen("ttvar", 4 * mult, hvar=hv)
    gen("ttvar", 2 * mult, hvar="none", vertical=True)
    gen("ttvar", 1 * mult, hvar="map", vertical=True)
    gen("ttvar", 1 * mult, hvar="map", vertical=True, vvar=True)
    gen("ttvar", 2 * mult, hvar="none", left_phantom=True)
    gen("cffops", 5 * mult)
    for nl, ng in ((1238, 1239), (1239, 1240), (1240, 1238)):   # +1 argument subr => local counts 1239/1240/1241
        gen("cffops", 1 * mult, nlocal=nl, nglobal=ng)
    if T_:
        for nl, ng in ((33898, 33899), (33899, 33900), (3, 33901)):
            gen("cffops", 1, nlocal=nl, nglobal=ng)
    gen("cff2", 5 * mult)
    gen("cff2", 2 * mult, hvar=False)
    return out


# ---------------------------------------------------------------- helpers
def _glyph_info(font):
    """Input inspection: per glyph (tech, kind, traits, ft_tol, not_judged_reason)."""
    order = font.getGlyphOrder()
    info = {}
    tech = "CFF2" if "CFF2" in font else "CFF " if "CFF " in font else "glyf"
    varc = set()
    if "VARC" in font:
        try:
            varc = set(font["VARC"].table.Coverage.glyphs)
        except Exception:
            varc = set()
    if tech != "glyf":
        for n in order:
            info[n] = {"tech": tech, "kind": "charstring", "traits": set(), "ft_tol": 1.0 + TOL,
                       "skip": "VARC glyph" if n in varc else None}
        return info
    from fontTools.ttLib.tables import _g_l_y_f as G
    glyf = font["glyf"]
    hmtx = font["hmtx"].metrics
    memo = {}

    def walk(name, depth=0):
        if name in memo:
            return memo[name]
        if depth > 16:
            return {"traits": {"deep"}, "ft_tol": 50.0, "cubic": False, "lsb": False}
        g = glyf[name]
        traits, cubic, ft_tol = set(), False, TOL
        if g.isComposite():
            traits.add("composite")
            for c in g.components:
                sub = walk(c.glyphName, depth + 1) if c.glyphName in glyf.glyphs else {"traits": {"missing-component"}, "ft_tol": TOL, "cubic": False, "lsb": False}
                traits |= {t for t in sub["traits"] if t not in ("composite",)}
                if "composite" in sub["traits"]:
                    traits.add("nested")
                cubic = cubic or sub["cubic"]
                tol_c = sub["ft_tol"]
                if hasattr(c, "transform"):
                    t = c.transform
                    traits.add("2x2" if (t[0][1] or t[1][0]) else "xyscale" if t[0][0] != t[1][1] else "scale")
                    rows = max(abs(t[0][0]) + abs(t[1][0]), abs(t[0][1]) + abs(t[1][1]))
                    tol_c = tol_c * max(1.0, rows) + 1.0
                    if c.flags & G.SCALED_COMPONENT_OFFSET:
                        traits.add("scaled-offset")
                        tol_c += 1.0
                    if c.flags & G.UNSCALED_COMPONENT_OFFSET:
                        traits.add("unscaled-offset")
                if hasattr(c, "firstPt"):
                    traits.add("anchor")
                if c.flags & G.ROUND_XY_TO_GRID:
                    traits.add("round-xy")
                if c.flags & G.USE_MY_METRICS:
                    traits.add("use-my-metrics")
                    if sub.get("lsb"):
                        traits.add("lsb!=xMin")
                ft_tol = max(ft_tol, tol_c)
        elif g.numberOfContours > 0:
            if any(f & G.flagCubic for f in g.flags):
                cubic = True
        lsb = False
        if g.numberOfContours != 0 and hasattr(g, "xMin") and name in hmtx and hmtx[name][1] != g.xMin:
            lsb = True
        r = {"traits": traits, "ft_tol": ft_tol, "cubic": cubic, "lsb": lsb}
        memo[name] = r
        return r

    gvar = font["gvar"].variations if "gvar" in font else {}

    def left_moves(name, depth=0):
        for tv in gvar.get(name, []):
            c = tv.coordinates[-4] if len(tv.coordinates) >= 4 else None
            if c is not None and c[0]:
                return True
        g = glyf[name]
        if g.isComposite() and depth < 16:
            for c in g.components:
                if c.flags & G.USE_MY_METRICS and c.glyphName in glyf.glyphs and left_moves(c.glyphName, depth + 1):
                    return True
        return False

    for n in order:
        g = glyf[n]
        w = walk(n)
        tr = set(w["traits"])
        if w["lsb"]:
            tr.add("lsb!=xMin")
        if gvar and left_moves(n):
            tr.add("left-phantom-varies")
        skip = None
        if n in varc:
            skip = "VARC glyph"
        elif w["cubic"]:
            skip = "cubic curves in glyf"
        info[n] = {"tech": "glyf", "kind": "composite" if g.isComposite() else "empty" if g.numberOfContours == 0 else "simple",
                   "traits": tr, "ft_tol": w["ft_tol"], "skip": skip}
    return info


def _metrics_source(font, info_tech):
    if "HVAR" in font:
        return "HVAR-map" if font["HVAR"].table.AdvWidthMap is not None else "HVAR-direct"
    if "fvar" in font:
        return "phantom" if info_tech == "glyf" and "gvar" in font else "hmtx"
    return "hmtx"


def _small(rec, tol):
    """drop contours whose extent is within tol in both directions (FreeType collapses them)"""
    cs = geom.canon(rec)
    keep = []
    for c in cs:
        if not c["segs"]:
            continue
        b = geom.bounds_of(geom.polyline(c, 4))
        if b[2] - b[0] <= 2 * tol and b[3] - b[1] <= 2 * tol:
            continue
        keep.append(c)
    return keep


def _ft_agrees(hb_rec, ft_rec, tol):
    if tol <= 0.05:
        ok, _stage, why = fgeom.outlines_match(hb_rec, ft_rec, tol)
        return ok, why
    A, B = _small(hb_rec, tol), _small(ft_rec, tol)
    ok, _stage, why = fgeom.match_canon(A, B, tol, per_seg=6)
    return ok, why


def _raw_points(rec):
    pts = []
    for op, args in rec:
        for p in args:
            if p is not None:
                pts.append(p)
    return [op for op, _ in rec], pts


def _unshift(rec, ref, limit):
    """translate rec horizontally so that its control-point xMin equals ref's, if the
    shift is within limit"""
    _o, a = _raw_points(rec)
    _o, b = _raw_points(ref)
    if not a or not b:
        return None
    dx = min(p[0] for p in b) - min(p[0] for p in a)
    if abs(dx) > limit:
        return None
    return geom.transform_rec(rec, lambda p: (p[0] + dx, p[1]))


def _sensitivity(base_rec, other_rec):
    """max coordinate movement between two HarfBuzz records of identical structure"""
    d = geom.max_point_diff(base_rec, other_rec)
    return d


class _Loc:
    __slots__ = ("cls", "user")

    def __init__(self, cls, user):
        self.cls, self.user = cls, user


def _locations(font, data, rnd, nrandom, normalizer):
    if "fvar" not in font:
        return [_Loc("default", None)]
    axes = font["fvar"].axes
    raw = corpus.variable_locations(font, rnd, n_random=nrandom, include_extremes=True, outside=True)
    out = []
    dflt = {a.axisTag: a.defaultValue for a in axes}
    for l in raw:
        if l is None:
            out.append(_Loc("default", None))
        elif l == dflt:
            out.append(_Loc("default-explicit", l))
        elif all(v in (a.minValue, a.maxValue, a.defaultValue) for a in axes for v in (l[a.axisTag],)):
            out.append(_Loc("extreme", l))
        elif any(l[a.axisTag] > a.maxValue or l[a.axisTag] < a.minValue for a in axes):
            out.append(_Loc("out-of-range", l))
        else:
            out.append(_Loc("random", l))
    # partial locations (missing axes mean default) and integer-valued ones
    if len(axes) > 1:
        a = axes[rnd.randrange(len(axes))]
        out.append(_Loc("partial", {a.axisTag: round(rnd.uniform(a.minValue, a.maxValue), 2)}))
    if normalizer is not None:
        n = len(normalizer.axes)
        # 2.14-exact locations: HarfBuzz and fontTools then use the very same point
        for _ in range(3):
            loc = {}
            for i, (tag, lo, d, hi) in enumerate(normalizer.axes):
                k = rnd.randrange(-16384 if lo < d else 0, (16384 if hi > d else 0) + 1)
                loc[tag] = float(normalizer.denormalize(i, Fraction(k, 16384)))
            out.append(_Loc("exact-2.14", loc))
        # avar knots and between them
        for i, (tag, lo, d, hi) in enumerate(normalizer.axes):
            ks = [f for f in sorted(set(normalizer.knots(i))) if (f < 0 and lo < d) or (f > 0 and hi > d)]
            inner = [f for f in ks if -1 < f < 1]
            if len(inner) > 4:
                inner = sorted(rnd.sample(inner, 4))
            for f in inner:
                loc = dict(dflt)
                loc[tag] = float(normalizer.denormalize(i, f))
                out.append(_Loc("avar-knot", loc))
            allk = sorted(set(ks) | {Fraction(0)})
            mids = [(a + b) / 2 for a, b in zip(allk, allk[1:])]
            if len(mids) > 4:
                mids = sorted(rnd.sample(mids, 4))
            for m in mids:
                loc = dict(dflt)
                loc[tag] = float(normalizer.denormalize(i, m))
                if rnd.random() < 0.5 and n > 1:
                    j = rnd.randrange(n)
                    if j != i:
                        tj, loj, dj, hij = normalizer.axes[j]
                        loc[tj] = float(loj + (hij - loj) * Fraction(rnd.randrange(0, 101), 100))
                out.append(_Loc("avar-between", loc))
    seen, uniq = set(), []
    for l in out:
        k = None if l.user is None else tuple(sorted(l.user.items()))
        if (k, l.cls == "default") in seen:
            continue
        seen.add((k, l.cls == "default"))
        uniq.append(l)
    return uniq


_INVALID_CFF2_WIDTH = "CFF2 CharStrings must not have an initial width value"


def _draw(ctx, gs, name, mech_base):
    """-> (record, glyph object) or (None, None) when the draw was rejected / raised."""
    from fontTools.pens.recordingPen import DecomposingRecordingPen

    pen = DecomposingRecordingPen(gs)
    g = None
    _cur["ops"] = set()
    try:
        g = gs[name]
        g.draw(pen)
    except AssertionError as e:
        if _INVALID_CFF2_WIDTH in str(e):
            ctx.skip("invalid CFF2 charstring (width operand)")
            return None, None
        _exc(ctx, e, mech_base, name)
        return None, None
    except RecursionError:
        raise
    except Exception as e:
        _exc(ctx, e, mech_base, name)
        return None, None
    return pen.value, g


def _exc(ctx, e, mech_base, name):
    import traceback
    from vmon.case import exc_mech

    m = exc_mech("draw", e)
    m.update({k: v for k, v in mech_base.items() if k in ("tech", "glyph", "traits")})
    ctx.violation(m, "glyphSet[%r].draw raised %s: %s" % (name, type(e).__name__, str(e)[:160]),
                  {"glyph": name, "font": ctx.sample.get("font") if ctx.sample else None,
                   "traceback": traceback.format_exception(type(e), e, e.__traceback__)[-6:]})


def _traits_str(traits):
    return "+".join(sorted(traits)) if traits else "-"


# ---------------------------------------------------------------- the judge
def _judge_font(ctx, data, font, label, rnd, nrandom):
    order = font.getGlyphOrder()
    info = _glyph_info(font)
    tech = info[order[0]]["tech"] if order else "glyf"
    variable = "fvar" in font
    msrc = _metrics_source(font, tech)
    has_v = "vmtx" in font
    normalizer = None
    avar_major = None
    if variable:
        try:
            normalizer = T.Normalizer(data)
            avar_major = normalizer.avar_major
        except (T.Bad, Exception) as e:  # noqa
            ctx.note("normalizer-unavailable")
            normalizer = None
    try:
        ft = hbft.FT(data)
    except Exception:
        ft = None
        ctx.note("freetype-cannot-open-font")
    locs = _locations(font, data, rnd, nrandom, normalizer)
    axes_tags = [a.axisTag for a in font["fvar"].axes] if variable else []
    stats = Counter()
    vetoed = set()   # glyphs on which the two oracles disagree at the default location
    adv_vetoed = set()

    for L in locs:
        user = L.user
        hbU = hbft.HB(data, variations=user) if user else hbft.HB(data)
        exact = True
        d = []
        khb = None
        if user:
            khb = [int(round(c * 16384)) for c in hbU.normalized_coords()]
            khb += [0] * (len(axes_tags) - len(khb))
            with ctx.lib("normalizeLocation"):
                ftn = font.normalizeLocation(user)
            ftk = [ftn.get(t, 0.0) * 16384 for t in axes_tags]
            # --- normalisation judged against the exact model -------------
            if normalizer is not None and avar_major in (None, 1):
                model, pre, slopes = normalizer.normalize(user)
                bad_model = False
                for i, t in enumerate(axes_tags):
                    f32 = abs(user.get(t, 0.0)) * 6e-8 * 16384 / float(max(Fraction(1, 1000), normalizer.axes[i][3] - normalizer.axes[i][1]))
                    sl = float(slopes[i])
                    # HarfBuzz: 2.14 rounding before an integer avar map (0.5*s + 0.5) or 16.16 intermediates
                    # rounded twice (0.125*s + 0.125 + 0.5), depending on version
                    bound = max(0.5 * sl + 0.5, 0.125 * sl + 0.625) + 1e-3 + f32 * (1 + sl)
                    if abs(float(model[i] * 16384) - khb[i]) > bound:
                        bad_model = True
                if bad_model:
                    ctx.note("location-not-judged:model-vs-harfbuzz-normalisation-disagree")
                    ctx.skip("oracles disagree on normalisation")
                    continue
                ctx.judged()
                for i, t in enumerate(axes_tags):
                    if abs(ftn.get(t, 0.0) - float(model[i])) > 1e-9:
                        ctx.violation({"kind": "normalize", "avar": avar_major is not None, "what": "normalizeLocation differs from the exact fvar/avar model"},
                                      "normalizeLocation(%r)[%s] = %r, exact model %r (HarfBuzz %r)" % (user, t, ftn.get(t), float(model[i]), khb[i] / 16384),
                                      {"font": label, "location": user, "axis": t, "fontTools": ftn.get(t), "model": str(model[i]), "harfbuzz": khb[i] / 16384})
                        break
                ctx.nontrivial("normalize/%s/%s" % ("avar" if avar_major else "fvar", L.cls))
            elif avar_major == 2 and normalizer is not None:
                # integer pipeline of the engine (2.14 rounding, segment maps, rounded store deltas) against
                # fontTools' mixed float/integer one: only comparable where the inputs of the rounding steps
                # coincide, i.e. where the fvar-normalised coordinates are 2.14-exact; then the results may
                # differ by one unit (round-half conventions)
                _m, pre, _s = normalizer.normalize(user)
                if any((p * 16384).denominator != 1 for p in pre):
                    ctx.skip("avar2 normalisation not judged at a non-2.14 location")
                else:
                  ctx.judged()
                  for i, t in enumerate(axes_tags):
                    if abs(ftk[i] - khb[i]) > 1.0 + 1e-6:
                        ctx.violation({"kind": "normalize", "avar": 2, "what": "normalizeLocation differs from HarfBuzz"},
                                      "normalizeLocation(%r)[%s] = %r, HarfBuzz %r" % (user, t, ftn.get(t), khb[i] / 16384),
                                      {"font": label, "location": user, "axis": t})
                        break
                  ctx.nontrivial("normalize/avar2/%s" % L.cls)
            d = [ftk[i] - khb[i] for i in range(len(axes_tags))]
            exact = all(abs(x) < 1e-6 for x in d)
        # --- glyph sets ----------------------------------------------------
        _cur["norm"] = None
        with ctx.lib("getGlyphSet"):
            gsU = font.getGlyphSet(location=user) if user else font.getGlyphSet()
        if user:
            # the location getGlyphSet really used is normalizeLocation's result
            seen = _cur["norm"]
            used = getattr(gsU, "location", None)
            ctx.judged()
            if seen is None or any(abs(used.get(t, 0.0) - ftn.get(t, 0.0)) > 1e-12 for t in axes_tags):
                ctx.violation({"kind": "plumbing", "what": "getGlyphSet(location=user) does not use normalizeLocation(user)"},
                              "glyph set location %r, normalizeLocation gives %r" % (used, ftn), {"font": label, "location": user})
        gsN = None
        sens = None
        if user and not exact:
            with ctx.lib("getGlyphSet"):
                gsN = font.getGlyphSet(location={t: khb[i] / 16384 for i, t in enumerate(axes_tags)}, normalized=True)
            if len([x for x in d if abs(x) >= 1e-6]) <= 4:
                sens = []
                for i, x in enumerate(d):
                    if abs(x) < 1e-6:
                        continue
                    for sgn in (1, -1):
                        kk = list(khb)
                        kk[i] = max(-16384, min(16384, kk[i] + sgn))
                        sens.append((i, hbft.HB(data, normalized=[c / 16384 for c in kk])))
        loc_kind = "default" if not user else "variation"
        for gid, name in enumerate(order):
            gi = info[name]
            if gi["skip"]:
                ctx.skip("not judged: " + gi["skip"])
                stats["not-judged:" + gi["skip"]] += 1
                continue
            if name in vetoed:
                ctx.skip("glyph not judged: HarfBuzz and FreeType disagree")
                continue
            mech_base = {"tech": tech, "glyph": gi["kind"], "traits": _traits_str(gi["traits"]), "loc": loc_kind}
            hb_rec = hbU.outline(gid)
            hb_adv = hbU.h_advance(gid)
            adv_veto = False
            # ---- second opinion at the default location ------------------
            if not user and ft is not None:
                try:
                    ft_rec, ft_adv = ft.outline(gid)
                except Exception:
                    ft_rec = None
                if ft_rec is not None and abs(ft_adv - hb_adv) > 0.5 and hb_adv != -1:
                    adv_veto = True
                    adv_vetoed.add(name)
                    stats["oracles-disagree-on-advance"] += 1
                if ft_rec is not None:
                    ok, why = _ft_agrees(hb_rec, ft_rec, gi["ft_tol"])
                    if not ok:
                        ctx.skip("glyph not judged: HarfBuzz and FreeType disagree")
                        stats["oracles-disagree:" + _traits_str(gi["traits"])] += 1
                        vetoed.add(name)
                        continue
            # ---- fontTools: exact location --------------------------------
            gs = gsU if exact else gsN
            rec, g = _draw(ctx, gs, name, mech_base)
            if rec is None:
                continue
            ops = sorted(_cur["ops"] & _PATH_OPS)
            ok, stage, why = fgeom.outlines_match(rec, hb_rec, TOL)
            if not ok and user and gi["kind"] == "simple" and "left-phantom-varies" in gi["traits"]:
                # fontTools shifts an instanced simple glyph by its *rounded* left side bearing
                # (otRound in _setCoordinates): a horizontal offset of at most 0.5 is rounding
                rec2 = _unshift(rec, hb_rec, 0.5 + TOL)
                if rec2 is not None:
                    ok, stage, why = fgeom.outlines_match(rec2, hb_rec, TOL)
                    if ok:
                        stats["lsb-rounding-shift-compensated"] += 1
            ctx.judged()
            stats["outline-stage%d" % stage] += 1
            if not ok:
                mech = dict(mech_base, kind="outline", path="user" if exact else "normalized")
                if gi["kind"] == "composite" and gi["traits"] & {"lsb!=xMin", "left-phantom-varies"}:
                    rec2 = _unshift(rec, hb_rec, float("inf"))
                    if rec2 is not None and fgeom.outlines_match(rec2, hb_rec, TOL)[0]:
                        # equal to HarfBuzz up to a pure horizontal translation: the shift that puts
                        # xMin on the left side bearing / left phantom point was not applied
                        mech = {"kind": "outline", "tech": tech, "glyph": "composite", "what": "horizontal-shift-only", "loc": loc_kind,
                                "lsb_or_left_phantom": bool(gi["traits"] & {"lsb!=xMin", "left-phantom-varies"})}
                ctx.violation(mech,
                              "%s glyph %r at %s: outline differs from HarfBuzz: %s" % (label, name, user or "default", why),
                              {"font": label, "glyph": name, "gid": gid, "location": user, "harfbuzz_normalized": khb,
                               "fontTools": _short(rec), "harfbuzz": _short(hb_rec), "traits": sorted(gi["traits"]), "ops": ops})
            nonempty = bool(geom.nondegenerate(geom.canon(hb_rec)))
            # ---- advances ----------------------------------------------------
            w = g.width
            if adv_veto or name in adv_vetoed:
                ctx.skip("advance not judged: HarfBuzz and FreeType disagree")
            else:
                ctx.judged()
            if (not adv_veto and name not in adv_vetoed) and (w is None or abs(w - hb_adv) > 0.5 + 1e-6):
                if not (hb_adv == -1 and w == 65535):   # HarfBuzz quirk for advance 0xFFFF
                    ctx.violation({"kind": "advance", "which": "width", "tech": tech, "metrics": msrc if user else "hmtx", "loc": loc_kind,
                                   "traits": _traits_str(gi["traits"] & {"use-my-metrics"})},
                                  "%s glyph %r at %s: width %r, HarfBuzz %r" % (label, name, user or "default", w, hb_adv),
                                  {"font": label, "glyph": name, "location": user, "width": w, "harfbuzz": hb_adv})
            if has_v:
                hb_v = -hbU.v_advance(gid)
                h = g.height
                ctx.judged()
                if h is None or abs(h - hb_v) > 0.5 + 1e-6:
                    vsrc = "vmtx" if not user else "VVAR" if "VVAR" in font else "phantom" if (tech == "glyf" and "gvar" in font) else "vmtx"
                    ctx.violation({"kind": "advance", "which": "height", "tech": tech, "metrics": vsrc, "loc": loc_kind, "hvar_present": "HVAR" in font},
                                  "%s glyph %r at %s: height %r, HarfBuzz %r" % (label, name, user or "default", h, hb_v),
                                  {"font": label, "glyph": name, "location": user, "height": h, "harfbuzz": hb_v})
            key_traits = _traits_str(gi["traits"]) if tech == "glyf" else ",".join(ops)
            if nonempty or hb_adv:
                ctx.nontrivial("%s/%s/%s/%s/%s" % (tech.strip(), gi["kind"], key_traits, msrc if user else "hmtx", L.cls))
            # ---- user-space path at a non-2.14 location ---------------------
            if user and not exact:
                recU, gU = _draw(ctx, gsU, name, mech_base)
                if recU is None:
                    continue
                if sens is None:
                    stats["user-path-not-judged:many-axes"] += 1
                    continue
                acc = {}
                okb = True
                for i, hbS in sens:
                    sdiff = geom.max_point_diff(hb_rec, hbS.outline(gid))
                    if sdiff is None:
                        okb = False
                        break
                    acc[i] = max(acc.get(i, 0.0), sdiff)
                if not okb:
                    stats["user-path-not-judged:structure-changes"] += 1
                    continue
                budget = 1.25 * sum((abs(d[i]) + 0.01) * sv for i, sv in acc.items()) + 0.005
                tolU = TOL + budget
                if tolU > 0.75:
                    stats["user-path-not-judged:loose"] += 1
                    continue
                okU, stU, whyU = fgeom.outlines_match(recU, hb_rec, tolU)
                if not okU and gi["kind"] == "simple" and "left-phantom-varies" in gi["traits"]:
                    rec2 = _unshift(recU, hb_rec, 0.5 + tolU)
                    if rec2 is not None:
                        okU, stU, whyU = fgeom.outlines_match(rec2, hb_rec, tolU)
                ctx.judged()
                stats["user-path-judged"] += 1
                if not okU and ok:
                    ctx.violation(dict(mech_base, kind="outline", path="user-unquantised"),
                                  "%s glyph %r at %s (user-space path, tol %.3f): outline differs from HarfBuzz: %s" % (label, name, user, tolU, whyU),
                                  {"font": label, "glyph": name, "location": user, "offset_units": d, "fontTools": _short(recU), "harfbuzz": _short(hb_rec)})
                # advance on the user path: HarfBuzz integers at the neighbouring 2.14 points bound the true value
                advs = [hb_adv] + [hbS.h_advance(gid) for _i, hbS in sens]
                ctx.judged()
                if gU.width is None or not (min(advs) - 1.0 - 1e-6 <= gU.width <= max(advs) + 1.0 + 1e-6):
                    ctx.violation({"kind": "advance", "which": "width", "tech": tech, "metrics": msrc, "loc": "variation-unquantised"},
                                  "%s glyph %r at %s: width %r outside HarfBuzz's neighbourhood %r" % (label, name, user, gU.width, advs),
                                  {"font": label, "glyph": name, "location": user})
    for k, v in stats.items():
        ctx.note(k, v)
    return len(locs)


_PATH_OPS = {"rmoveto", "hmoveto", "vmoveto", "rlineto", "hlineto", "vlineto", "rrcurveto", "hhcurveto", "vvcurveto",
             "hvcurveto", "vhcurveto", "rcurveline", "rlinecurve", "flex", "hflex", "hflex1", "flex1", "callsubr",
             "callgsubr", "blend", "vsindex", "endchar", "hintmask", "cntrmask"}


def _short(rec, n=14):
    out = []
    for op, args in rec[:n]:
        out.append([op] + [[round(c, 3) for c in p] if p is not None else None for p in args])
    if len(rec) > n:
        out.append("... %d more" % (len(rec) - n))
    return out


# ---------------------------------------------------------------- run
def run_case(case, ctx):
    rnd = random.Random("%s/%s" % (case["id"], case["seed"]))
    _cur["obs"] = Counter()
    _cur["depth"] = 0
    if case["kind"] == "corpus":
        label = case["path"]
        with ctx.lib("load"):
            data = corpus.font_bytes(case["path"], case.get("member"))
            if data[:4] in (b"wOFF", b"wOF2"):
                f0 = corpus.open_bytes(data)
                f0.flavor = None
                data = corpus.save_bytes(f0)
            font = corpus.open_bytes(data)
    else:
        from vmon.gen import c05_fonts

        label = case["id"]
        grnd = random.Random("c05-gen/%s/%s/%s" % (case["gen"], case["i"], case["seed"]))
        data = c05_fonts.build(case["gen"], grnd, **case["params"])
        with ctx.lib("load"):
            font = corpus.open_bytes(data)
    ctx.sample = {"font": label, "glyphs": len(font.getGlyphOrder()), "tables": sorted(t for t in font.keys() if t != "GlyphOrder")[:24]}
    nlocs = _judge_font(ctx, data, font, label, rnd, case.get("nrandom", 3))
    ctx.sample["locations"] = nlocs
    ctx.sample["evaluations"] = ctx.evals
    for k, v in _cur["obs"].items():
        ctx.note(k, v)
    if _cur["depth"]:
        ctx.note("T2:max-subr-depth=%d" % _cur["depth"])
    ops = sorted(k for k in _cur["obs"] if k.startswith(("T2:", "component:", "iup:")))
    if ops:
        ctx.sample["executed"] = ops[:40]


def coverage_extra(results):
    obs = Counter()
    for r in results:
        obs.update(r.get("obs", {}))
    ops = sorted(k[3:] for k in obs if k.startswith("T2:") and not k.startswith("T2:max-subr-depth"))
    return {
        "t2_operator_forms_executed": ops,
        "t2_max_subr_depth": max([int(k.split("=")[1]) for k in obs if k.startswith("T2:max-subr-depth=")] or [0]),
        "component_flags_executed": sorted(k[10:] for k in obs if k.startswith("component:")),
        "iup_situations": sorted(k[4:] for k in obs if k.startswith("iup:")),
        "outline_pairs_stage1": obs.get("outline-stage1", 0),
        "outline_pairs_stage2": obs.get("outline-stage2", 0),
        "not_judged": {k: v for k, v in obs.items() if k.startswith(("not-judged:", "oracles-disagree:", "user-path-not-judged", "location-not-judged"))},
    }
