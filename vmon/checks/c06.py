"""C06 — serialising layout tables never changes how text is shaped.

Monitors on the real serialiser: (1) after OTTableWriter.getAllData /
getAllDataUsingHarfbuzz the written bytes are walked together with the writer tree — every
offset field must resolve to exactly the bytes of the sub-table the writer meant (and, for
the pure-Python packer, equal target.pos - parent.pos); (2) after BaseTTXConverter.compile
the GSUB/GPOS bytes are re-parsed from the header by a spec-written structural walker
(vmon/oracle/otlref.walk_layout); (3) an event log of overflow records, promotions, splits
and compaction.  Behaviour oracle: (a) corpus layout tables — HarfBuzz on the original bytes
vs HarfBuzz on the bytes recompiled under each configuration; (b) generated large tables —
the semantic spec itself (vmon/gen/c06_spec.py), evaluated by the rule-level reference
interpreter, predicts every probe text, for repacker in {False, None, True} and GPOS
compaction level 0..9.  Tables that cannot be packed must raise.
"""
import io
import os
import random
import re

from vmon import hooks, env, corpus
from vmon.case import exc_mech

PROPERTY = "C06"
LEVEL = "exploration"
RULE = ("a case is one layout-carrying font of the corpus (AOTS lookup fonts, real fonts, feature-file builds) or one generated "
        "semantic spec, under a set of serialisation configurations (repacker mode x compaction level); each probe text shaped "
        "under each configuration is one evaluation; a case is non-trivial when the layout tables change the shaping of at least "
        "one probe text, and distinct by (source, lookup types written, configuration, overflow resolutions that occurred)")
ASSUMPTIONS = [
    "HarfBuzz 12.1 shaping (PUA alphabet, all features of the font enabled, identical settings on both sides) is the behaviour oracle",
    "for generated tables the meaning of the in-memory tables is the semantic spec they were built from (otlLib.builder turns the spec "
    "into otTables objects); vmon/oracle/otlref.py predicts the shaping from the spec alone",
    "the repacker may duplicate/share sub-tables and promote lookups to Extension; overflow resolution may mutate Lookup.SubTable; "
    "nothing is asserted about structure, only offset integrity and behaviour",
    "a compile that makes no progress (a split that leaves an empty sub-table) is reported and then aborted by the monitor",
]
REQUIRED_MONITORS = ["writer-graph", "reparse", "BaseTTXConverter.compile", "tryResolveOverflow"]
CASE_TIMEOUT = 400
MANIFEST = {
    "text": "Exploration. Post-conditions on the real serialiser: after OTTableWriter.getAllData / getAllDataUsingHarfbuzz every offset field of the written bytes is followed together with the writer tree and must land on exactly the bytes of the sub-table the writer meant; after every GSUB/GPOS compile a spec-written structural walker re-parses the bytes from the header with bounds and count checks; overflow records, Extension promotions, split* calls and compaction are logged. Behaviour: all corpus layout tables (206 AOTS fonts, real fonts, feature-file builds) are recompiled with repacker off/auto/required (and compaction levels) and HarfBuzz must shape exhaustive short and random longer glyph sequences exactly as on the original bytes; generated large tables built from a semantic spec (kerning dictionary, class matrix, ligature / multiple / alternate dictionaries, mark-to-base with many classes, single-position maps, many lookups) overflow 16-bit offsets at each level and must shape every probe text as the spec predicts; unpackable tables must raise. Tests cannot settle this because they assert on XML structure of two or three synthetic overflow tables, not on behaviour.",
    "note": "Trusted base: HarfBuzz 12.1, vmon/oracle/otlref.py (reference interpreter + structural walker), the semantic specs. The HarfBuzz repacker is allowed to duplicate/share sub-tables and to promote lookups to Extension.",
    "technique": "post-condition monitors on the packer (offset/graph integrity), independent byte re-parse, differential and spec-predicted shaping across serialisation configurations, event log of overflow resolution",
    "design_ref": "DESIGN.md §4 C06",
}

REP = "fontTools.ttLib.tables.otBase:USE_HARFBUZZ_REPACKER"
COMP = "fontTools.otlLib.optimize.gpos:COMPRESSION_LEVEL"
REPS = {"F": False, "N": None, "T": True}
_S = {"noprogress": 0}


class _AbortCompile(BaseException):
    """Raised by the no-progress monitor to leave a compile that cannot terminate."""


# ---------------------------------------------------------------- monitor 1: writer graph
def _verify_written(root, data, absolute, packer):
    nodes = {}
    problems = []

    def node(w):
        r = nodes.get(id(w))
        if r is None:
            parts, links, off = [], [], 0
            for item in w.items:
                if hasattr(item, "subWriter"):
                    links.append((off, item.offsetSize, item.subWriter))
                    parts.append(b"\0" * item.offsetSize)
                    off += item.offsetSize
                elif hasattr(item, "getCountData"):
                    b = item.getCountData()
                    parts.append(b)
                    off += len(b)
                else:
                    parts.append(item)
                    off += len(item)
            r = nodes[id(w)] = (b"".join(parts), links)
        return r

    def bad(what, w, **kw):
        if len(problems) < 4:
            problems.append((what, getattr(w, "name", "?"), kw))

    n = len(data)
    seen = set()
    stack = [(root, 0)]
    nlinks = 0
    while stack:
        w, P = stack.pop()
        key = (id(w), P)
        if key in seen:
            continue
        seen.add(key)
        blob, links = node(w)
        if P < 0 or P + len(blob) > n:
            bad("out-of-bounds", w, pos=P, size=len(blob), total=n)
            continue
        if absolute and w.pos != P:
            bad("position", w, pos=P, writer_pos=w.pos)
        seg = bytearray(data[P:P + len(blob)])
        targets = []
        for off, size, child in links:
            v = int.from_bytes(seg[off:off + size], "big")
            seg[off:off + size] = b"\0" * size
            nlinks += 1
            if absolute:
                exp = child.pos - w.pos
                if v != exp or exp < 0 or exp >= (1 << (8 * size)):
                    bad("offset-field", w, field=v, expected=exp, child=getattr(child, "name", "?"), size=size)
                    continue
            if v == 0:
                bad("null-offset", w, child=getattr(child, "name", "?"))
                continue
            targets.append((child, P + v))
        ext_ok = False
        if not absolute and getattr(w, "name", None) == "Lookup" and bytes(seg[2:]) == blob[2:] and seg[:2] != blob[:2]:
            # the HarfBuzz repacker may promote a lookup to Extension
            ext_ok = int.from_bytes(seg[:2], "big") in (7, 9)
        if ext_ok:
            seg[:2] = blob[:2]
            new = []
            for child, T in targets:
                if T + 8 > n or data[T:T + 2] != b"\0\1" or data[T + 2:T + 4] != blob[:2]:
                    bad("extension-by-repacker", w, at=T)
                    continue
                new.append((child, T + int.from_bytes(data[T + 4:T + 8], "big")))
            targets = new
        if bytes(seg) != blob:
            if not absolute and getattr(w, "name", None) == "Lookup":
                # the HarfBuzz repacker may also split sub-tables of a lookup: its Lookup table
                # and what hangs below it are then no longer the writer's; left to monitor 2
                _S["hb_restructured"] = _S.get("hb_restructured", 0) + 1
                continue
            bad("target-bytes", w, pos=P)
            continue
        stack.extend(targets)
    hooks.count("writer-graph")
    _S["graph_nodes"] = _S.get("graph_nodes", 0) + len(seen)
    _S["graph_links"] = _S.get("graph_links", 0) + nlinks
    for what, name, kw in problems:
        hooks.report({"kind": "writer-graph", "packer": packer, "what": what, "table": name},
                     "%s packer: %s at a %s table: %s" % (packer, what, name, kw), dict(kw, table=name, packer=packer))


# ---------------------------------------------------------------- setup
def attach_writer_monitors():
    """Monitors 1 and 2 (also attached by C11: every feature compile is a serialisation)."""
    from fontTools.ttLib.tables import otBase
    from vmon.oracle import otlref

    hooks.counters.setdefault("writer-graph", 0)
    hooks.counters.setdefault("reparse", 0)

    def post_all(st, a, kw, res, exc):
        if exc is None and isinstance(res, (bytes, bytearray)):
            _verify_written(a[0], bytes(res), True, "fonttools")
        elif exc is not None:
            hooks.events.append(("packer-raised", "fonttools", type(exc).__name__))

    def post_hb(st, a, kw, res, exc):
        if exc is None and isinstance(res, (bytes, bytearray)):
            hooks.events.append(("packed", "harfbuzz"))
            _verify_written(a[0], bytes(res), False, "harfbuzz")
        elif exc is not None:
            hooks.events.append(("packer-raised", "harfbuzz", type(exc).__name__))

    hooks.attach(otBase.OTTableWriter, "getAllData", post=post_all, name="OTTableWriter.getAllData")
    hooks.attach(otBase.OTTableWriter, "getAllDataUsingHarfbuzz", post=post_hb, name="OTTableWriter.getAllDataUsingHarfbuzz")

    def post_compile(st, a, kw, res, exc):
        tag = getattr(a[0], "tableTag", None)
        if exc is not None:
            hooks.events.append(("compile-raised", tag, type(exc).__name__))
            return
        if tag in ("GSUB", "GPOS", "GDEF") and isinstance(res, (bytes, bytearray)):
            hooks.count("reparse")
            try:
                stats = otlref.walk_layout(res, tag)
                hooks.events.append(("walked", tag, dict(stats)))
            except otlref.BadLayout as e:
                hooks.report({"kind": "reparse", "table": tag, "what": re.sub(r"-?\d+", "N", e.what)},
                             "independent re-parse of the written %s fails: %s" % (tag, e), {"path": e.path, "what": e.what})

    hooks.attach(otBase.BaseTTXConverter, "compile", post=post_compile, name="BaseTTXConverter.compile")


def setup():
    from fontTools.ttLib.tables import otBase, otTables
    from fontTools.otlLib.optimize import gpos as G

    attach_writer_monitors()

    def pre_resolve(a, kw):
        rec = a[2].value
        if rec.itemName is None and rec.SubTableIndex is None:
            lvl = "LookupList->Lookup"
        elif rec.itemName is None:
            lvl = "Lookup->SubTable"
        else:
            lvl = "SubTable->" + re.sub(r"\d+", "", str(rec.itemName))
        return lvl

    def post_resolve(st, a, kw, res, exc):
        hooks.events.append(("overflow", a[2].value.tableType, st, bool(res) if exc is None else "raised"))

    hooks.attach(otBase.BaseTTXConverter, "tryResolveOverflow", pre=pre_resolve, post=post_resolve, name="tryResolveOverflow")

    def post_fixlookup(st, a, kw, res, exc):
        hooks.events.append(("resolution", "extension-promotion", bool(res)))

    hooks.attach(otTables, "fixLookupOverFlows", post=post_fixlookup, name="fixLookupOverFlows")

    def pre_fixsub(a, kw):
        try:
            rec = a[1]
            st = a[0][rec.tableType].table.LookupList.Lookup[rec.LookupListIndex].SubTable[rec.SubTableIndex]
            return hasattr(st, "DontShare")
        except Exception:
            return None

    def post_fixsub(st, a, kw, res, exc):
        hooks.events.append(("resolution", "dont-share" if st is False else "split", bool(res)))

    hooks.attach(otTables, "fixSubTableOverFlows", pre=pre_fixsub, post=post_fixsub, name="fixSubTableOverFlows")

    def sizes(t):
        for attr in ("mapping", "alternates", "ligatures"):
            if hasattr(t, attr):
                return len(getattr(t, attr))
        if hasattr(t, "PairSet") and getattr(t, "Format", None) == 1:
            return len(t.PairSet)
        if hasattr(t, "Class1Record") and getattr(t, "Format", None) == 2:
            return len(t.Class1Record)
        if hasattr(t, "ClassCount") and hasattr(t, "MarkArray"):
            return t.ClassCount
        if hasattr(t, "Value") and isinstance(getattr(t, "Value", None), list):
            return len(t.Value)
        return None

    def mk_split(name):
        def post(st, a, kw, res, exc):
            if exc is not None:
                hooks.events.append(("split", name, "raised:" + type(exc).__name__))
                return
            so, sn = sizes(a[0]), sizes(a[1])
            hooks.events.append(("split", name, bool(res), so, sn))
            if res and (so == 0 or sn == 0):
                _S["noprogress"] += 1
                if _S["noprogress"] == 1:
                    hooks.report({"kind": "overflow-no-progress", "split": name, "what": "split left an empty subtable"},
                                 "%s returned ok but left an empty sub-table (old %s, new %s entries): the overflow cannot be resolved this way "
                                 "and the compile loop does not terminate" % (name, so, sn), {"old": so, "new": sn, "record": repr(a[2])})
                if _S["noprogress"] >= 3:
                    raise _AbortCompile()
        return post

    for name in sorted(n for n in vars(otTables) if n.startswith("split") and callable(vars(otTables)[n]) and n != "splitTable"):
        orig = vars(otTables)[name]
        hooks.attach(otTables, name, post=mk_split(name), name=name)
        for tag, d in otTables.splitTable.items():
            for k, f in list(d.items()):
                if f is orig:
                    d[k] = vars(otTables)[name]

    def post_ccp(st, a, kw, res, exc):
        if exc is None:
            hooks.events.append(("compaction", a[1], 1, len(res)))

    hooks.attach(G, "compact_class_pairs", post=post_ccp, name="compact_class_pairs")
    hooks.attach(G, "compact", name="gpos.compact")
    hooks.attach(G, "compact_lookup", name="gpos.compact_lookup")


# ---------------------------------------------------------------- cases
SPEC_QUICK = [
    ("kern_pairs", 1, "FNT", [0]), ("class_kern", 1, "FNT", [0]), ("ligatures", 1, "FNT", [0]), ("multiple", 1, "FNT", [0]),
    ("alternate", 1, "FNT", [0]), ("markbase", 1, "FNT", [0]), ("singlepos", 1, "FNT", [0]), ("many_lookups", 1, "FNT", [0]),
    ("class_kern", 0, "F", [0, 1, 5, 9]), ("class_kern", 0, "N", [3]), ("zero_row_shadow", 0, "F", [0, 1, 5, 9]), ("mixed", 0, "FNT", [0, 5]),
    ("kern_pairs", 0, "F", [0, 9]), ("class0_column", 0, "F", [0, 1, 5, 9]), ("class0_column", 1, "N", [0, 5]),
    ("permuted", 0, "FNT", [0]), ("permuted", 1, "FN", [0]),
    ("devices", 0, "FNT", [0]), ("devices", 0, "F", [1, 5, 9]), ("devices", 0, "N", [5]),
    ("varkern", 0, "FN", [0, 1, 5, 9]), ("class_kern_v2", 0, "F", [0, 1, 2, 3, 5, 7, 9]), ("class_kern_v2", 0, "N", [2, 9]),
]
SPEC_THOROUGH = [(n, s, "FNT", [0]) for n in ("kern_pairs", "class_kern", "ligatures", "multiple", "alternate", "markbase", "singlepos", "many_lookups")
                 for s in (1, 2)] + \
    [("class_kern", 0, "FNT", list(range(10))), ("zero_row_shadow", 0, "FNT", list(range(10))), ("mixed", 0, "FNT", list(range(10))),
     ("kern_pairs", 0, "FNT", list(range(10))), ("class_kern", 1, "F", [5]), ("kern_pairs", 1, "N", [5]),
     ("class0_column", 0, "FNT", list(range(10))), ("class0_column", 1, "FNT", list(range(10))),
     ("permuted", 0, "FNT", [0, 5]), ("permuted", 1, "FNT", [0, 5]),
     ("devices", 0, "FNT", list(range(10))), ("varkern", 0, "FNT", list(range(10))), ("class_kern_v2", 0, "FNT", list(range(10)))]
NOPACK = [("huge_chain_format3", "FNT"), ("huge_marklig", "FN"), ("huge_ligature_set", "F")]


def cases(tier, seed):
    T = tier == "thorough"
    cs = []
    for rec in corpus.fonts("bin", lambda r: r.get("layout")):
        aots = "/aots/" in rec["path"]
        cs.append({"id": "%s:%s%s" % ("aots" if aots else "font", rec["path"], "" if rec.get("member") is None else "#%d" % rec["member"]),
                   "kind": "corpus", "path": rec["path"], "member": rec.get("member"), "seed": seed,
                   "reps": "FNT" if (T or not aots) else "FN", "levels": [0, 5] if (T or not aots) else [0],
                   "K": (99 if aots else 45) if T else (22 if aots else 18)})
    feas = _fea_list()
    for name in (feas if T else feas[::5]):
        cs.append({"id": "fea:" + name, "kind": "fea", "name": name, "seed": seed, "reps": "FNT", "levels": [0, 5] if not T else [0, 1, 5, 9],
                   "K": 40 if T else 18})
    for name, size, reps, levels in (SPEC_THOROUGH if T else SPEC_QUICK):
        for variant in range(2 if (T and size == 1) else 3 if (T and name in ("devices", "varkern", "class_kern_v2")) else 2 if name in ("devices", "varkern", "class_kern_v2") else 1):
            for r in reps:
                for lv in levels:
                    cs.append({"id": "spec:%s:s%d:%s:c%d%s" % (name, size, r, lv, ":v%d" % variant if variant else ""), "kind": "spec",
                               "name": name, "size": size, "rep": r, "level": lv, "seed": seed, "variant": variant})
    for name, reps in NOPACK:
        for r in reps:
            cs.append({"id": "nopack:%s:%s" % (name, r), "kind": "nopack", "name": name, "rep": r, "seed": seed, "timeout": 200})
    return cs


def _fea_list():
    from vmon.checks.c11 import _test_feature_files
    skip = ("variable_", "STAT_", "name", "size", "cvparam", "bug509")
    return [n for n in _test_feature_files() if not n.startswith(skip)]


# ---------------------------------------------------------------- helpers
def _events(ctx, label):
    """Fold the monitor event log of the last save into evidence counters; -> summary set"""
    summ = set()
    for e in hooks.events:
        if e[0] == "overflow":
            ctx.note("overflow at %s/%s resolved=%s" % (e[1], e[2], e[3]))
            summ.add("ovf:" + e[2])
        elif e[0] == "resolution":
            ctx.note("resolution %s ok=%s" % (e[1], e[2]))
            if e[2]:
                summ.add(e[1])
        elif e[0] == "split":
            ctx.note("%s ok=%s" % (e[1], e[2]))
            summ.add(e[1])
        elif e[0] == "compaction":
            ctx.note("compaction level %s: 1 -> %s subtables" % (e[1], "1" if e[3] == 1 else "2-4" if e[3] <= 4 else "5+"))
            if e[3] > 1:
                summ.add("compacted")
        elif e[0] == "packed":
            ctx.note("packed by harfbuzz repacker")
            summ.add("hb")
        elif e[0] == "packer-raised":
            ctx.note("packer %s raised %s" % (e[1], e[2]))
        elif e[0] == "walked":
            _S.setdefault("decoded_devices", set()).update(tuple(d) for d in e[2].get("_devices", ()))
            for k, v in e[2].items():
                if k[:4] in ("GSUB", "GPOS") or k == "Extension":
                    ctx.note("written %s" % k, v)
                    summ.add(k.split(".")[0] if k != "Extension" else "Ext")
    del hooks.events[:]
    return summ


def _shape_all(h, texts, feats, script):
    return [h.shape(t, feats, script=script) for t in texts]


def _mentioned(table, glyphset, limit=4000):
    from fontTools.ttLib.tables.otBase import BaseTable

    out, seen = [], set()
    stack = [table]
    have = set()
    while stack and len(out) < limit:
        x = stack.pop()
        if isinstance(x, str):
            if x in glyphset and x not in have:
                have.add(x)
                out.append(x)
        elif isinstance(x, (list, tuple)):
            stack.extend(reversed(x))
        elif isinstance(x, dict):
            for k, v in x.items():
                stack.append(v)
                stack.append(k)
        elif isinstance(x, BaseTable):
            if id(x) in seen:
                continue
            seen.add(id(x))
            try:
                x.ensureDecompiled(recurse=False)
            except Exception:
                pass
            stack.extend(v for k, v in sorted(x.__dict__.items(), reverse=True) if k not in ("reader", "font"))
    return out


def _probe_texts(rnd, mentioned, nglyphs, K):
    gids = mentioned[:K]
    extra = [g for g in range(1, nglyphs) if g not in set(mentioned)][:2]
    U = list(dict.fromkeys(gids + extra))
    cps = [corpus.PUA + g for g in U]
    texts = [[c] for c in cps] + [[a, b] for a in cps for b in cps]
    small = cps[:7]
    texts += [[a, b, c] for a in small for b in small for c in small]
    pool = [corpus.PUA + g for g in (mentioned[:200] + extra)] or cps
    for _ in range(120):
        texts.append([rnd.choice(pool) for _i in range(rnd.randrange(3, 9))])
    return texts


def _mismatch(ctx, mech, what, witness):
    ctx.violation(mech, what, witness)


def _compare(ctx, label, base, other, texts, mech, witness, maxrep=2):
    bad = 0
    for t, a, b in zip(texts, base, other):
        ctx.judged()
        if a != b:
            bad += 1
            if bad <= maxrep:
                diff = "glyphs" if [x[0] for x in a] != [x[0] for x in b] else "advance" if [x[2:4] for x in a] != [x[2:4] for x in b] else "offset"
                ctx.violation(dict(mech, diff=diff), "%s: text %s shapes %s, expected %s" % (label, [c - corpus.PUA for c in t], b, a),
                              dict(witness, text=[c - corpus.PUA for c in t], expected=a, got=b))
    return bad


# ---------------------------------------------------------------- (a) corpus
def _configure_and_save(ctx, data, rep, level, label):
    from fontTools.otlLib.optimize.gpos import compact

    f = corpus.open_bytes(data)
    for tag in ("GDEF", "GSUB", "GPOS"):
        if tag in f:
            f[tag].ensureDecompiled()
    del hooks.events[:]
    if level and "GPOS" in f:
        try:
            compact(f, level)
        except Exception as e:
            ctx.judged()
            ctx.violation(exc_mech("compact", e, source=label), "gpos.compact(font, %d) raised %s: %s" % (level, type(e).__name__, str(e)[:200]), None)
            return None
    f.cfg[REP] = REPS[rep]
    try:
        return corpus.save_bytes(f)
    except Exception as e:
        ctx.judged()
        ctx.violation(exc_mech("save", e, source=label, repacker=rep, compaction=bool(level)),
                      "recompiling the layout tables raised %s: %s" % (type(e).__name__, str(e)[:200]), None)
        return None


def _layout_facts(data):
    """scripts, feature tags, mentioned glyph ids (workload selection only)."""
    f = corpus.open_bytes(data)
    order = f.getGlyphOrder()
    gset = set(order)
    gid = {g: i for i, g in enumerate(order)}
    scripts, feats, men = [], set(), []
    for tag in ("GSUB", "GPOS"):
        if tag not in f:
            continue
        t = f[tag].table
        if t.ScriptList:
            for sr in t.ScriptList.ScriptRecord:
                if sr.ScriptTag not in scripts:
                    scripts.append(sr.ScriptTag)
        if t.FeatureList:
            for fr in t.FeatureList.FeatureRecord:
                feats.add(fr.FeatureTag)
        if t.LookupList:
            for g in _mentioned(t.LookupList, gset):
                if gid[g] and gid[g] not in men:      # glyph 0 cannot be addressed through cmap
                    men.append(gid[g])
    return scripts, sorted(feats), men, len(order)


def _hb_script(tag):
    if tag in ("DFLT", "dflt"):
        return "Zyyy"
    t = tag.strip()
    return (t[0].upper() + t[1:].lower()).ljust(4, "x")[:4] if t.isalpha() else "Zyyy"


def run_corpus(case, ctx):
    from vmon.oracle.hbft import HB

    rnd = random.Random("%s/%s" % (case["id"], case["seed"]))
    font = corpus.load(case["path"], fontNumber=case.get("member"))
    corpus.add_pua(font)
    font.flavor = None
    try:
        O = corpus.save_bytes(font)
    except Exception as e:
        ctx.skip("corpus font does not save: %s" % type(e).__name__)
        return
    scripts, feats, men, nglyphs = _layout_facts(O)
    if not men:
        ctx.skip("layout tables mention no glyph")
        return
    texts = _probe_texts(rnd, men, nglyphs, case["K"])
    fd = {t: True for t in feats}
    hbscripts = list(dict.fromkeys(_hb_script(s) for s in (scripts or ["DFLT"])))[:2]
    h0 = HB(O)
    base = {s: _shape_all(h0, texts, fd, s) for s in hbscripts}
    plain = [[(h0.nominal(c), h0.h_advance(h0.nominal(c))) for c in t] for t in texts]
    affected = sum(1 for t, r in zip(plain, base[hbscripts[0]]) if [(x[0], x[2]) for x in r] != t or any(x[3] or x[4] or x[5] for x in r))
    label = "aots" if case["id"].startswith("aots") else "font"
    for rep in case["reps"]:
        for level in case["levels"]:
            if level and "GPOS" not in h0.table_tags():
                continue
            R = _configure_and_save(ctx, O, rep, level, label)
            summ = _events(ctx, label)
            if R is None:
                continue
            h = HB(R)
            for s in hbscripts:
                got = _shape_all(h, texts, fd, s)
                _compare(ctx, "%s recompiled (repacker=%s, compaction=%d)" % (case["path"], REPS[rep], level), base[s], got, texts,
                         {"kind": "shape-mismatch", "source": label, "cause": "compaction" if level else "serialisation"},
                         {"font": case["path"], "repacker": repr(REPS[rep]), "compaction": level, "script": s, "features": feats})
            if affected:
                ctx.nontrivial("%s|%s|%s|%d|%s" % (label, "+".join(sorted(x for x in summ if x[:2] in ("GS", "GP"))), rep, level,
                                                   "+".join(sorted(x for x in summ if x[:2] not in ("GS", "GP")))))
    ctx.sample = {"font": case["path"], "scripts": scripts, "features": feats[:12], "glyphs_mentioned": len(men), "texts": len(texts),
                  "texts_affected_by_layout": affected, "configs": [case["reps"], case["levels"]]}


# ---------------------------------------------------------------- (a') feature-file builds
def run_fea(case, ctx):
    from fontTools.ttLib import TTFont
    from fontTools.feaLib.builder import addOpenTypeFeatures
    from fontTools.feaLib.error import FeatureLibError
    from vmon.checks.c11 import MAKE_TT_FONT_GLYPHS
    from vmon.gen import c06_spec as S
    from vmon.oracle.hbft import HB

    rnd = random.Random("%s/%s" % (case["id"], case["seed"]))
    order = list(MAKE_TT_FONT_GLYPHS)
    if "feabase" not in _S:
        _S["feabase"] = S.base_font(order, {g: 400 + 3 * (i % 150) for i, g in enumerate(order)})
    path = os.path.join(env.TESTS, "feaLib", "data", case["name"] + ".fea")
    outs = {}
    for rep in case["reps"]:
        for level in case["levels"]:
            f = TTFont(io.BytesIO(_S["feabase"]))
            f.setGlyphOrder(list(order))
            f.cfg[REP] = REPS[rep]
            f.cfg[COMP] = level
            del hooks.events[:]
            try:
                addOpenTypeFeatures(f, path)
            except FeatureLibError:
                ctx.skip("feature file rejected on this glyph set")
                return
            if "GSUB" not in f and "GPOS" not in f:
                ctx.skip("feature file builds no GSUB/GPOS")
                return
            try:
                outs[(rep, level)] = corpus.save_bytes(f)
            except Exception as e:
                ctx.judged()
                ctx.violation(exc_mech("save", e, source="fea", repacker=rep, compaction=bool(level)),
                              "saving a feature-file build raised %s: %s" % (type(e).__name__, str(e)[:200]), {"fea": case["name"]})
                continue
            outs[(rep, level), "summ"] = _events(ctx, "fea")
    ref_key = (case["reps"][0], case["levels"][0])
    if ref_key not in outs:
        return
    scripts, feats, men, nglyphs = _layout_facts(outs[ref_key])
    if not men:
        ctx.skip("layout tables mention no glyph")
        return
    texts = _probe_texts(rnd, men, nglyphs, case["K"])
    fd = {t: True for t in feats}
    hbscripts = list(dict.fromkeys(_hb_script(s) for s in (scripts or ["DFLT"])))[:2]
    h0 = HB(outs[ref_key])
    base = {s: _shape_all(h0, texts, fd, s) for s in hbscripts}
    for (k, data) in [(k, v) for k, v in outs.items() if isinstance(k[0], str) and k != ref_key]:
        h = HB(data)
        for s in hbscripts:
            _compare(ctx, "%s.fea built with repacker=%s compaction=%d vs repacker=%s compaction=%d" % (case["name"], REPS[k[0]], k[1], REPS[ref_key[0]], ref_key[1]),
                     base[s], _shape_all(h, texts, fd, s), texts,
                     {"kind": "shape-mismatch", "source": "fea", "cause": "compaction" if k[1] != ref_key[1] else "serialisation"},
                     {"fea": case["name"], "repacker": repr(REPS[k[0]]), "compaction": k[1], "script": s})
        ctx.nontrivial("fea|%s|%s|%d" % (case["name"][:24], k[0], k[1]))
    ctx.sample = {"fea": case["name"], "features": feats[:12], "texts": len(texts), "configs": sorted(str(k) for k in outs if isinstance(k[0], str))}


# ---------------------------------------------------------------- (b) generated specs
def _build_spec_font(m, level=0, rep=None):
    from fontTools.ttLib import TTFont
    from vmon.gen import c06_spec as S

    f = TTFont(io.BytesIO(S.base_font(m["order"], m.get("advances_build") or m["advances"])))
    f.setGlyphOrder(list(m["order"]))
    if m.get("fea"):
        # a spec given as feature-file text on a one-axis variable font: compaction happens
        # inside the feature compiler (PairPosBuilder) through the font's configuration
        from fontTools.fontBuilder import addFvar
        from fontTools.feaLib.builder import addOpenTypeFeaturesFromString

        tag, lo, df, hi = m["axis"]
        addFvar(f, [(tag, lo, df, hi, "Weight")], [])
        f.cfg[COMP] = level
        if rep is not None:
            f.cfg[REP] = REPS[rep]
        addOpenTypeFeaturesFromString(f, m["fea"])
    else:
        S.add_tables(f, m)
    return f


def _spec_build(ctx, m, rep, level):
    """build, (compact), save -> (font bytes, event summary)"""
    from fontTools.otlLib.optimize.gpos import compact

    del hooks.events[:]
    f = _build_spec_font(m, level, rep)
    if m.get("new_order"):
        # everything of the layout tables is in memory and keyed by glyph name; the font now
        # gets another glyph order, so Coverage glyph lists are no longer in glyph-id order
        f.setGlyphOrder(list(m["new_order"]))
    if level and not m.get("fea"):
        compact(f, level)
    f.cfg[REP] = REPS[rep]
    data = corpus.save_bytes(f)
    return data, _events(ctx, "spec")


def _spec_shape(m, data, texts, ppem=None, loc=None):
    from vmon.gen import c06_spec as S
    from vmon.oracle.hbft import HB

    h = HB(data, variations={m["axis"][0]: loc} if loc is not None else None)
    h.font.ppem = (ppem, ppem) if ppem else (0, 0)
    order = m.get("new_order") or m["order"]
    idx = {g: i for i, g in enumerate(order)}
    out = []
    for t in texts:
        r = h.shape([corpus.PUA + idx[x] for x in t], {S.FEATURE: True})
        out.append([(order[g], xa, ya, xo, yo) for g, cl, xa, ya, xo, yo in r])
    return out


def run_spec(case, ctx):
    from vmon.gen import c06_spec as S
    from vmon.oracle import otlref

    rnd = random.Random("spec/%s/%s/%s/%s" % (case["name"], case["size"], case["seed"], case.get("variant", 0)))
    m, texts = S.make(case["name"], rnd, case["size"])
    if m.get("permute"):
        m["new_order"] = S.permute_order(rnd, m["order"], m["permute"])
        # hmtx and cmap stay as compiled: advance and code point belong to the glyph id
        m["advances_build"] = dict(m["advances"])
        m["advances"] = {g: m["advances_build"][m["order"][i]] for i, g in enumerate(m["new_order"])}
    ref = otlref.Interp(m)
    settings = [(p, None) for p in m.get("ppems", [None])] if not m.get("locs") else [(None, l) for l in m["locs"]]
    if m.get("locs") and m.get("ppems"):
        settings += [(p, l) for p in m["ppems"][1:4] for l in m["locs"][1:3]]
    _S.pop("decoded_devices", None)
    try:
        data, summ = _spec_build(ctx, m, case["rep"], case["level"])
    except Exception as e:
        ctx.judged()
        ctx.violation(exc_mech("save", e, source="spec:" + case["name"], repacker=case["rep"], compaction=bool(case["level"])),
                      "compiling tables built from spec %s raised %s: %s" % (case["name"], type(e).__name__, str(e)[:300]), None)
        return
    if m.get("ppems"):
        # the hinting Device tables struct-decoded from the written GPOS/GDEF are the spec's
        want = set()

        def scan(x):
            if isinstance(x, dict):
                if "devspec" in x:
                    st_, en_, fm_ = x["devspec"]
                    want.add((st_, en_, fm_, tuple(x["dev"].get(p_, 0) for p_ in range(st_, en_ + 1))))
                for v_ in x.values():
                    scan(v_)
            elif isinstance(x, (list, tuple)):
                for v_ in x:
                    scan(v_)

        scan(m["GPOS"])
        scan(m.get("carets"))
        got_devs = _S.pop("decoded_devices", set())
        ctx.judged()
        if got_devs != want:
            ctx.violation({"kind": "device-decode", "source": "spec:" + case["name"], "what": "decoded Device tables differ from the spec"},
                          "Device tables decoded from the written tables differ from the spec: unexpected %s, missing %s"
                          % (sorted(got_devs - want)[:3], sorted(want - got_devs)[:3]), {"spec": case["name"], "seed": case["seed"]})
        else:
            ctx.note("Device tables struct-decoded and equal to the spec", len(want))
    bad = fired = ntexts = 0
    data0 = None
    for ppem, loc in settings:
        want, keep = [], []
        for t in texts:
            try:
                want.append(ref.shape(t, {S.FEATURE: 1}, ppem=ppem, loc=loc))
                keep.append(t)
            except otlref.Undetermined:
                ctx.skip("undetermined by the spec")
        got = _spec_shape(m, data, keep, ppem, loc)
        ntexts += len(keep)
        for t, w, g in zip(keep, want, got):
            ctx.judged()
            if w != [(x, m["advances"][x], 0, 0, 0) for x in t]:
                fired += 1
            if w != g:
                bad += 1
                if bad <= 2:
                    cause = "serialisation"
                    if case["level"]:
                        # does the same spec shape correctly without compaction?
                        try:
                            if data0 is None:
                                data0, _s = _spec_build(ctx, m, case["rep"], 0)
                            if _spec_shape(m, data0, [t], ppem, loc)[0] == w:
                                cause = "compaction"
                        except Exception:
                            pass
                    diff = "glyphs" if [x[0] for x in w] != [x[0] for x in g] else "advance" if [x[1:3] for x in w] != [x[1:3] for x in g] else "offset"
                    ctx.violation({"kind": "shape-mismatch", "source": "spec:" + case["name"], "cause": cause, "diff": diff,
                                   "at": "ppem" if ppem else "location" if loc is not None else "default"},
                                  "spec %s (repacker=%s, compaction=%d, ppem=%s, location=%s): text %s shapes %s, the spec says %s"
                                  % (case["name"], REPS[case["rep"]], case["level"], ppem, loc, t, g, w),
                                  {"spec": case["name"], "size": case["size"], "repacker": repr(REPS[case["rep"]]), "compaction": case["level"],
                                   "ppem": ppem, "location": loc, "text": t, "spec_says": w, "harfbuzz": g, "seed": case["seed"]})
    if fired:
        ctx.nontrivial("spec|%s|s%d|%s|c%d|%s" % (case["name"], case["size"], case["rep"], case["level"], "+".join(sorted(summ))))
    if len(settings) > 1:
        ctx.note("spec texts shaped at a ppem (Device tables act)", sum(1 for p, l in settings if p))
        ctx.note("spec texts shaped at a non-default axis location", sum(1 for p, l in settings if l is not None))
    ctx.sample = {"spec": case["name"], "size": case["size"], "repacker": repr(REPS[case["rep"]]), "compaction": case["level"],
                  "glyphs": len(m["order"]), "table_bytes_total_font": len(data), "texts": ntexts, "texts_where_rules_fire": fired,
                  "settings (ppem, axis location)": settings[:12],
                  "overflow_level_targeted": S.LEVEL_OF.get(case["name"]), "events": sorted(summ)}


def run_nopack(case, ctx):
    from fontTools.ttLib.tables.otBase import OTLOffsetOverflowError
    from vmon.gen import c06_spec as S

    rnd = random.Random("nopack/%s/%s" % (case["name"], case["seed"]))
    m, texts = S.make(case["name"], rnd, 1)
    f = _build_spec_font(m)
    f.cfg[REP] = REPS[case["rep"]]
    _S["noprogress"] = 0
    del hooks.events[:]
    ctx.judged()
    try:
        data = corpus.save_bytes(f)
    except OTLOffsetOverflowError as e:
        ctx.note("unpackable table raised OTLOffsetOverflowError")
        ctx.nontrivial("nopack|%s|%s|raised" % (case["name"], case["rep"]))
        ctx.sample = {"unpackable": case["name"], "repacker": repr(REPS[case["rep"]]), "raised": "OTLOffsetOverflowError", "record": str(e)[:200]}
        _events(ctx, "nopack")
        return
    except _AbortCompile:
        ctx.note("compile aborted by the no-progress monitor")
        ctx.sample = {"unpackable": case["name"], "repacker": repr(REPS[case["rep"]]), "raised": None, "aborted": "no progress"}
        _events(ctx, "nopack")
        return
    except Exception as e:
        ctx.note("unpackable table raised %s" % type(e).__name__)
        ctx.violation({"kind": "no-packing-other-error", "type": type(e).__name__, "spec": case["name"]},
                      "a table without a valid packing raised %s instead of OTLOffsetOverflowError: %s" % (type(e).__name__, str(e)[:200]), None)
        _events(ctx, "nopack")
        return
    ctx.violation({"kind": "no-packing-returned-bytes", "spec": case["name"]},
                  "a table that cannot be packed (%s) was written (%d bytes) instead of raising" % (case["name"], len(data)),
                  {"spec": case["name"], "repacker": repr(REPS[case["rep"]])})


def run_case(case, ctx):
    _S["noprogress"] = 0
    k = case["kind"]
    if k == "corpus":
        run_corpus(case, ctx)
    elif k == "fea":
        run_fea(case, ctx)
    elif k == "spec":
        run_spec(case, ctx)
    else:
        run_nopack(case, ctx)
    if _S.get("hb_restructured"):
        ctx.note("lookups restructured by the harfbuzz repacker (graph check stops there)", _S.pop("hb_restructured"))
    ctx.note("writer-graph nodes verified", _S.pop("graph_nodes", 0))
    ctx.note("writer-graph offsets verified", _S.pop("graph_links", 0))
