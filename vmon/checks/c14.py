"""C14 — pen adapters preserve geometry.

Monitors on the adapters' public pen methods record the call stream entering every
pen object (and therefore leaving the adapter upstream of it).  The driver feeds
generated pen call sequences through single adapters and through chains of 2-4
adapters; every adapter in a chain is judged on its own monitored in/out streams and
the whole chain end to end, against an exact `Fraction` model (vmon/oracle/c14_geom.py)
of what the adapter documents.

Documented transforms used as the expected value (from the docstrings):
* SegmentToPointPen / PointToSegmentPen: "Adapter class that converts the (Segment)Pen
  protocol to the PointPen protocol" and back - identity on geometry and on the points
  of every contour (duplicate points are kept, see the comment in
  PointToSegmentPen._flushContour); `outputImpliedClosingLine` only changes whether the
  closing line is spelled out.
* RecordingPen/RecordingPointPen.replay, replayRecording: the recorded calls, verbatim.
* DecomposingRecordingPen / DecomposingPen.addComponent: "Transform the points of the base
  glyph and draw it onto self"; reverseFlipped: "components whose transformation matrix has
  a negative determinant will be decomposed with a reversed path direction".
* TransformPen / TransformPointPen: "transforms all coordinates using a Affine
  transformation"; components get `transformation.transform(component)` (component first).
* ReverseContourPen / ReverseContourPointPen: "reversing the winding direction of all
  contours. Components are simply passed through unchanged. Closed contours are reversed in
  such a way that the first point remains the first point."
* RoundingPen / RoundingPointPen: "rounds point coordinates and component XY offsets to
  integer" with otRound = floor(v + 0.5); the 2x2 part is left alone by default.
* FilterPen/ContourFilterPen/FilterPointPen/ContourFilterPointPen/TeePen: "passes the
  commands unmodified"; ExplicitClosingLinePen "adds an explicit lineTo to the first point
  of each closed contour"; OnCurveFirstPointPen rotates the start (geometry unchanged);
  DecomposingFilterPen "draws components as regular contours" (include / decomposeNested).
* TTGlyphPen/TTGlyphPointPen.glyph(): coordinates rounded with otRound, "TrueType contours
  are always closed", "ignore anchors (one-point paths)", components with values quantised
  to F2Dot14 and otRound-ed offsets, or decomposed (overflow / mixed with contours);
  dropImpliedOnCurves removes only on-curve points that are implied.
* T2CharStringPen: coordinates rounded by roundFunc(roundTolerance) (otRound when within
  tolerance), quadratics drawn as the equivalent cubics, CFF contours are closed.
* BoundsPen "calculates the correct bounds even when the shape contains curves that don't
  have points on their extremes"; ControlBoundsPen "bounding box of all control points";
  AreaPen signed area (Green); SVGPathPen writes path data that svgLib.path.parse_path draws.
Not asserted (left open by the docs): the start point of a contour without on-curve
points or after a segment->point->segment trip, smooth flags guessed by GuessSmoothPointPen.
"""
import math
import random
import traceback
from collections import Counter
from fractions import Fraction as F

from vmon import hooks, probes
from vmon.case import exc_mech, lib_frame
from vmon.oracle import c14_geom as O
from vmon.oracle import geom as G0
from vmon.gen import c14_seqs as GEN

PROPERTY = "C14"
LEVEL = "exploration"
RULE = ("a case is a batch of generated pen call sequences pushed through one adapter family "
        "(or a random chain of 2-4 adapters); every (adapter configuration, sequence) pair is judged "
        "against the exact model; a pair is distinct and non-trivial by (adapter+configuration, structural "
        "class of the sequence: open/closed/blob/single-point contours, line/quadratic/cubic segment "
        "arities, duplicate or coincident points, closing point on the start, components, fractional "
        "coordinates) and only counted when the sequence has at least one contour or component")
ASSUMPTIONS = [
    "pen protocol semantics (implied quadratic points, super-Bezier split rule of decomposeSuperBezierSegment, closePath = implied closing line) are taken from the AbstractPen docstrings and re-implemented in exact Fraction arithmetic in vmon/oracle/c14_geom.py",
    "pass-through adapters are compared with tolerance 0 (geometry and, where the adapter keeps points, the cyclic list of points including zero-length segments); adapters that compute in floating point are compared within 2^-40 x max(1, largest coordinate) (8 flops x 2^-53 relative error, 3 decimal orders of slack) unless all operands are dyadic rationals whose products are exact, then tolerance 0",
    "rounding after a floating point computation is only judged when no exact pre-rounding coordinate lies within 1e-9 of k+1/2",
    "contours with no segment of non-zero length are compared as bare points irrespective of open/closed; glyph builders (TTGlyphPen, T2CharStringPen) may drop them (stated in the property)",
    "generated transforms are invertible (|det| >= 1e-3); dropImpliedOnCurves is only judged on integer coordinates (the library documents 'either before or after rounding')",
    "AreaPen is only given closed contours ('Area is not defined for open contours'); area tolerance 1e-9 x (1 + sum of squared coordinate magnitudes)",
    "bounds tolerance 1e-9 x max(1, largest coordinate): extremum parameters are roots of the derivative, the value error at an extremum is second order in the root error",
    "Cu2QuPen in front of TTGlyphPen is judged with the cu2qu tolerance (max_err) plus the rounding budget by sampled Hausdorff distance (geom.geometric_eq)",
]
CASE_TIMEOUT = 300
MANIFEST = {
    "text": "Exploration: generated pen call sequences (open/closed contours, lines, cubic segments with 0-5 off-curves, quadratic segments with 0-6 off-curves, contours without on-curve point, duplicate and coincident points, closing line on the start point, single-point contours, components with arbitrary invertible affine transforms resolved through a glyph set, integer/half-integer/decimal/float coordinates) are pushed through every pen adapter alone and in chains of 2-4; monitors on the adapters' pen methods record the stream entering and leaving each adapter, and each adapter is judged against an exact Fraction model of its documented transform (identity, affine map, reversal keeping the start point, floor(x+0.5) rounding, decomposition, glyph building), plus reverse-twice, area negation, bounds within control bounds, area = Green integral, SVG path round trip and Transform algebra.",
    "note": "Trusted base: vmon/oracle/c14_geom.py (exact canonical Bezier segments, affine algebra, Green integral, derivative-root extrema, PointPen<->SegmentPen protocol conversion and TrueType glyf interpretation written from the specifications) cross-checked against vmon/oracle/geom.py. Start points of contours without on-curve points and smooth flags are not asserted.",
    "technique": "stream-recording monitors on the real pen methods; exact rational reference model; post-condition monitors on calcCubicBounds/calcQuadraticBounds/Transform/dropImpliedOnCurvePoints",
    "design_ref": "DESIGN.md §4 C14",
}

TOL_BITS = F(1, 2 ** 40)

# ---------------------------------------------------------------- monitor state
_streams = {}        # id(pen) -> [(op, args, kwargs)]
_depth = {}
_keep = []           # pens of the current chain (keeps ids unique)
_notes = Counter()
_cur = {"ctx": None, "n": 0}

SEG_OPS = ("moveTo", "lineTo", "curveTo", "qCurveTo", "closePath", "endPath", "addComponent")
PT_OPS = ("beginPath", "addPoint", "endPath", "addComponent")


def _mk_pre(op):
    def pre(a, kw):
        k = id(a[0])
        d = _depth.get(k, 0)
        _depth[k] = d + 1
        if d == 0:
            _streams.setdefault(k, []).append((op, a[1:], kw))
        return k
    return pre


def _post(st, a, kw, res, exc):
    if st is not None:
        _depth[st] = _depth.get(st, 1) - 1


def _attach_stream(cls, label=None):
    label = label or cls.__name__
    n = 0
    for op in SEG_OPS + ("beginPath", "addPoint"):
        if op in cls.__dict__:
            hooks.attach(cls, op, pre=_mk_pre(op), post=_post, name=label, bind=False)
            n += 1
    return n


def reset_streams():
    _streams.clear()
    _depth.clear()
    del _keep[:]


def seg_stream(pen):
    """monitored stream entering `pen` as a segment record"""
    out = []
    for op, a, kw in _streams.get(id(pen), []):
        if op == "addComponent":
            name = a[0] if a else kw.get("glyphName", kw.get("baseGlyphName"))
            t = a[1] if len(a) > 1 else kw.get("transformation", kw.get("transform"))
            out.append((op, (name, tuple(t))))
        elif op in ("closePath", "endPath"):
            out.append((op, ()))
        else:
            out.append((op, tuple(a)))
    return out


def pt_stream(pen):
    """monitored stream entering `pen` as a point record"""
    out = []
    for op, a, kw in _streams.get(id(pen), []):
        if op == "beginPath":
            out.append(("beginPath", dict(kw)))
        elif op == "endPath":
            out.append(("endPath",))
        elif op == "addPoint":
            names = ("pt", "segmentType", "smooth", "name", "identifier")
            d = {"segmentType": None, "smooth": False, "name": None, "identifier": None}
            d.update(zip(names, a))
            d.update({k: v for k, v in kw.items() if k in names})
            out.append(("addPoint", (d["pt"], d["segmentType"], d["smooth"], d["name"], d["identifier"])))
        elif op == "addComponent":
            name = a[0] if a else kw.get("baseGlyphName", kw.get("glyphName"))
            t = a[1] if len(a) > 1 else kw.get("transformation", kw.get("transform"))
            out.append(("addComponent", (name, tuple(t), kw.get("identifier"))))
    return out


# ---------------------------------------------------------------- setup
CHUNK = 6
REQUIRED_MONITORS = [
    "SegmentToPointPen", "PointToSegmentPen", "PointToSegmentPen._flushContour", "GuessSmoothPointPen",
    "RecordingPen", "RecordingPointPen", "TransformPen", "TransformPointPen", "ReverseContourPointPen",
    "ContourFilterPen", "FilterPen", "FilterPointPen", "ContourFilterPointPen", "RoundingPen", "RoundingPointPen",
    "TTGlyphPen", "TTGlyphPointPen", "BasePen", "DecomposingPen", "DecomposingPointPen", "TeePen",
    "reversedContour", "calcCubicBounds", "calcQuadraticBounds", "Transform.transform", "Transform.inverse",
    "dropImpliedOnCurvePoints", "T2CharStringPen.getCharString", "TTGlyph.glyph", "parse_path",
]
REQUIRED_SITES = [
    "p2s.no-oncurve", "s2p.merge-last-into-first", "rev.implied-closing-line", "rev.drop-leading-line",
    "rev.single-point", "tt.pop-closing-dup", "tt.anchor", "dropimplied.may-drop",
]


def setup():
    from fontTools.pens import (pointPen, recordingPen, transformPen, reverseContourPen, roundingPen, filterPen,
                                ttGlyphPen, t2CharStringPen, basePen, teePen, boundsPen, areaPen, svgPathPen, cu2quPen)
    from fontTools.misc import bezierTools, transform as TR
    from fontTools.ttLib.tables import _g_l_y_f
    from fontTools.svgLib.path import parser as svgparser
    import fontTools.svgLib.path as svgpath

    for cls in (pointPen.SegmentToPointPen, pointPen.GuessSmoothPointPen, recordingPen.RecordingPen,
                recordingPen.RecordingPointPen, transformPen.TransformPen, transformPen.TransformPointPen,
                pointPen.ReverseContourPointPen, filterPen.ContourFilterPen, filterPen.FilterPen,
                filterPen.FilterPointPen, filterPen.ContourFilterPointPen, roundingPen.RoundingPen,
                roundingPen.RoundingPointPen, ttGlyphPen.TTGlyphPen, ttGlyphPen.TTGlyphPointPen,
                basePen.BasePen, basePen.DecomposingPen, pointPen.DecomposingPointPen, teePen.TeePen,
                cu2quPen.Cu2QuPen):
        _attach_stream(cls)
    _attach_stream(pointPen.BasePointToSegmentPen, "PointToSegmentPen")
    _attach_stream(pointPen.PointToSegmentPen, "PointToSegmentPen")
    _attach_stream(ttGlyphPen._TTGlyphBasePen, "TTGlyphPen")
    _attach_stream(filterPen._PassThruComponentsMixin, "FilterPen")

    # --- PointToSegmentPen._flushContour branch classification
    def pre_flush(a, kw):
        segs = a[1]
        if not segs:
            _notes["flush/empty"] += 1
            return
        if segs[0][0] == "move":
            _notes["flush/open-single-point" if len(segs) == 1 else "flush/open"] += 1
            return
        last_t, last_pts = segs[-1]
        if last_pts[-1][0] is None:
            _notes["flush/closed-no-oncurve"] += 1
        elif last_t == "line":
            prev = segs[-2][1][-1][0] if len(segs) > 1 else last_pts[-1][0]
            if prev == last_pts[-1][0]:
                _notes["flush/closed-closing-line-duplicate-point"] += 1
            else:
                _notes["flush/closed-closing-line-implied"] += 1
        else:
            _notes["flush/closed-last-segment-curve"] += 1

    hooks.attach(pointPen.PointToSegmentPen, "_flushContour", pre=pre_flush, name="PointToSegmentPen._flushContour", bind=False)

    # --- reversedContour: geometry post-condition on the real function (generator result is materialised by callers;
    #     we only count here, the judgement is on the streams)
    hooks.attach(reverseContourPen, "reversedContour", name="reversedContour", bind=False)

    # --- bezierTools bounds: every call judged against derivative-root extrema
    def mk_bounds_post(kind):
        def post(st, a, kw, res, exc):
            if exc is not None:
                return
            pts = [O.P(p) for p in a]
            if any(math.isnan(float(v)) or math.isinf(float(v)) for p in a for v in p):
                return
            seg = (kind,) + tuple(pts)
            want = O.seg_bounds(seg)
            m = float(max(max(abs(p[0]), abs(p[1])) for p in pts))
            tol = 1e-9 * max(1.0, m)
            _cur["n"] = _cur.get("n", 0) + 1
            if any(abs(float(x) - y) > tol for x, y in zip(res, want)):
                hooks.report({"kind": "bounds", "func": "calc%sBounds" % ("Cubic" if kind == "c" else "Quadratic")},
                             "calc*Bounds %r differs from the extrema %r" % (tuple(res), want),
                             {"points": [O.fl(p) for p in pts], "got": list(map(float, res)), "want": list(want)})
        return post

    hooks.attach(bezierTools, "calcCubicBounds", post=mk_bounds_post("c"), name="calcCubicBounds", bind=False)
    hooks.attach(bezierTools, "calcQuadraticBounds", post=mk_bounds_post("q"), name="calcQuadraticBounds", bind=False)

    # --- Transform algebra
    probes_pts = [(0, 0), (1, 0), (0, 1), (7, -3)]

    def t_tol(*ts):
        m = F(1)
        for t in ts:
            for v in t:
                m = max(m, abs(O.fr(v)))
        return TOL_BITS * m * m * 16

    def finite(t):
        return all(isinstance(v, (int, float)) and not (isinstance(v, float) and (math.isnan(v) or math.isinf(v))) for v in t)

    def post_transform(st, a, kw, res, exc):
        if exc is not None or len(a) < 2:
            return
        s, o = a[0], tuple(a[1])
        if len(o) != 6 or not finite(s) or not finite(o):
            return
        _cur["n"] = _cur.get("n", 0) + 1
        want = O.compose(O.norm_T(s), O.norm_T(o))
        got = O.norm_T(res)
        tol = t_tol(s, o)
        if any(abs(x - y) > tol for x, y in zip(got, want)):
            hooks.report({"kind": "algebra", "func": "Transform.transform"},
                         "Transform.transform is not 'other first, then self'", {"self": list(s), "other": list(o), "got": list(res)})

    def post_rtransform(st, a, kw, res, exc):
        if exc is not None or len(a) < 2:
            return
        s, o = a[0], tuple(a[1])
        if len(o) != 6 or not finite(s) or not finite(o):
            return
        _cur["n"] = _cur.get("n", 0) + 1
        want = O.compose(O.norm_T(o), O.norm_T(s))
        tol = t_tol(s, o)
        if any(abs(x - y) > tol for x, y in zip(O.norm_T(res), want)):
            hooks.report({"kind": "algebra", "func": "Transform.reverseTransform"},
                         "reverseTransform is not other.transform(self)", {"self": list(s), "other": list(o), "got": list(res)})

    def post_inverse(st, a, kw, res, exc):
        s = a[0]
        if not finite(s):
            return
        d = O.det(O.norm_T(s))
        if exc is not None:
            if abs(d) >= F(1, 1000):
                hooks.report({"kind": "algebra", "func": "Transform.inverse", "what": "raised", "type": type(exc).__name__},
                             "inverse() raised on an invertible transform", {"self": list(s)})
            return
        if abs(d) < F(1, 1000):
            return
        _cur["n"] = _cur.get("n", 0) + 1
        want = O.inverse_T(O.norm_T(s))
        m = max(abs(v) for v in want)
        m2 = max(abs(O.fr(v)) for v in s)
        tol = TOL_BITS * max(F(1), m) * max(F(1), m2 * m2 / abs(d)) * 16
        if any(abs(x - y) > tol for x, y in zip(O.norm_T(res), want)):
            hooks.report({"kind": "algebra", "func": "Transform.inverse"},
                         "inverse() is not the inverse map", {"self": list(s), "got": list(res), "want": [float(v) for v in want]})

    hooks.attach(TR.Transform, "transform", post=post_transform, name="Transform.transform", bind=False)
    hooks.attach(TR.Transform, "reverseTransform", post=post_rtransform, name="Transform.reverseTransform", bind=False)
    hooks.attach(TR.Transform, "inverse", post=post_inverse, name="Transform.inverse", bind=False)

    # --- dropImpliedOnCurvePoints: geometry before == after (integer coordinates)
    def snap(g):
        return ([tuple(p) for p in g.coordinates], list(g.flags), list(g.endPtsOfContours))

    def pre_drop(a, kw):
        out = []
        for g in a:
            if getattr(g, "numberOfContours", 0) >= 1:
                out.append(snap(g))
            else:
                out.append(None)
        return out

    def post_drop(st, a, kw, res, exc):
        if exc is not None or st is None:
            return
        for g, before in zip(a, st):
            if before is None:
                continue
            if not all(float(v).is_integer() for p in before[0] for v in p):
                _notes["dropImplied/skipped-non-integer"] += 1
                continue
            try:
                A = O.canon(O.glyf_to_rec(*before))
                B = O.canon(O.glyf_to_rec(*snap(g)))
            except (IndexError, ValueError):
                _notes["dropImplied/skipped-invalid-cubic-flags"] += 1
                continue
            _cur["n"] = _cur.get("n", 0) + 1
            ok, why, idx = O.contours_match(A, B, 0, level=1, drop_points=True)
            _notes["dropImplied/judged"] += 1
            if res:
                _notes["dropImplied/dropped-some"] += 1
            if not ok:
                hooks.report({"kind": "geometry", "adapter": "dropImpliedOnCurvePoints", "why": why},
                             "dropImpliedOnCurvePoints changed the outline: %s" % why,
                             {"before": before, "after": snap(g), "dropped": sorted(res)})

    hooks.attach(_g_l_y_f, "dropImpliedOnCurvePoints", pre=pre_drop, post=post_drop, name="dropImpliedOnCurvePoints", bind=False)
    hooks.attach(t2CharStringPen.T2CharStringPen, "getCharString", name="T2CharStringPen.getCharString", bind=False)
    hooks.attach(ttGlyphPen._TTGlyphBasePen, "glyph", name="TTGlyph.glyph", bind=False)
    hooks.attach(svgparser, "parse_path", name="parse_path", bind=False)

    # --- decision sites
    probes.add_site("p2s.no-oncurve", pointPen.BasePointToSegmentPen.endPath, r'points\.append\(\(None, "qcurve"')
    probes.add_site("s2p.merge-last-into-first", pointPen.SegmentToPointPen.closePath, r"del self\.contour\[-1\]")
    probes.add_site("rev.implied-closing-line", reverseContourPen.reversedContour, r'yield "lineTo", \(lastOnCurve,\)')
    probes.add_site("rev.drop-leading-line", reverseContourPen.reversedContour, r"del contour\[0\]")
    probes.add_site("rev.single-point", reverseContourPen.reversedContour, r"closed = False  # single-point")
    probes.add_site("tt.pop-closing-dup", ttGlyphPen.TTGlyphPen.closePath, r"endPt -= 1")
    probes.add_site("tt.anchor", ttGlyphPen.TTGlyphPen.closePath, r"return")
    probes.add_site("dropimplied.may-drop", _g_l_y_f.dropImpliedOnCurvePoints, r"may_drop\.add")


# ---------------------------------------------------------------- harness helpers
class _Glyph:
    """Drawable glyph of a glyph set (harness object, not under test)."""

    def __init__(self, rec):
        self.rec = rec

    def draw(self, pen):
        for op, args in self.rec:
            getattr(pen, op)(*args)

    def drawPoints(self, pen):
        draw_points(O.rec_to_points(self.rec), pen)


def draw(rec, pen):
    for op, args in rec:
        getattr(pen, op)(*args)


def draw_points(prec, pen):
    for ent in prec:
        if ent[0] == "beginPath":
            pen.beginPath(**ent[1])
        elif ent[0] == "endPath":
            pen.endPath()
        elif ent[0] == "addPoint":
            pt, st, smooth, name, ident = ent[1]
            if ident is not None:
                pen.addPoint(pt, st, smooth, name, identifier=ident)
            else:
                pen.addPoint(pt, st, smooth, name)
        elif ent[0] == "addComponent":
            name, t, ident = ent[1]
            if ident is not None:
                pen.addComponent(name, t, identifier=ident)
            else:
                pen.addComponent(name, t)


def rotate_points(prec, rnd, starts=None):
    """Rotate the start of closed contours (a closed point contour may start anywhere,
    also on an off-curve point); decorate some points with names/identifiers.
    starts: optional list of preferred start point types per contour ("curve", "line", "qcurve", None = off-curve,
    "any"), cycled: every contour of a multi-contour glyph gets to start on every point type."""
    out, cur = [], None
    n = 0
    for ent in prec:
        if ent[0] == "beginPath":
            cur = []
            n += 1
            out.append(("beginPath", {"identifier": "c%d" % n} if rnd.random() < 0.3 else {}))
        elif ent[0] == "addPoint":
            cur.append(ent)
        elif ent[0] == "endPath":
            if cur and cur[0][1][1] != "move" and len(cur) > 1:
                k = rnd.randrange(len(cur))
                if starts:
                    want = starts[(n - 1) % len(starts)]
                    cand = [i for i, e in enumerate(cur) if e[1][1] == want] if want != "any" else []
                    if cand:
                        k = rnd.choice(cand)
                cur = cur[k:] + cur[:k]
            for e in cur:
                pt, st, sm, nm, idt = e[1]
                if rnd.random() < 0.2:
                    nm = "p"
                out.append(("addPoint", (pt, st, sm, nm, idt)))
            out.append(ent)
            cur = None
        else:
            out.append(ent)
    return out


def jsonable(rec):
    def cv(v):
        if isinstance(v, F):
            return float(v) if v.denominator != 1 else int(v)
        if isinstance(v, (tuple, list)):
            return [cv(x) for x in v]
        if isinstance(v, dict):
            return {k: cv(x) for k, x in v.items()}
        return v
    return cv(rec)


def frac_bits(v):
    """number of fractional binary digits of a number, None if > 40 or not finite"""
    if isinstance(v, int):
        return 0
    if math.isnan(v) or math.isinf(v):
        return None
    f = F(v)
    d = f.denominator
    b = d.bit_length() - 1
    return b if b <= 40 else None


def exact_product(nums_a, nums_b):
    """True if a*b (+ a few additions) is exact in binary64 for all a in A, b in B."""
    ba = [frac_bits(v) for v in nums_a]
    bb = [frac_bits(v) for v in nums_b]
    if None in ba or None in bb:
        return False
    fa, fb = max(ba, default=0), max(bb, default=0)
    ma = max([abs(v) for v in nums_a] + [1])
    mb = max([abs(v) for v in nums_b] + [1])
    return fa + fb + math.log2(ma) + math.log2(mb) + 3 < 52


def rec_numbers(rec):
    out = []
    for op, args in rec:
        if op == "addComponent":
            out.extend(args[1])
        else:
            for p in args:
                if p is not None:
                    out.extend(p)
    return out


class _SkipSeq(Exception):
    pass


def lib_call(ctx, label, cfg, fn, witness):
    """Run library code; an exception raised inside the library on a valid input is a
    violation for this sequence (the batch goes on)."""
    try:
        return fn()
    except _SkipSeq:
        raise
    except Exception as e:
        if lib_frame(e) is None:
            raise
        mech = exc_mech("pen-calls", e)     # keyed by the library frame that raised, not by the chain
        mech["stage"] = "chain" if label.startswith(("chain:", "pointchain")) else label
        ctx.violation(mech, "%s (%s) raised %s: %s" % (label, cfg, type(e).__name__, str(e)[:200]),
                      {"input": jsonable(witness), "traceback": traceback.format_exception(type(e), e, e.__traceback__)[-8:]})
        _notes["exception/%s:%s" % (mech.get("file"), mech.get("type"))] += 1
        raise _SkipSeq()


def violation(ctx, label, cfg, level, why, cls, what, witness):
    mech = {"kind": "geometry", "adapter": label, "cfg": cfg, "level": level, "why": why, "contour": cls}
    ctx.violation(mech, "%s [%s]: %s (%s; contour class %s)" % (label, cfg, what, why, cls), jsonable(witness))


def split_items(its):
    cs = [i[1] for i in its if i[0] == "contour"]
    comps = [(i[1], i[2]) for i in its if i[0] == "comp"]
    return cs, comps


def judge_rec(ctx, label, cfg, E_rec, G_rec, tol, levels=(1, 2), start=False, drop_points=False, src=None, witness=None):
    """Compare expected record E_rec and observed record G_rec (Fraction records, may contain
    components).  src: the input record canonical contours used to classify the offending contour."""
    Ec, Ek = split_items(O.items(E_rec))
    Gc, Gk = split_items(O.items(G_rec))
    ok_all = True
    for lv in levels:
        ctx.judged()
        ok, why, idx = O.contours_match(Ec, Gc, tol, level=lv, drop_points=drop_points, start=start and lv == levels[-1])
        if not ok:
            ok_all = False
            cls = "?"
            ref = src if src is not None and len(src) == len(Ec) else Ec
            if idx is not None and idx < len(ref):
                cls = O.contour_class(ref[idx])
            violation(ctx, label, cfg, "L%d" % lv, why, cls,
                      "output differs from the documented transform of the input",
                      dict(witness or {}, expected=E_rec, got=G_rec, contour_index=idx))
            break
    ctx.judged()
    bad = None
    if len(Ek) != len(Gk):
        bad = "component count"
    else:
        for (n1, t1), (n2, t2) in zip(Ek, Gk):
            if n1 != n2:
                bad = "component name"
            elif any(abs(a - b) > tol for a, b in zip(t1, t2)):
                bad = "component transform"
            if bad:
                break
    if bad:
        ok_all = False
        violation(ctx, label, cfg, "components", bad, "comp", "components differ from the documented transform",
                  dict(witness or {}, expected=Ek, got=Gk))
    _notes["judged/%s" % label] += 1
    return ok_all


def tol_for(recs, exact):
    if exact:
        return 0
    m = F(1)
    for r in recs:
        for v in rec_numbers(r):
            m = max(m, abs(v))
    return TOL_BITS * m


# ---------------------------------------------------------------- record-level documented transforms (oracle side)
def tau_transform(rec, T):
    return O.map_rec(rec, lambda p: O.apply_T(T, p), comp=lambda n, t: (n, O.compose(T, t)))


def tau_round(rec):
    r = O.rnd_half_up
    return O.map_rec(rec, lambda p: (r(p[0]), r(p[1])), comp=lambda n, t: (n, t[:4] + (r(t[4]), r(t[5]))))


def rec_contours(rec):
    """split a record into chunks: ('comp', entry) or ('contour', [entries])"""
    out, cur = [], None
    for e in rec:
        if e[0] == "addComponent":
            out.append(("comp", e))
            continue
        if cur is None:
            cur = []
        cur.append(e)
        if e[0] in ("closePath", "endPath"):
            out.append(("contour", cur))
            cur = None
    if cur:
        out.append(("contour", cur))
    return out


def tau_reverse(rec):
    """Record-level reversal written from the documentation: direction reversed, a closed
    contour keeps its first point, an open one starts at its former end; off-curve
    points of a segment are traversed in reverse order; components unchanged."""
    out = []
    for kind, chunk in rec_contours(rec):
        if kind == "comp":
            out.append(chunk)
            continue
        end = chunk[-1][0]
        body = chunk[:-1]
        if body and body[0][0] == "qCurveTo" and body[0][1][-1] is None:
            offs = body[0][1][:-1]
            out.append(("qCurveTo", tuple(reversed(offs)) + (None,)))
            out.append(("closePath", ()))
            continue
        if not body:
            out.append(chunk[-1])
            continue
        start = body[0][1][0]
        segs = [(op, args[:-1], args[-1]) for op, args in body[1:]]
        if end == "closePath":
            if not segs:
                out.extend(chunk)
                continue
            if segs[-1][2] != start:
                segs.append(("lineTo", (), start))
            ons = [start] + [s[2] for s in segs]
            out.append(("moveTo", (start,)))
            for i in range(len(segs) - 1, -1, -1):
                op, offs, _ = segs[i]
                out.append((op, tuple(reversed(offs)) + (ons[i],)))
            out.append(("closePath", ()))
        else:
            ons = [start] + [s[2] for s in segs]
            out.append(("moveTo", (ons[-1],)))
            for i in range(len(segs) - 1, -1, -1):
                op, offs, _ = segs[i]
                out.append((op, tuple(reversed(offs)) + (ons[i],)))
            out.append(("endPath", ()))
    return out


def tau_decompose(rec, gs, reverse_flipped=False, include=None, nested=True):
    """Oracle decomposition of components (all, or only those whose base is in `include`)."""
    out = []
    _decomp(rec, gs, None, reverse_flipped, include, nested, False, out, 0)
    return out


def _decomp(rec, gs, T, rf, include, nested, flip, out, depth):
    for kind, chunk in rec_contours(rec):
        if kind == "comp":
            name, t = chunk[1]
            tt = t if T is None else O.compose(T, t)
            if name not in gs:
                continue
            if include is None or name in include:
                f2 = flip
                if rf and O.det(t) < 0:
                    f2 = not flip
                inc2 = None if (nested and include) else include
                _decomp(gs[name], gs, tt, rf, inc2, nested, f2, out, depth + 1)
            else:
                out.append(("addComponent", (name, tt)))
        else:
            c = chunk if T is None else O.map_rec(chunk, lambda p: O.apply_T(T, p))
            if flip:
                c = tau_reverse(c)
            out.extend(c)


# ---------------------------------------------------------------- adapter chains
def _lib_T(T, as_obj):
    from fontTools.misc.transform import Transform
    return Transform(*T) if as_obj else tuple(T)


def gs_numbers(gs_raw):
    out = []
    for r in gs_raw.values():
        out.extend(rec_numbers(r))
    return out


def exact_decomp(rec_raw, gs_raw):
    ts, cs = [], []
    for r in list(gs_raw.values()) + [rec_raw]:
        for op, args in r:
            if op == "addComponent":
                ts.extend(args[1])
            else:
                for p in args:
                    if p is not None:
                        cs.extend(p)
    bt = [frac_bits(v) for v in ts]
    bc = [frac_bits(v) for v in cs]
    if None in bt or None in bc:
        return False
    ft, fc = max(bt, default=0), max(bc, default=0)
    mt = max([abs(v) for v in ts] + [1])
    mc = max([abs(v) for v in cs] + [1])
    return 4 * ft + fc + 4 * math.log2(mt) + math.log2(mc) + 6 < 52


class Node:
    def __init__(self, label, cfg, pen, proto_in, proto_out, spec):
        self.label, self.cfg, self.pen, self.pin, self.pout, self.spec = label, cfg, pen, proto_in, proto_out, spec
        self.down = None        # pen object whose entering stream is this node's output


def build_seg(spec, down, gs_lib):
    """-> (head pen, [Node...]) for one seg-level adapter spec writing into seg pen `down`."""
    from fontTools.pens import transformPen, reverseContourPen, roundingPen, filterPen, teePen, explicitClosingLinePen, pointPen
    k = spec["k"]
    if k == "tf":
        pen = transformPen.TransformPen(down, _lib_T(spec["T"], spec.get("as_obj")))
        n = Node("TransformPen", "obj" if spec.get("as_obj") else "tuple", pen, "seg", "seg", spec)
    elif k == "rev":
        pen = reverseContourPen.ReverseContourPen(down, outputImpliedClosingLine=spec["o"])
        n = Node("ReverseContourPen", "impliedClosingLine=%s" % spec["o"], pen, "seg", "seg", spec)
    elif k == "rnd":
        pen = roundingPen.RoundingPen(down)
        n = Node("RoundingPen", "default", pen, "seg", "seg", spec)
    elif k == "flt":
        c = spec["cls"]
        if c == "TeePen":
            from fontTools.pens.recordingPen import RecordingPen
            spec["_side"] = RecordingPen()
            _keep.append(spec["_side"])
            pen = teePen.TeePen(down, spec["_side"]) if spec.get("two", True) else teePen.TeePen([down])
        elif c == "ExplicitClosingLinePen":
            pen = explicitClosingLinePen.ExplicitClosingLinePen(down)
        else:
            pen = getattr(filterPen, c)(down)
        n = Node(c, "default", pen, "seg", "seg", spec)
    elif k == "dec":
        inc = set(spec["include"]) if spec.get("include") is not None else None
        pen = filterPen.DecomposingFilterPen(down, gs_lib, reverseFlipped=spec["rf"], include=inc, decomposeNested=spec["nested"])
        n = Node("DecomposingFilterPen", "rf=%s,include=%s,nested=%s" % (spec["rf"], inc is not None, spec["nested"]), pen, "seg", "seg", spec)
    elif k == "pt":
        p2s = pointPen.PointToSegmentPen(down, outputImpliedClosingLine=spec["o"])
        n_p2s = Node("PointToSegmentPen", "impliedClosingLine=%s" % spec["o"], p2s, "pt", "seg", {"k": "id"})
        n_p2s.down = down
        nodes = [n_p2s]
        cur = p2s
        for ps in reversed(spec["inner"]):
            cur, nn = build_pt(ps, cur, gs_lib)
            nodes = nn + nodes
        s2p = pointPen.SegmentToPointPen(cur, guessSmooth=spec["g"])
        head = []
        if spec["g"]:
            ng = Node("GuessSmoothPointPen", "default", s2p.pen, "pt", "pt", {"k": "id"})
            ng.down = cur
            head.append(ng)
        ns = Node("SegmentToPointPen", "guessSmooth=%s" % spec["g"], s2p, "seg", "pt", {"k": "id"})
        ns.down = s2p.pen
        _keep.extend([s2p, s2p.pen, p2s])
        return s2p, [ns] + head + nodes
    else:
        raise ValueError(k)
    n.down = down
    _keep.append(pen)
    return pen, [n]


def build_pt(spec, down, gs_lib):
    from fontTools.pens import transformPen, roundingPen, filterPen, pointPen
    k = spec["k"]
    if k == "ptf":
        pen = transformPen.TransformPointPen(down, _lib_T(spec["T"], spec.get("as_obj")))
        n = Node("TransformPointPen", "obj" if spec.get("as_obj") else "tuple", pen, "pt", "pt", spec)
    elif k == "prev":
        pen = pointPen.ReverseContourPointPen(down)
        n = Node("ReverseContourPointPen", "default", pen, "pt", "pt", spec)
    elif k == "prnd":
        pen = roundingPen.RoundingPointPen(down)
        n = Node("RoundingPointPen", "default", pen, "pt", "pt", spec)
    elif k == "pflt":
        pen = getattr(filterPen, spec["cls"])(down)
        n = Node(spec["cls"], "default", pen, "pt", "pt", spec)
    elif k == "pdec":
        inc = set(spec["include"]) if spec.get("include") is not None else None
        pen = filterPen.DecomposingFilterPointPen(down, gs_lib, reverseFlipped=spec["rf"], include=inc, decomposeNested=spec["nested"])
        n = Node("DecomposingFilterPointPen", "rf=%s,include=%s,nested=%s" % (spec["rf"], inc is not None, spec["nested"]), pen, "pt", "pt", spec)
    else:
        raise ValueError(k)
    n.down = down
    _keep.append(pen)
    return pen, [n]


def tau_spec(spec, rec, gs):
    k = spec["k"]
    if k in ("id", "flt", "pflt"):
        return rec
    if k in ("tf", "ptf"):
        return tau_transform(rec, O.norm_T(spec["T"]))
    if k in ("rev", "prev"):
        return tau_reverse(rec)
    if k in ("rnd", "prnd"):
        return tau_round(rec)
    if k in ("dec", "pdec"):
        return tau_decompose(rec, gs, reverse_flipped=bool(spec["rf"]), include=spec.get("include"), nested=spec["nested"])
    if k == "pt":
        for s in spec["inner"]:
            rec = tau_spec(s, rec, gs)
        return rec
    raise ValueError(k)


def spec_exact(spec, nums, rec_raw, gs_raw):
    k = spec["k"]
    if k in ("tf", "ptf"):
        return exact_product(spec["T"], nums)
    if k in ("dec", "pdec"):
        return exact_decomp(rec_raw, gs_raw)
    if k == "pt":
        return all(spec_exact(s, nums, rec_raw, gs_raw) for s in spec["inner"])
    return True


def spec_name(spec):
    k = spec["k"]
    if k == "pt":
        return "pt(%s)" % ",".join(spec_name(s) for s in spec["inner"])
    if k in ("flt", "pflt"):
        return spec["cls"]
    return k


def _stream_rec(pen, proto):
    """(raw record as seen by the monitor, in seg form) for the stream entering pen"""
    if proto == "seg":
        return seg_stream(pen)
    return O.points_to_rec(pt_stream(pen))


def first_points(prec):
    out, first = [], None
    for e in prec:
        if e[0] == "beginPath":
            first = None
        elif e[0] == "addPoint" and first is None:
            first = e[1]
            out.append((e[1][0], e[1][1] == "move"))
    return out


def judge_nodes(ctx, nodes, gs, gs_raw, witness, feats):
    """Per-adapter judgement on the monitored streams."""
    for n in nodes:
        raw_in = _stream_rec(n.pen, n.pin)
        raw_out = _stream_rec(n.down, n.pout)
        try:
            in_rec, out_rec = O.norm_rec(raw_in), O.norm_rec(raw_out)
            E = tau_spec(n.spec, in_rec, gs)
        except (ValueError, TypeError, IndexError):
            ctx.skip("stream-not-canonical:%s" % n.label)
            continue
        k = n.spec["k"]
        nums = rec_numbers(raw_in)
        exact = spec_exact(n.spec, nums, raw_in, gs_raw)
        if k in ("rnd", "prnd"):
            if any(O.near_tie(O.fr(v), F(1, 10 ** 12)) for v in nums):
                ctx.skip("rounding-tie")
                continue
        tol = tol_for([E], exact)
        src = None
        if k not in ("dec", "pdec"):
            try:
                src = [i[1] for i in O.items(in_rec) if i[0] == "contour"]
            except ValueError:
                src = None
        judge_rec(ctx, n.label, n.cfg, E, out_rec, tol, levels=(1, 2), start=(k == "rev"), src=src,
                  witness=dict(witness, adapter_input=raw_in))
        if k == "prev":
            a, b = first_points(pt_stream(n.pen)), first_points(pt_stream(n.down))
            ctx.judged()
            if len(a) == len(b) and any(x[0] != y[0] for x, y in zip(a, b) if not x[1]):
                violation(ctx, n.label, n.cfg, "start", "first point of a closed contour moved", "closed",
                          "ReverseContourPointPen did not keep the first point", dict(witness, first_in=a, first_out=b))
        if k == "pflt" and n.spec["cls"] == "OnCurveFirstPointPen":
            ctx.judged()
            for c in _pt_contours(pt_stream(n.down)):
                if c and c[0][1] is None and c[0][1] != "move" and any(t is not None for _, t in c):
                    violation(ctx, n.label, n.cfg, "start", "closed contour still starts off-curve", "closed",
                              "OnCurveFirstPointPen left an off-curve start", dict(witness))
                    break
        if k == "flt" and n.spec["cls"] == "ExplicitClosingLinePen":
            ctx.judged()
            for kind, chunk in rec_contours(out_rec):
                if kind == "contour" and chunk[-1][0] == "closePath" and len(chunk) > 2 and chunk[0][0] == "moveTo":
                    if chunk[-2][1][-1] != chunk[0][1][0]:
                        violation(ctx, n.label, n.cfg, "explicit", "closed contour does not end on its first point", "closed",
                                  "ExplicitClosingLinePen left an implied closing line", dict(witness, got=out_rec))
                        break
        if k == "flt" and n.spec["cls"] == "TeePen" and n.spec.get("two", True):
            ctx.judged()
            side = O.norm_rec(n.spec["_side"].value)
            if side != out_rec:
                violation(ctx, n.label, n.cfg, "tee", "second pen received another stream", "?", "TeePen outputs differ", dict(witness))
        ctx.nontrivial("%s[%s]|%s" % (n.label, n.cfg, feats))


def _pt_contours(prec):
    out, cur = [], None
    for e in prec:
        if e[0] == "beginPath":
            cur = []
        elif e[0] == "addPoint":
            cur.append((e[1][0], e[1][1]))
        elif e[0] == "endPath":
            out.append(cur)
            cur = None
    return out


def run_chain(ctx, specs, rec_raw, gs_raw, mode, label=None, point_input=None, rnd=None):
    """Feed rec_raw through the adapters `specs` into a RecordingPen; judge every adapter on
    its monitored streams and the chain end to end."""
    from fontTools.pens.recordingPen import RecordingPen
    reset_streams()
    gs_lib = {k: _Glyph(v) for k, v in gs_raw.items()}
    gs = {k: O.norm_rec(v) for k, v in gs_raw.items()}
    out = RecordingPen()
    _keep.append(out)
    head, nodes = out, []
    for s in reversed(specs):
        head, nn = build_seg(s, head, gs_lib)
        nodes = nn + nodes
    name = label or "chain:" + ">".join(spec_name(s) for s in specs)
    witness = {"input": rec_raw, "chain": [{k: v for k, v in s.items() if not k.startswith("_")} for s in specs],
               "glyphset": gs_raw if any(op == "addComponent" for op, _ in rec_raw) else None}
    lib_call(ctx, name if len(specs) > 1 else nodes[0].label, nodes[0].cfg if len(specs) == 1 else "chain",
             lambda: draw(rec_raw, head), witness)
    in_rec = O.norm_rec(rec_raw)
    try:
        src = [i[1] for i in O.items(in_rec) if i[0] == "contour"]
    except ValueError:
        src = []
    has_comp = any(op == "addComponent" for op, _ in rec_raw)
    feats = O.rec_class(src, has_comp, mode in GEN.FRAC_MODES)
    # monitor sanity: what entered the head is what the driver sent
    seen = seg_stream(head)
    if O.norm_rec(seen) != in_rec:
        ctx.inconclusive("monitor stream of the head adapter differs from the driver's input")
        return None
    judge_nodes(ctx, nodes, gs, gs_raw, witness, feats)
    # end to end
    E = in_rec
    exact = True
    inter = [in_rec]
    nums = rec_numbers(rec_raw) + gs_numbers(gs_raw)
    for s in specs:
        if not spec_exact(s, nums, rec_raw, gs_raw):
            exact = False
        kinds = [s["k"]] + [x["k"] for x in s.get("inner", [])]
        if not exact and any(k in ("rnd", "prnd") for k in kinds):
            # rounding after float arithmetic: judge only away from ties
            pre = E
            for x in ([s] if s["k"] != "pt" else s["inner"]):
                if x["k"] in ("rnd", "prnd"):
                    if any(O.near_tie(v) for v in rec_numbers(pre)):
                        ctx.skip("rounding-tie")
                        return out.value
                pre = tau_spec(x, pre, gs)
        E = tau_spec(s, E, gs)
        inter.append(E)
        nums = rec_numbers(E) + gs_numbers(gs_raw)
    G = O.norm_rec(out.value)
    tol = tol_for(inter + [G], exact) * (1 if exact else 64)
    start = all(s["k"] in ("rev", "flt", "tf", "rnd") for s in specs)
    dec = any(s["k"] in ("dec",) or any(x["k"] == "pdec" for x in s.get("inner", [])) for s in specs)
    # Rounding can make distinct points coincide; whether "lineTo(start); closePath" then denotes one point or two
    # depends on where the chain converts between the segment and the point protocol, so the point-preserving
    # level is only asserted per adapter (on its real streams) for such chains, and geometry end to end.
    kinds_all = [s["k"] for s in specs] + [x["k"] for s in specs for x in s.get("inner", [])]
    lv = (1,) if ("pt" in kinds_all and ("rnd" in kinds_all or "prnd" in kinds_all)) else (1, 2)
    judge_rec(ctx, "chain-e2e" if len(specs) > 1 and not label else "e2e:" + (label or nodes[0].label), "e2e", E, G, tol,
              levels=lv, start=start, src=None if dec else src, witness=witness)
    if len(specs) > 1:
        ctx.nontrivial("%s|%s" % (name, feats))
    return out.value


# ---------------------------------------------------------------- families: adapters
def _gen(rnd, comps=False, **kw):
    """-> (record, mode, glyph set) ; the glyph set is drawn from the same coordinate family"""
    gs = {}
    if comps:
        gs = GEN.gen_glyphset(rnd, mode=kw.get("gs_mode"), tkind=kw.get("tkind"),
                              **{k: v for k, v in kw.items() if k in ("quad_only", "closed_only", "integer", "plain_cubic")})
        kw["components"] = sorted(gs)
    kw.pop("gs_mode", None)
    rec, mode = GEN.gen_record(rnd, **kw)
    return rec, mode, gs


def fam_segpoint(rnd, ctx):
    rec, mode, gs = _gen(rnd, comps=rnd.random() < 0.2)
    spec = {"k": "pt", "g": rnd.random() < 0.5, "o": rnd.random() < 0.4, "inner": []}
    run_chain(ctx, [spec], rec, {}, mode)


def fam_transform(rnd, ctx):
    rec, mode, gs = _gen(rnd, comps=rnd.random() < 0.3)
    T = GEN.gen_transform(rnd)
    if rnd.random() < 0.5:
        spec = {"k": "tf", "T": T, "as_obj": rnd.random() < 0.5}
    else:
        spec = {"k": "pt", "g": False, "o": False, "inner": [{"k": "ptf", "T": T, "as_obj": rnd.random() < 0.5}]}
    run_chain(ctx, [spec], rec, {}, mode)


def _area(rec):
    from fontTools.pens.areaPen import AreaPen
    p = AreaPen(None)
    draw(rec, p)
    return p.value


def fam_reverse(rnd, ctx):
    closed_only = rnd.random() < 0.4
    rec, mode, gs = _gen(rnd, comps=(not closed_only and rnd.random() < 0.15), closed_only=closed_only)
    o = rnd.random() < 0.4
    v = rnd.random()
    if v < 0.45:
        specs = [{"k": "rev", "o": o}]
    elif v < 0.7:
        specs = [{"k": "rev", "o": o}, {"k": "rev", "o": rnd.random() < 0.4}]
    elif v < 0.85:
        specs = [{"k": "pt", "g": False, "o": o, "inner": [{"k": "prev"}]}]
    else:
        specs = [{"k": "pt", "g": False, "o": o, "inner": [{"k": "prev"}, {"k": "prev"}]}]
    twice = len(specs) == 2 or len(specs[0].get("inner", [])) == 2
    out = run_chain(ctx, specs, rec, {}, mode, label="reverse-twice" if twice else None)
    if out is None or not closed_only or twice:
        return
    # reversing negates the signed area; AreaPen equals the Green integral
    cs = O.canon(O.norm_rec(rec))
    want = sum((O.contour_area(c) for c in cs), F(0))
    tol = F(1, 10 ** 9) * O.area_scale(cs)
    w = {"input": rec, "reversed": out}
    a1 = lib_call(ctx, "AreaPen", "default", lambda: _area(rec), w)
    a2 = lib_call(ctx, "AreaPen", "default", lambda: _area(out), w)
    # two independent Green integrals must agree (oracle cross-check)
    alt = sum(G0.contour_area(c) for c in G0.canon([(op, tuple(None if a is None else O.fl(a) for a in args)) for op, args in O.norm_rec(rec)]))
    if abs(F(alt) - want) > tol:
        ctx.inconclusive("area oracles disagree")
        return
    ctx.judged(2)
    _notes["judged/AreaPen"] += 2
    if abs(F(a1) - want) > tol:
        violation(ctx, "AreaPen", "default", "area", "area differs from the Green integral", O.rec_class(cs),
                  "AreaPen %r, Green integral %r" % (a1, float(want)), w)
    if abs(F(a2) + want) > tol:
        violation(ctx, "AreaPen", "reversed", "area", "area of the reversed outline is not the negated area", O.rec_class(cs),
                  "AreaPen(reversed) %r, expected %r" % (a2, -float(want)), w)
    ctx.nontrivial("area-negation|" + O.rec_class(cs, False, mode in GEN.FRAC_MODES))


def fam_round(rnd, ctx):
    mode = rnd.choice(["half", "half", "dyadic", "dec", "float", "int"])
    rec, mode, gs = _gen(rnd, comps=rnd.random() < 0.3, mode=mode, tkind=rnd.choice(["dyadic", "float", "offset"]))
    if rnd.random() < 0.6:
        spec = {"k": "rnd"}
    else:
        spec = {"k": "pt", "g": False, "o": False, "inner": [{"k": "prnd"}]}
    out = run_chain(ctx, [spec], rec, {}, mode)
    if out is not None:
        ctx.judged()
        bad = [v for v in rec_numbers([e for e in out if e[0] != "addComponent"]) if not isinstance(v, int)]
        if bad:
            violation(ctx, "RoundingPen" if spec["k"] == "rnd" else "RoundingPointPen", "default", "type",
                      "rounded coordinate is not an int", "?", "coordinates not integers: %r" % bad[:3], {"input": rec})


_SEG_FILTERS = ["FilterPen", "ContourFilterPen", "ExplicitClosingLinePen", "TeePen"]
_PT_FILTERS = ["FilterPointPen", "ContourFilterPointPen", "OnCurveFirstPointPen"]


def _dec_spec(rnd, point):
    inc = rnd.choice([None, None, ["a"], ["c"], ["a", "c", "d"], []])
    rf = rnd.choice([False, True]) if not point else rnd.choice([False, True, "on_curve_first"])
    return {"k": "pdec" if point else "dec", "rf": rf, "include": inc, "nested": rnd.random() < 0.6}


def fam_filter(rnd, ctx):
    v = rnd.random()
    if v < 0.5:
        rec, mode, gs = _gen(rnd, comps=rnd.random() < 0.2)
        if rnd.random() < 0.55:
            spec = {"k": "flt", "cls": rnd.choice(_SEG_FILTERS), "two": rnd.random() < 0.8}
        else:
            spec = {"k": "pt", "g": rnd.random() < 0.3, "o": False, "inner": [{"k": "pflt", "cls": rnd.choice(_PT_FILTERS)}]}
        run_chain(ctx, [spec], rec, {}, mode)
    else:
        mode = rnd.choice(["grid", "int", "int", "dyadic", "dec", "float"])
        rec, mode, gs = _gen(rnd, comps=True, mode=mode, gs_mode=mode)
        point = rnd.random() < 0.45
        d = _dec_spec(rnd, point)
        spec = d if not point else {"k": "pt", "g": False, "o": False, "inner": [d]}
        run_chain(ctx, [spec], rec, gs, mode)


def fam_pointnative(rnd, ctx):
    """Point-pen input whose closed contours start anywhere (also on an off-curve point)."""
    from fontTools.pens.recordingPen import RecordingPointPen
    rec, mode, gs_raw = _gen(rnd, comps=rnd.random() < 0.3)
    prec = rotate_points(O.rec_to_points(rec), rnd)
    reset_streams()
    gs_lib = {k: _Glyph(v) for k, v in gs_raw.items()}
    gs = {k: O.norm_rec(v) for k, v in gs_raw.items()}
    out = RecordingPointPen()
    _keep.append(out)
    n = rnd.choice([1, 1, 2, 3])
    specs = []
    for _ in range(n):
        k = rnd.choice(["ptf", "prev", "prnd", "pflt", "pdec"])
        if k == "ptf":
            specs.append({"k": k, "T": GEN.gen_transform(rnd), "as_obj": rnd.random() < 0.5})
        elif k == "pflt":
            specs.append({"k": k, "cls": rnd.choice(_PT_FILTERS)})
        elif k == "pdec":
            if not gs_raw:
                continue
            specs.append(_dec_spec(rnd, True))
        else:
            specs.append({"k": k})
    if not specs:
        specs = [{"k": "prev"}]
    head, nodes = out, []
    for s in reversed(specs):
        head, nn = build_pt(s, head, gs_lib)
        nodes = nn + nodes
    witness = {"point_input": prec, "chain": specs, "glyphset": gs_raw or None}
    lib_call(ctx, nodes[0].label if len(nodes) == 1 else "pointchain", nodes[0].cfg if len(nodes) == 1 else "chain",
             lambda: draw_points(prec, head), witness)
    src = [i[1] for i in O.items(O.norm_rec(rec)) if i[0] == "contour"]
    feats = O.rec_class(src, bool(gs_raw), mode in GEN.FRAC_MODES) + "+rot"
    # the recorder's own value must equal its monitored stream (RecordingPointPen records verbatim)
    ctx.judged()
    if _norm_pt(O.norm_prec(out.value)) != _norm_pt(pt_stream(out)):
        violation(ctx, "RecordingPointPen", "default", "record", "recorded value differs from the calls received", "?",
                  "RecordingPointPen.value is not the call stream", witness)
    judge_nodes(ctx, nodes, gs, gs_raw, witness, feats)


def _norm_pt(prec):
    """point record (raw or Fraction) -> comparable normal form"""
    out = []
    for e in prec:
        if e[0] == "addComponent":
            out.append(("addComponent", (e[1][0], O.norm_T(e[1][1]), e[1][2])))
        elif e[0] == "addPoint":
            out.append(("addPoint", (O.P(e[1][0]),) + tuple(e[1][1:])))
        elif e[0] == "beginPath":
            out.append(("beginPath", {k: v for k, v in e[1].items() if v is not None}))
        else:
            out.append(("endPath",))
    return out


def fam_record(rnd, ctx):
    from fontTools.pens.recordingPen import (RecordingPen, RecordingPointPen, DecomposingRecordingPen,
                                             DecomposingRecordingPointPen, replayRecording)
    rec, mode, gs_raw = _gen(rnd, comps=rnd.random() < 0.6, gs_mode=None)
    reset_streams()
    w = {"input": rec}
    r1, r2, r3 = RecordingPen(), RecordingPen(), RecordingPen()
    lib_call(ctx, "RecordingPen", "replay", lambda: (draw(rec, r1), r1.replay(r2), replayRecording(r1.value, r3)), w)
    ctx.judged(2)
    _notes["judged/RecordingPen"] += 1
    want = [(op, tuple(args)) for op, args in rec]
    for nm, r in (("value", r1), ("replay", r2), ("replayRecording", r3)):
        got = [(op, tuple(args)) for op, args in r.value]
        if got != want:
            violation(ctx, "RecordingPen", nm, "record", "recording differs from the calls", "?", "RecordingPen %s differs" % nm, dict(w, got=r.value))
    prec = rotate_points(O.rec_to_points(rec), rnd)
    p1, p2 = RecordingPointPen(), RecordingPointPen()
    lib_call(ctx, "RecordingPointPen", "replay", lambda: (draw_points(prec, p1), p1.replay(p2)), w)
    ctx.judged()
    if p1.value != p2.value or _norm_pt(O.norm_prec(p1.value)) != _norm_pt(prec):
        violation(ctx, "RecordingPointPen", "replay", "record", "recording differs from the calls", "?", "RecordingPointPen replay differs", dict(w, got=p1.value))
    src = [i[1] for i in O.items(O.norm_rec(rec)) if i[0] == "contour"]
    feats = O.rec_class(src, bool(gs_raw), mode in GEN.FRAC_MODES)
    ctx.nontrivial("RecordingPen|" + feats)
    if not gs_raw:
        return
    gs_lib = {k: _Glyph(v) for k, v in gs_raw.items()}
    gs = {k: O.norm_rec(v) for k, v in gs_raw.items()}
    exact = exact_decomp(rec, gs_raw)
    w = {"input": rec, "glyphset": gs_raw}
    for rf in (False, True):
        E = tau_decompose(O.norm_rec(rec), gs, reverse_flipped=rf)
        d = DecomposingRecordingPen(gs_lib, reverseFlipped=rf)
        lib_call(ctx, "DecomposingRecordingPen", "rf=%s" % rf, lambda: draw(rec, d), w)
        judge_rec(ctx, "DecomposingRecordingPen", "rf=%s" % rf, E, O.norm_rec(d.value), tol_for([E], exact), witness=w)
        ctx.nontrivial("DecomposingRecordingPen[rf=%s]|%s" % (rf, feats))
    for rf in (False, True, "on_curve_first"):
        E = tau_decompose(O.norm_rec(rec), gs, reverse_flipped=bool(rf))
        d = DecomposingRecordingPointPen(gs_lib, reverseFlipped=rf)
        lib_call(ctx, "DecomposingRecordingPointPen", "rf=%s" % rf, lambda: draw_points(prec, d), w)
        got = O.norm_rec(O.points_to_rec(O.norm_prec(d.value)))
        judge_rec(ctx, "DecomposingRecordingPointPen", "rf=%s" % rf, E, got, tol_for([E], exact), witness=w)
        ctx.nontrivial("DecomposingRecordingPointPen[rf=%s]|%s" % (rf, feats))


def _rand_spec(rnd, has_gs):
    k = rnd.choice(["tf", "tf", "rev", "rnd", "flt", "pt", "pt", "dec"] if has_gs else ["tf", "tf", "rev", "rnd", "flt", "pt", "pt"])
    if k == "tf":
        return {"k": "tf", "T": GEN.gen_transform(rnd), "as_obj": rnd.random() < 0.5}
    if k == "rev":
        return {"k": "rev", "o": rnd.random() < 0.4}
    if k == "rnd":
        return {"k": "rnd"}
    if k == "flt":
        return {"k": "flt", "cls": rnd.choice(_SEG_FILTERS), "two": True}
    if k == "dec":
        return _dec_spec(rnd, False)
    inner = []
    for _ in range(rnd.choice([0, 1, 1, 2])):
        q = rnd.choice(["ptf", "prev", "prnd", "pflt"] + (["pdec"] if has_gs else []))
        if q == "ptf":
            inner.append({"k": q, "T": GEN.gen_transform(rnd), "as_obj": rnd.random() < 0.5})
        elif q == "pflt":
            inner.append({"k": q, "cls": rnd.choice(_PT_FILTERS)})
        elif q == "pdec":
            inner.append(_dec_spec(rnd, True))
        else:
            inner.append({"k": q})
    return {"k": "pt", "g": rnd.random() < 0.3, "o": rnd.random() < 0.3, "inner": inner}


def fam_chain(rnd, ctx):
    has_gs = rnd.random() < 0.35
    mode = rnd.choice(["grid", "int", "int", "half", "dyadic", "dec", "float"])
    rec, mode, gs = _gen(rnd, comps=has_gs, mode=mode, gs_mode=mode)
    n = rnd.choice([2, 2, 3, 4])
    specs = [_rand_spec(rnd, has_gs) for _ in range(n)]
    run_chain(ctx, specs, rec, gs, mode)


# ---------------------------------------------------------------- cases / run_case
FAMILIES = {}


def cases(tier, seed):
    global CHUNK
    T = tier == "thorough"
    CHUNK = 20 if T else 6       # worker start-up (imports without .pyc + monitor attachment) costs ~2 s
    plan = [  # family, batches quick, batches thorough, sequences per batch
        ("segpoint", 8, 40, 200), ("transform", 6, 32, 200), ("reverse", 8, 48, 200), ("round", 5, 28, 200),
        ("filter", 8, 40, 150), ("pointnative", 6, 32, 150), ("record", 4, 20, 120), ("chain", 12, 80, 120),
        ("ttglyph", 10, 56, 150), ("t2", 8, 48, 120), ("measure", 8, 40, 150), ("svg", 6, 32, 150), ("algebra", 3, 12, 400),
        ("svgparse", 4, 20, 300), ("measure2", 4, 20, 120),
    ]
    out = []
    for fam, q, t, n in plan:
        if fam not in FAMILIES:
            continue
        for i in range(t if T else q):
            out.append({"id": "%s:%03d" % (fam, i), "family": fam, "n": n, "seed": seed})
    return out


def run_case(case, ctx):
    _notes.clear()
    _cur["n"] = 0
    _cur["ctx"] = ctx
    rnd = random.Random("%s/%s" % (case["id"], case["seed"]))
    fam = FAMILIES[case["family"]]
    done = 0
    for i in range(case["n"]):
        try:
            fam(rnd, ctx)
            done += 1
        except _SkipSeq:
            pass
    reset_streams()
    ctx.judged(_cur["n"])
    for k, v in _notes.items():
        ctx.note(k, v)
    ctx.note("sequences/%s" % case["family"], done)
    ctx.sample = {"case": case["id"], "sequences": done, "monitor_postconditions": _cur["n"],
                  "notes": dict(sorted(_notes.items())[:12])}


FAMILIES.update({"segpoint": fam_segpoint, "transform": fam_transform, "reverse": fam_reverse, "round": fam_round,
                 "filter": fam_filter, "pointnative": fam_pointnative, "record": fam_record, "chain": fam_chain})


# ---------------------------------------------------------------- families: glyph builders
F2 = F(1, 16384)
MAX_F2DOT14 = F(0x7FFF, 1 << 14)


def _f2dot14(v):
    return O.rnd_half_up(v * 16384) / 16384


def _tt_expected(rec, gs, point_pen):
    """-> (kind, value): ('composite', [(name, T)...]) or ('simple', record) per the TTGlyphPen docstring.
    TTGlyphPen ignores one-point paths ("anchors"), so they do not count as contours there."""
    comps = [a for op, a in rec if op == "addComponent"]
    has_contours = False
    for kind, chunk in rec_contours(rec):
        if kind != "contour":
            continue
        npts = sum(len([a for a in args if a is not None]) for op, args in chunk)
        if npts > 1 or (point_pen and npts == 1):
            has_contours = True
    overflow = any(v > 2 or v < -2 for n, t in comps for v in t[:4])
    if comps and not has_contours and not overflow:
        out = []
        for n, t in comps:
            if n not in gs:
                continue
            q = tuple(_f2dot14(v) for v in t[:4])
            q = tuple(MAX_F2DOT14 if MAX_F2DOT14 < v <= 2 else v for v in q)
            out.append((n, q + (O.rnd_half_up(t[4]), O.rnd_half_up(t[5]))))
        return "composite", out
    flat = tau_decompose(rec, gs)
    return "simple", flat


def fam_ttglyph(rnd, ctx):
    from fontTools.pens.ttGlyphPen import TTGlyphPen, TTGlyphPointPen
    from fontTools.pens.recordingPen import RecordingPen, RecordingPointPen
    variant = rnd.choice(["quad", "quad", "quad", "cubic", "frac", "comp", "comp"])
    kw = dict(quad_only=variant != "cubic", implied_mid=True)
    if variant == "cubic":
        kw["plain_cubic"] = True
    if variant == "frac":
        kw["mode"] = rnd.choice(["half", "dyadic", "dec", "float"])
    else:
        kw["mode"] = rnd.choice(["grid", "int", "int"])
    comps = variant == "comp"
    tkind = rnd.choice(["f2dot14", "f2dot14", "dyadic", "int", "offset", "float"]) if comps else None
    rec, mode, gs_raw = _gen(rnd, comps=comps, gs_mode=kw["mode"], tkind=tkind, **kw)
    point = rnd.random() < 0.4
    o = (not point) and rnd.random() < 0.3
    integer = mode in GEN.INT_MODES and (not comps or tkind in ("int", "offset"))
    drop = integer and rnd.random() < 0.5
    label = "TTGlyphPointPen" if point else "TTGlyphPen"
    cfg = "%s,impliedClosingLine=%s,dropImplied=%s" % (variant, o, drop)
    reset_streams()
    gs_lib = {k: _Glyph(v) for k, v in gs_raw.items()}
    gs = {k: O.norm_rec(v) for k, v in gs_raw.items()}
    w = {"input": rec, "glyphset": gs_raw or None, "cfg": cfg}
    pen = TTGlyphPointPen(gs_lib) if point else TTGlyphPen(gs_lib, outputImpliedClosingLine=o)
    _keep.append(pen)

    def build():
        if point:
            kinds = ["curve", "line", "qcurve", None, "any"]
            rnd.shuffle(kinds)
            draw_points(rotate_points(O.rec_to_points(rec), rnd, starts=kinds if rnd.random() < 0.7 else None), pen)
        else:
            draw(rec, pen)
        return pen.glyph(dropImpliedOnCurves=drop)

    glyph = lib_call(ctx, label, cfg, build, w)
    in_rec = O.norm_rec(rec)
    kind, exp = _tt_expected(in_rec, gs, point)
    src = [i[1] for i in O.items(in_rec) if i[0] == "contour"]
    feats = O.rec_class(src, comps, mode in GEN.FRAC_MODES)
    r = RecordingPen()
    lib_call(ctx, "Glyph.draw", cfg, lambda: glyph.draw(r, None), w)
    rp = RecordingPointPen()
    lib_call(ctx, "Glyph.drawPoints", cfg, lambda: glyph.drawPoints(rp, None), w)
    if kind == "composite":
        ctx.judged()
        if not glyph.isComposite():
            violation(ctx, label, cfg, "components", "glyph is not composite", "comp", "components were not kept", w)
            return
        E = [("addComponent", c) for c in exp]
        judge_rec(ctx, label + "+Glyph.draw", cfg, E, O.norm_rec(r.value), 0, witness=w)
        judge_rec(ctx, label + "+Glyph.drawPoints", cfg, E, O.norm_rec(O.points_to_rec(O.norm_prec(rp.value))), 0, witness=w)
        ctx.nontrivial("%s[composite]|%s" % (label, feats))
        return
    exact = (not comps) or exact_decomp(rec, gs_raw)
    if not exact and any(O.near_tie(v) for v in rec_numbers(exp)):
        ctx.skip("rounding-tie")
        return
    E = tau_round(exp)
    Ec = [O.close_contour(c) for c in O.canon(E)]
    ctx.judged()
    if glyph.isComposite():
        violation(ctx, label, cfg, "components", "glyph is composite but must be decomposed", "comp", "components kept although contours/overflow present", w)
        return
    data = ([tuple(p) for p in glyph.coordinates], list(glyph.flags), list(glyph.endPtsOfContours))
    try:
        G = O.canon(O.glyf_to_rec(*data))
    except (IndexError, ValueError):
        ctx.judged()
        violation(ctx, label, cfg, "data", "cubic off-curve flags are not in pairs / mixed", "?", "glyph data cannot be interpreted", dict(w, glyph=data))
        return
    # 1. the glyph data (interpreted by the spec-written reader) is the rounded, closed input
    any_open = any(not c["closed"] for c in src)
    # (rounding fractional coordinates can make the last point coincide with the first: whether that is one point or
    #  two depends on the protocol, so the point-preserving level is only asserted on integer input)
    levels = (1,) if (drop or o or comps or any_open or mode in GEN.FRAC_MODES) else (1, 2)
    ok = True
    for lv in levels:
        ctx.judged()
        good, why, idx = O.contours_match(Ec, G, 0, level=lv, drop_points=True, ordered=not comps)
        if not good:
            ok = False
            cls = O.contour_class(Ec[idx]) if (idx is not None and idx < len(Ec)) else "?"
            violation(ctx, label, cfg, "L%d" % lv, why, cls, "glyph outline differs from the rounded input", dict(w, glyph=data, contour_index=idx))
            break
    _notes["judged/%s" % label] += 1
    # 2. Glyph.draw / drawPoints reproduce the glyph data
    if not ok:
        return
    # glyf v1 data with more than two consecutive cubic off-curves (implied cubic on-curves, only produced by
    # dropImpliedOnCurves here) has no defined PointPen reading (a PointPen "curve" with > 2 off-curves is a
    # super-Bezier): Glyph.drawPoints is then not judged
    fl_ = data[1]
    run = mx = 0
    for f_ in fl_ + fl_:
        run = run + 1 if (f_ & O.CUBIC and not f_ & O.ON) else 0
        mx = max(mx, run)
    for nm, got in (("Glyph.draw", O.norm_rec(r.value)), ("Glyph.drawPoints", O.norm_rec(O.points_to_rec(O.norm_prec(rp.value))))):
        if nm == "Glyph.drawPoints" and mx > 2:
            ctx.skip("drawPoints of implied cubic on-curves")
            continue
        # Glyph.draw documents "Skip a final lineTo(), as it is implied by pen.closePath()" (geometry only);
        # Glyph.drawPoints documents "this will not change the point indices" (every point kept)
        for lv in ((1,) if nm == "Glyph.draw" else (1, 2)):
            ctx.judged()
            good, why, idx = O.contours_match(G, O.canon(got), 0, level=lv)
            if not good:
                violation(ctx, nm, cfg, "L%d" % lv, why, O.contour_class(G[idx]) if idx is not None and idx < len(G) else "?",
                          "drawn outline differs from the glyph data", dict(w, glyph=data, drawn=got))
                break
        _notes["judged/%s" % nm] += 1
    ctx.nontrivial("%s[%s]|%s" % (label, cfg, feats))


def _hausdorff_np(a, b, per_seg_a, per_seg_b):
    """symmetric Hausdorff distance between the sampled polylines (points to segments), vectorised"""
    import numpy as np
    Pa, Pb = np.array(G0.polyline(a, per_seg_a)), np.array(G0.polyline(b, per_seg_b))

    def directed(P, Q):
        A, B = Q[:-1], Q[1:]
        d = B - A
        L = (d * d).sum(1)
        L[L == 0] = 1.0
        t = ((P[:, None, :] - A[None]) * d[None]).sum(2) / L[None]
        t = np.clip(t, 0.0, 1.0)
        proj = A[None] + t[:, :, None] * d[None]
        dist = np.sqrt(((P[:, None, :] - proj) ** 2).sum(2))
        return dist.min(1).max()

    return float(max(directed(Pa, Pb), directed(Pb, Pa)))


def fam_tt_cu2qu(rnd, ctx):
    """composition: cubic input -> Cu2QuPen -> TTGlyphPen (cu2qu tolerance applies)"""
    from fontTools.pens.ttGlyphPen import TTGlyphPen
    from fontTools.pens.cu2quPen import Cu2QuPen
    from fontTools.pens.recordingPen import RecordingPen
    rec, mode, _ = _gen(rnd, mode="small", closed_only=True, blob=False, single=False)
    max_err = rnd.choice([0.5, 1.0, 2.0])
    reset_streams()
    w = {"input": rec, "max_err": max_err}
    pen = TTGlyphPen(None)

    def build():
        draw(rec, Cu2QuPen(pen, max_err))
        return pen.glyph()

    glyph = lib_call(ctx, "Cu2QuPen>TTGlyphPen", "max_err=%s" % max_err, build, w)
    r = RecordingPen()
    glyph.draw(r, None)
    flt = lambda rr: [(op, tuple(None if a is None else O.fl(a) for a in args)) for op, args in rr]
    A = G0.nondegenerate(G0.canon(flt(O.norm_rec(rec))))
    B = G0.nondegenerate(G0.canon(flt(O.norm_rec(r.value))))
    ctx.judged()
    # budget: cu2qu error + rounding of each point by <= 0.5 per axis (0.71) + polyline discretisation
    # (48 samples per segment on both sides, coordinates within +-200: sagitta <= L*theta/(8 n^2) ~ 600*6.3/18432 = 0.2)
    # (loops can turn by 2 pi: 0.4) -> 0.5 allowed
    budget = max_err + 0.71 + 0.5
    why = ""
    if len(A) != len(B):
        # rounding may collapse a tiny contour: only compare when the counts agree
        ctx.skip("cu2qu: contour collapsed by rounding")
        return
    for a, b in zip(A, B):
        h = _hausdorff_np(a, b, 48, 48)
        if h > budget:
            why = "hausdorff %.3f > %.3f" % (h, budget)
            break
    if why:
        violation(ctx, "Cu2QuPen>TTGlyphPen", "max_err", "hausdorff", "distance above max_err + rounding budget", "?",
                  "quadratic glyph is too far from the cubic input: %s" % why, dict(w, drawn=r.value))
    ctx.nontrivial("Cu2QuPen>TTGlyphPen|" + O.rec_class(O.canon(O.norm_rec(rec))))


def fam_t2(rnd, ctx):
    from fontTools.pens.t2CharStringPen import T2CharStringPen
    from fontTools.pens.recordingPen import RecordingPen
    from fontTools.misc.psCharStrings import T2CharString
    from fontTools.cffLib import PrivateDict
    comps = rnd.random() < 0.25
    mode = rnd.choice(["grid", "int", "int", "half", "dyadic", "dec", "float"])
    tkind = rnd.choice(["int", "dyadic", "offset", "float"]) if comps else None
    rec, mode, gs_raw = _gen(rnd, comps=comps, mode=mode, gs_mode=mode, tkind=tkind, touch=0.5)
    rtol = rnd.choice([0.5, 0.5, 0.5, 0, 0.25, 0.1])
    cff2 = rnd.random() < 0.3
    optimize = rnd.random() < 0.7
    cfg = "roundTolerance=%s,CFF2=%s,optimize=%s" % (rtol, cff2, optimize)
    reset_streams()
    gs_lib = {k: _Glyph(v) for k, v in gs_raw.items()}
    gs = {k: O.norm_rec(v) for k, v in gs_raw.items()}
    w = {"input": rec, "glyphset": gs_raw or None, "cfg": cfg}
    pen = T2CharStringPen(None if cff2 else rnd.choice([None, 500, 612.4]), gs_lib, roundTolerance=rtol, CFF2=cff2)
    _keep.append(pen)
    priv = PrivateDict()

    def build():
        draw(rec, pen)
        return pen.getCharString(private=priv, optimize=optimize)

    cs = lib_call(ctx, "T2CharStringPen", cfg, build, w)
    r = RecordingPen()
    lib_call(ctx, "T2CharString.draw", cfg, lambda: cs.draw(r), w)
    in_rec = O.norm_rec(rec)
    flat = tau_decompose(in_rec, gs)
    cq = O.canon(flat)
    cs0 = [O.elevate_contour(c) for c in cq]
    allnums = [v for p in O.all_points(cs0) for v in p]
    tolF = F(rtol)
    inexact = comps or any(frac_bits(v) is None or frac_bits(v) > 20 for v in rec_numbers(rec) + gs_numbers(gs_raw))
    eps = F(1, 10 ** 9)
    amb = set()
    if rtol:
        raw_pts = set()
        for op, args in flat:
            raw_pts.update(a for a in args if a is not None)

        def tie(v):
            return abs((v - v.__floor__()) - O.HALF) <= eps

        def band(v):
            return 0 < tolF < O.HALF and abs(abs(O.rnd_half_up(v) - v) - tolF) <= eps

        # Points the pen computes with 1/3 or 2/3 factors (quadratic elevation, super-Bezier split) - or from
        # inexact operands - may sit a hair off a tie in floating point; raw points and midpoints of dyadic
        # operands are exact in binary64 and are judged also on ties.
        def dyadic(p):
            return all(frac_bits(v) is not None and frac_bits(v) <= 12 for v in p)

        for c, ce in zip(cq, cs0):
            for s_, se in zip(c["segs"], ce["segs"]):
                if s_[0] == "l":
                    pts = [(p, not inexact) for p in s_[1:]]
                elif s_[0] == "q":
                    # end points: raw or midpoints of the spline (exact for dyadic operands); the elevated handles use 2/3
                    pts = [(s_[1], not inexact and dyadic(s_[1])), (s_[3], not inexact and dyadic(s_[3])), (se[2], False), (se[3], False)]
                else:
                    # plain cubic: raw points; pieces of a super-Bezier (1/3 factors, also at the joins): computed
                    pts = [(p, not inexact and p in raw_pts) for p in s_[1:]]
                for p, float_exact in pts:
                    for v in p:
                        if band(v):
                            ctx.skip("rounding-tolerance-boundary")
                            return
                        if not float_exact and tie(v):
                            amb.add(v)
    rf0 = (lambda v: O.maybe_round(v, tolF)) if rtol else (lambda v: v)
    rf = (lambda v: O.Amb(v.__floor__() + O.HALF) if v in amb else rf0(v)) if amb else rf0
    Ec = [O.close_contour(O.map_contour(c, lambda p: (rf(p[0]), rf(p[1])))) for c in cs0]
    G = O.canon(O.norm_rec(r.value))
    if optimize:
        # specializeCommands (C12's subject) merges adjacent same-axis lines and demotes curves with two
        # zero-length handles to lines: compare modulo exactly that
        Ec = [_t2_normal(c) for c in Ec]
        G = [_t2_normal(c) for c in G]
    all_int = not amb and all(v.denominator == 1 for c in Ec for p in O.all_points([c]) for v in p)
    m = O.magnitude(Ec)
    n_pts = sum(len(c["segs"]) for c in Ec) * 3 + 4
    tol = 0 if all_int else TOL_BITS * m * n_pts      # relative coordinates are re-summed: one rounding per point
    src = [i[1] for i in O.items(in_rec) if i[0] == "contour"]
    ctx.judged()
    ok, why, idx = O.contours_match(Ec, G, tol, level=1, drop_points=True)
    _notes["judged/T2CharStringPen"] += 1
    if not ok and amb:
        ctx.skip("rounding-tie")
    elif not ok:
        cls = O.contour_class(src[idx]) if (not comps and idx is not None and idx < len(src)) else "?"
        violation(ctx, "T2CharStringPen", cfg, "L1", why, cls, "charstring outline differs from the rounded input",
                  dict(w, program=[x if not isinstance(x, bytes) else x.decode() for x in cs.program], drawn=r.value, contour_index=idx))
    elif all_int and not cff2 and m < 8000:      # T2 operands: int16 (wider values are stored as 16.16, C15's subject)
        # compile -> decompile must draw the same integers
        def recompile():
            cs.compile()
            c2 = T2CharString(bytecode=cs.bytecode, private=priv)
            r2 = RecordingPen()
            c2.draw(r2)
            return r2.value
        v2 = lib_call(ctx, "T2CharString.compile", cfg, recompile, w)
        ctx.judged()
        G2 = O.canon(O.norm_rec(v2))
        if optimize:
            G2 = [_t2_normal(c) for c in G2]
        ok, why, idx = O.contours_match(G, G2, 0, level=1)
        if not ok:
            violation(ctx, "T2CharString.compile", cfg, "L1", why, "?", "compiled charstring draws another outline", dict(w, drawn=v2))
    ctx.nontrivial("T2[%s]|%s" % (cfg, O.rec_class(src, comps, mode in GEN.FRAC_MODES)))


def _t2_normal(c):
    d = dict(c)
    segs = []
    for s_ in c["segs"]:
        if s_[0] == "c" and s_[1] == s_[2] and s_[3] == s_[4]:
            s_ = ("l", s_[1], s_[4])
        if s_[0] == "l" and segs and segs[-1][0] == "l":
            a, b = segs[-1], s_
            if (a[1][1] == a[2][1] == b[2][1]) or (a[1][0] == a[2][0] == b[2][0]):
                segs[-1] = ("l", a[1], b[2])
                continue
        segs.append(s_)
    d["segs"] = segs
    return d


FAMILIES.update({"ttglyph": lambda rnd, ctx: fam_tt_cu2qu(rnd, ctx) if rnd.random() < 0.03 else fam_ttglyph(rnd, ctx), "t2": fam_t2})


# ---------------------------------------------------------------- families: measuring pens, SVG, algebra
def fam_measure(rnd, ctx):
    from fontTools.pens.boundsPen import BoundsPen, ControlBoundsPen
    from fontTools.pens.areaPen import AreaPen
    from fontTools.misc import bezierTools
    comps = rnd.random() < 0.25
    mode = rnd.choice(["grid", "int", "int", "half", "dyadic", "dec", "float"])
    rec, mode, gs_raw = _gen(rnd, comps=comps, mode=mode, gs_mode=mode, tkind=rnd.choice(["int", "dyadic", "float", "rot", "flip"]) if comps else None)
    reset_streams()
    gs_lib = {k: _Glyph(v) for k, v in gs_raw.items()}
    gs = {k: O.norm_rec(v) for k, v in gs_raw.items()}
    in_rec = O.norm_rec(rec)
    flat = tau_decompose(in_rec, gs)
    cs = O.canon(flat)
    m = float(O.magnitude(cs))
    tol = 1e-9 * max(1.0, m)
    w = {"input": rec, "glyphset": gs_raw or None}
    feats = O.rec_class(cs if not comps else [], comps, mode in GEN.FRAC_MODES)
    ign = rnd.random() < 0.4
    cfg = "ignoreSinglePoints=%s" % ign

    def bounds():
        b, c = BoundsPen(gs_lib, ignoreSinglePoints=ign), ControlBoundsPen(gs_lib, ignoreSinglePoints=ign)
        _keep.extend([b, c])
        draw(rec, b)
        draw(rec, c)
        return b.bounds, c.bounds

    got_b, got_c = lib_call(ctx, "BoundsPen", cfg, bounds, w)
    want_b = O.contours_bounds(cs, ignore_single=ign)
    want_c = O.contours_bounds(cs, ignore_single=ign, control=True)
    for nm, got, want in (("BoundsPen", got_b, want_b), ("ControlBoundsPen", got_c, want_c)):
        ctx.judged()
        _notes["judged/%s" % nm] += 1
        if (got is None) != (want is None):
            violation(ctx, nm, cfg, "bounds", "bounds None-ness differs", feats, "%s bounds %r, expected %r" % (nm, got, want), w)
        elif got is not None and any(abs(float(x) - y) > tol for x, y in zip(got, want)):
            violation(ctx, nm, cfg, "bounds", "bounds differ from the extrema" if nm == "BoundsPen" else "control bounds differ from min/max of the points",
                      feats, "%s bounds %r, expected %r" % (nm, tuple(got), want), w)
    if got_b is not None and got_c is not None:
        ctx.judged(2)
        if not (got_c[0] <= got_b[0] + tol and got_c[1] <= got_b[1] + tol and got_c[2] >= got_b[2] - tol and got_c[3] >= got_b[3] - tol):
            violation(ctx, "BoundsPen", cfg, "consistency", "bounds not inside control bounds", feats, "bounds %r control bounds %r" % (got_b, got_c), w)
        use = [c for c in cs if not (ign and c["has_move"] and len(c["raw"]) <= 2 and not c["segs"])]
        for x, y in O.sample_points(use):
            if not (got_b[0] - tol <= x <= got_b[2] + tol and got_b[1] - tol <= y <= got_b[3] + tol):
                violation(ctx, "BoundsPen", cfg, "consistency", "a point of the outline lies outside the bounds", feats,
                          "point (%r, %r) outside %r" % (x, y, got_b), w)
                break
    ctx.nontrivial("Bounds[%s]|%s" % (cfg, feats))
    # area: closed contours only
    if all(c["closed"] for c in cs) and cs:
        want = sum((O.contour_area(c) for c in cs), F(0))
        atol = F(1, 10 ** 9) * O.area_scale(cs)

        def area():
            p = AreaPen(gs_lib)
            _keep.append(p)
            draw(rec, p)
            return p.value

        a = lib_call(ctx, "AreaPen", "default", area, w)
        alt = sum(G0.contour_area(c) for c in G0.canon([(op, tuple(None if q is None else O.fl(q) for q in args)) for op, args in flat]))
        if abs(F(alt) - want) > atol:
            ctx.inconclusive("area oracles disagree")
        else:
            ctx.judged()
            _notes["judged/AreaPen"] += 1
            if abs(F(a) - want) > atol:
                violation(ctx, "AreaPen", "default", "area", "area differs from the Green integral", feats,
                          "AreaPen %r, Green integral %r" % (a, float(want)), w)
            ctx.nontrivial("Area|" + feats)
    # direct calls of the bounds functions (judged by their post-condition monitors)
    for c in cs[:2]:
        for s_ in c["segs"][:4]:
            if s_[0] == "q":
                bezierTools.calcQuadraticBounds(*[O.fl(p) for p in s_[1:]])
            elif s_[0] == "c":
                bezierTools.calcCubicBounds(*[O.fl(p) for p in s_[1:]])
    # hand-made extremes: cusps, loops, inflections, degenerate handles, axis-parallel
    p = lambda: (rnd.randint(-5, 5), rnd.randint(-5, 5))
    for _ in range(3):
        a_, b_, c_, d_ = p(), p(), p(), p()
        k = rnd.random()
        if k < 0.2:
            b_ = a_
        elif k < 0.4:
            c_ = d_
        elif k < 0.5:
            d_ = a_
        elif k < 0.6:
            b_, c_ = c_, b_
        bezierTools.calcCubicBounds(a_, b_, c_, d_)
        bezierTools.calcQuadraticBounds(a_, b_, d_)


def fam_svg(rnd, ctx):
    from fontTools.pens.svgPathPen import SVGPathPen
    from fontTools.pens.recordingPen import RecordingPen
    from fontTools.svgLib.path import parse_path
    comps = rnd.random() < 0.2
    mode = rnd.choice(["grid", "int", "int", "half", "dyadic", "dec", "float"])
    rec, mode, gs_raw = _gen(rnd, comps=comps, mode=mode, gs_mode=mode, tkind=rnd.choice(["int", "dyadic", "float", "rot"]) if comps else None)
    reset_streams()
    gs_lib = {k: _Glyph(v) for k, v in gs_raw.items()}
    gs = {k: O.norm_rec(v) for k, v in gs_raw.items()}
    ntos = rnd.choice([None, None, repr])
    cfg = "ntos=%s" % ("str" if ntos is None else "repr")
    w = {"input": rec, "glyphset": gs_raw or None}

    def go():
        pen = SVGPathPen(gs_lib) if ntos is None else SVGPathPen(gs_lib, ntos=ntos)
        _keep.append(pen)
        draw(rec, pen)
        d = pen.getCommands()
        r = RecordingPen()
        parse_path(d, r)
        return d, r.value

    d, back = lib_call(ctx, "SVGPathPen>parse_path", cfg, go, w)
    flat = tau_decompose(O.norm_rec(rec), gs)
    E = O.canon(flat)
    Gc = O.canon(O.norm_rec(back))
    exact = not comps and all((frac_bits(v) or 0) <= 1 and frac_bits(v) is not None for v in rec_numbers(rec)) and \
        not any(op == "curveTo" and len(a) > 3 for op, a in rec)
    tol = 0 if exact else TOL_BITS * O.magnitude(E) * 8
    ctx.judged()
    _notes["judged/SVGPathPen"] += 1
    ok, why, idx = O.contours_match(E, Gc, tol, level=1)
    src = E
    if not ok:
        cls = O.contour_class(src[idx]) if (idx is not None and idx < len(src)) else "?"
        violation(ctx, "SVGPathPen>parse_path", cfg, "L1", why, cls, "parsed path differs from the outline drawn", dict(w, d=d, parsed=back, contour_index=idx))
    ctx.nontrivial("SVG[%s]|%s" % (cfg, O.rec_class(E if not comps else [], comps, mode in GEN.FRAC_MODES)))


def fam_algebra(rnd, ctx):
    """Transform algebra: judged by the post-condition monitors on transform/reverseTransform/inverse;
    the convenience constructors are compared here against explicit matrices."""
    from fontTools.misc.transform import Transform, Identity, Offset, Scale, DecomposedTransform
    a = Transform(*GEN.gen_transform(rnd))
    b = Transform(*GEN.gen_transform(rnd))
    w = {"a": list(a), "b": list(b)}

    def go():
        ab = a.transform(b)
        a.reverseTransform(b)
        ia = a.inverse()
        ia.transform(a)
        return ab, ia

    ab, ia = lib_call(ctx, "Transform", "algebra", go, w)
    pts = [(rnd.randint(-100, 100), rnd.randint(-100, 100)) for _ in range(3)]
    A, B = O.norm_T(a), O.norm_T(b)
    m = max(abs(v) for v in A + B)
    ctx.judged(3)
    for p in pts:
        P_ = O.P(p)
        tolp = TOL_BITS * max(F(1), m * m * 200) * 16
        # composition acts as documented on points
        got = O.P(ab.transformPoint(p))
        want = O.apply_T(A, O.apply_T(B, P_))
        if abs(got[0] - want[0]) > tolp or abs(got[1] - want[1]) > tolp:
            violation(ctx, "Transform", "transform", "algebra", "a.transform(b) applied to a point is not a(b(p))", "?", "composition", dict(w, p=p))
            break
        # inverse undoes
        q = ia.transformPoint(a.transformPoint(p))
        d = abs(O.det(A))
        tolq = TOL_BITS * max(F(1), m * m * m * 400 / d) * 64
        if abs(O.fr(q[0]) - P_[0]) > tolq or abs(O.fr(q[1]) - P_[1]) > tolq:
            violation(ctx, "Transform", "inverse", "algebra", "inverse().transformPoint(transformPoint(p)) != p", "?", "inverse", dict(w, p=p, got=list(q)))
            break
        # transformPoints / transformVector agree with the matrix
        if [O.P(x) for x in a.transformPoints([p])] != [O.P(a.transformPoint(p))]:
            violation(ctx, "Transform", "transformPoints", "algebra", "transformPoints differs from transformPoint", "?", "transformPoints", dict(w, p=p))
            break
        v = O.P(a.transformVector(p))
        wv = (A[0] * P_[0] + A[2] * P_[1], A[1] * P_[0] + A[3] * P_[1])
        if abs(v[0] - wv[0]) > tolp or abs(v[1] - wv[1]) > tolp:
            violation(ctx, "Transform", "transformVector", "algebra", "transformVector includes the offset or differs", "?", "transformVector", dict(w, p=p))
            break
    # constructors (exact for these operands)
    x, y = rnd.randint(-50, 50), rnd.randint(-50, 50)
    sx, sy = rnd.choice([2, -1, 3, 0.5]), rnd.choice([1, 4, -2, 0.25])
    ctx.judged(4)
    checks = [
        ("translate", a.translate(x, y), O.compose(A, (F(1), F(0), F(0), F(1), F(x), F(y)))),
        ("scale", a.scale(sx, sy), O.compose(A, (O.fr(sx), F(0), F(0), O.fr(sy), F(0), F(0)))),
        ("Offset", Offset(x, y), (F(1), F(0), F(0), F(1), F(x), F(y))),
        ("Scale", Scale(sx), (O.fr(sx), F(0), F(0), O.fr(sx), F(0), F(0))),
    ]
    ang = rnd.choice([0.0, math.pi / 2, math.pi, -math.pi / 2, rnd.uniform(-3, 3)])
    c_, s_ = math.cos(ang), math.sin(ang)
    checks.append(("rotate", Identity.rotate(ang), (O.fr(c_), O.fr(s_), O.fr(-s_), O.fr(c_), F(0), F(0))))
    tolm = TOL_BITS * max(F(1), m * 400) * 16
    for nm, got, want in checks:
        t = F(1, 10 ** 12) if nm == "rotate" else tolm
        if any(abs(g - w_) > t for g, w_ in zip(O.norm_T(got), want)):
            violation(ctx, "Transform", nm, "algebra", "%s differs from the documented matrix" % nm, "?", nm, dict(w, got=list(got)))
    # DecomposedTransform round trip (documented as "equivalent of this transformation")
    ctx.judged()
    dt = lib_call(ctx, "DecomposedTransform", "roundtrip", lambda: DecomposedTransform.fromTransform(a).toTransform(), w)
    d = abs(O.det(A))
    tolr = F(1, 10 ** 9) * max(F(1), m * m / d) * max(F(1), m)
    if any(abs(g - w_) > tolr for g, w_ in zip(O.norm_T(dt), A)):
        violation(ctx, "DecomposedTransform", "roundtrip", "algebra", "toTransform(fromTransform(T)) differs from T", "?", "decomposed",
                  dict(w, got=list(dt)))
    ctx.nontrivial("algebra|%s" % ("flip" if O.det(A) < 0 else "keep") + ("|int" if all(isinstance(v, int) for v in a) else "|float"))


FAMILIES.update({"measure": fam_measure, "svg": fam_svg, "algebra": fam_algebra})


# ---------------------------------------------------------------- family: SVG path data against an independent interpreter
def fam_svgparse(rnd, ctx):
    """parse_path on generated path data (every command, absolute and relative, implicitly repeated after every other
    command, compact number spellings) against the interpreter written from SVG 1.1 section 8.3, and against the
    spelled-out form of the same path."""
    from fontTools.pens.recordingPen import RecordingPen
    from fontTools.svgLib.path import parse_path
    from vmon.oracle import c14_svg as SV
    cmds = SV.gen_commands(rnd)
    d_imp = SV.render(cmds, rnd, implicit=True, compact=rnd.random() < 0.5)
    d_exp = SV.render(cmds, rnd, implicit=False)
    w = {"d": d_imp, "spelled_out": d_exp}

    def go(d):
        r = RecordingPen()
        parse_path(d, r)
        return r.value

    got = lib_call(ctx, "parse_path", "implicit", lambda: go(d_imp), w)
    got2 = lib_call(ctx, "parse_path", "explicit", lambda: go(d_exp), w)
    try:
        want = SV.interpret(d_imp)
        want2 = SV.interpret(d_exp)
    except ValueError as e:
        ctx.inconclusive("svg oracle rejects generated data: %r" % (e,))
        return
    if want != want2:
        ctx.inconclusive("svg oracle: implicit and spelled-out forms differ")
        return
    E = O.canon(want)
    tol = TOL_BITS * O.magnitude(E) * (8 + sum(len(g) for _, g in cmds))     # relative coordinates accumulate
    letters = "".join(sorted({c for c, g in cmds}))
    runs = "".join(sorted({c for c, g in cmds if len(g) > 1}))
    pairs = set()
    prev = None
    for c, g in cmds:
        if prev is not None and c.upper() in "ST":
            pairs.add(prev.upper() + ">" + c.upper() + ("*" if len(g) > 1 else ""))
        prev = c
    for nm, g in (("implicit", got), ("explicit", got2)):
        ctx.judged()
        try:
            Gc = O.canon(O.norm_rec(g))
        except ValueError:
            violation(ctx, "parse_path", nm, "L1", "pen calls are not a valid sequence", letters, "parse_path emitted an invalid call sequence", dict(w, parsed=g))
            continue
        ok, why, idx = O.contours_match(E, Gc, tol, level=1)
        if not ok:
            violation(ctx, "parse_path", nm, "L1", why, "smooth-run" if any("*" in p for p in pairs) else "path",
                      "parsed path differs from the SVG 1.1 reading of the data", dict(w, parsed=g, expected=want, contour_index=idx))
    _notes["judged/parse_path"] += 1
    ctx.nontrivial("svgparse|%s|%s" % (letters, runs))
    for p in pairs:
        ctx.nontrivial("svgparse-smooth|" + p)


FAMILIES["svgparse"] = fam_svgparse


# ---------------------------------------------------------------- family: measuring pens, original vs decomposed spelling
def _plain_record(contours):
    """canonical contours -> record of single-segment calls (floats): the same outline spelled without super-Beziers,
    implied points or single-argument curves"""
    rec = []
    for c in contours:
        rec.append(("moveTo", (O.fl(c["start"]),)))
        for s_ in c["segs"]:
            if s_[0] == "l":
                rec.append(("lineTo", (O.fl(s_[2]),)))
            elif s_[0] == "q":
                rec.append(("qCurveTo", (O.fl(s_[2]), O.fl(s_[3]))))
            else:
                rec.append(("curveTo", (O.fl(s_[2]), O.fl(s_[3]), O.fl(s_[4]))))
        rec.append(("closePath" if c["closed"] else "endPath", ()))
    return rec


def fam_measure2(rnd, ctx):
    """Every measuring pen (the BasePen subclasses that ask the base class for the current point) must give the same
    answer for an outline and for its decomposed spelling (plain lines, quadratics and cubics computed by the oracle)."""
    from fontTools.pens.boundsPen import BoundsPen, ControlBoundsPen
    from fontTools.pens.areaPen import AreaPen
    from fontTools.pens.perimeterPen import PerimeterPen
    from fontTools.pens.pointInsidePen import PointInsidePen
    from fontTools.pens.momentsPen import MomentsPen
    from fontTools.pens.statisticsPen import StatisticsPen
    mode = rnd.choice(["grid", "int", "int", "small", "half", "dyadic", "dec"])
    rec, mode, _ = _gen(rnd, mode=mode, closed_only=True, single=False)
    reset_streams()
    cs = O.canon(O.norm_rec(rec))
    plain = _plain_record(cs)
    m = float(O.magnitude(cs))
    w = {"input": rec, "decomposed": plain}
    feats = O.rec_class(cs, False, mode in GEN.FRAC_MODES)

    def measure(r):
        out = {}
        b = BoundsPen(None); draw(r, b); out["bounds"] = b.bounds
        cb = ControlBoundsPen(None); draw(r, cb); out["controlBounds"] = cb.bounds
        a = AreaPen(None); draw(r, a); out["area"] = a.value
        pp = PerimeterPen(None); draw(r, pp); out["perimeter"] = pp.value
        mp = MomentsPen(None); draw(r, mp)
        for k in ("area", "momentX", "momentY", "momentXX", "momentXY", "momentYY"):
            out["moments." + k] = getattr(mp, k)
        sp = StatisticsPen(None); draw(r, sp)
        out["stats.area"] = sp.area
        if abs(sp.area) > 1e-3 * m * m:
            out["stats.meanX"], out["stats.meanY"] = sp.meanX, sp.meanY
        for i, tp in enumerate(tests):
            pi = PointInsidePen(None, tp); draw(r, pi); out["inside%d" % i] = pi.getResult()
            pe = PointInsidePen(None, tp, evenOdd=True); draw(r, pe); out["insideEO%d" % i] = pe.getResult()
        return out

    bb = O.contours_bounds(cs) or (0, 0, 1, 1)
    tests = [(rnd.uniform(bb[0] - 1, bb[2] + 1), rnd.uniform(bb[1] - 1, bb[3] + 1)) for _ in range(5)]
    A = lib_call(ctx, "measuring pens", "original", lambda: measure(rec), w)
    B = lib_call(ctx, "measuring pens", "decomposed", lambda: measure(plain), w)
    deg = {"bounds": 1, "controlBounds": 1, "area": 2, "perimeter": 1, "moments.area": 2, "moments.momentX": 3, "moments.momentY": 3,
           "moments.momentXX": 4, "moments.momentXY": 4, "moments.momentYY": 4, "stats.area": 2, "stats.meanX": 1, "stats.meanY": 1}
    nseg = sum(len(c["segs"]) for c in cs) + 1
    for k in A:
        if k not in B:
            continue
        ctx.judged()
        a, b = A[k], B[k]
        if k.startswith("inside"):
            bad = a != b
        elif a is None or b is None:
            bad = (a is None) != (b is None)
        else:
            # both spellings differ only by floating point dust in the split points (<= 1 ulp): 1e-9 relative to the
            # natural scale of the quantity (magnitude^degree x number of segments); means divide by the area
            scale = max(1.0, m) ** deg[k] * nseg
            if k.startswith("stats.mean"):
                scale = max(1.0, m) ** 3 * nseg / abs(A["stats.area"])
            av = a if isinstance(a, tuple) else (a,)
            bv = b if isinstance(b, tuple) else (b,)
            bad = any(abs(x - y) > 1e-9 * scale for x, y in zip(av, bv))
        if bad:
            violation(ctx, k.split(".")[0].rstrip("0123456789EO") + "(pen)", "original-vs-decomposed", "measure", "%s differs between the two spellings" % k.rstrip("0123456789"),
                      feats if len(feats) < 60 else "super" if "c3" in feats else "other",
                      "%s: %r for the outline as drawn, %r for its decomposed spelling" % (k, a, b), dict(w, test_points=tests))
    # MomentsPen area against the Green integral
    ctx.judged()
    want = sum((O.contour_area(c) for c in cs), F(0))
    if abs(F(A["moments.area"]) - want) > F(1, 10 ** 9) * O.area_scale(cs):
        violation(ctx, "MomentsPen", "area", "area", "area differs from the Green integral", "?", "MomentsPen.area %r, Green %r" % (A["moments.area"], float(want)), w)
    _notes["judged/measuring-pens"] += 1
    ctx.nontrivial("measure2|" + feats)


FAMILIES["measure2"] = fam_measure2
