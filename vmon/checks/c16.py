"""C16 — output is deterministic and saving does not disturb the font.

Determinism: every pipeline job (recompile, TTX import, feature compilation, subsetting,
instancing, variable-font build, merging, cu2qu) is executed by `vmon.c16_pipe` in fresh
interpreters with PYTHONHASHSEED in {0,1,2,3,random...}, one of them with a perturbed
environment (TZ, locale, HOME, cwd, every non-allowed variable the library was seen to read)
and a clock shifted by 400 days; the parent compares sha256 per output table.  Within one
process, lazy in {None,True,False} x random table access orders must save identical bytes.

Purity: random histories of {access, edit, save, saveXML, getTableData, table.compile, draw,
set flavor} are compared with the same history with the observations removed: the bytes of
the final save must be equal (never the XML dumps — those legitimately change).  A purity
monitor on TTFont.save / saveXML / getTableData shadow-saves a deepcopy taken before and
after each call.  Failed saves (a table compile made to raise; a field set out of range and
corrected afterwards) must leave no trace either; failpoints on random lines of save() are
leads only (an exception at an arbitrary line is not something a caller can provoke).
"""
import copy
import difflib
import hashlib
import io
import json
import os
import random
import subprocess
import tempfile

from vmon import corpus, env, hooks, probes
from vmon.case import CaseTimeout
from vmon.oracle import c20_sfnt as S

PROPERTY = "C16"
LEVEL = "exploration"
RULE = ("(determinism) a case is a batch of pipeline jobs run in 5+ fresh interpreters; a job is non-trivial/distinct by "
        "(pipeline, input, parameters) when it produced >= 1 output table under every seed; (lazy/order) distinct by "
        "(font, lazy, permutation) when every table was decompiled and recompiled; (purity) a history is non-trivial "
        "when it contains >= 1 observation placed before the final save of a font with >= 1 decompiled table, distinct "
        "by (font, mode, operation sequence) — the same on TTCollection objects with member edits and collection/member saves; (failed save) distinct by (font, failing table or code line) when the "
        "injected failure made the save raise")
ASSUMPTIONS = [
    "SOURCE_DATE_EPOCH is pinned by the framework; allowed environment reads are SOURCE_DATE_EPOCH and FONTTOOLS_* switches",
    "byte equality is the oracle (sha256 per table computed with a spec-written sfnt directory reader); XML dumps are used "
    "only to render a witness diff",
    "purity histories start from fully decompiled fonts (ensureDecompiled) or from TTX imports, so that removing an "
    "observation never changes *which* tables are recompiled (recompile-vs-raw differences are C01's subject); in "
    "'raw' mode only non-decompiling observations (save, getTableData) are inserted",
    "a history whose observation itself raises is not judged here (round-trip failures belong to C01/C03)",
    "an observation that changes the *set of decompiled tables* (a save that loads head/CFF/glyf to refresh bounding boxes, "
    "a dump of a lazily loaded font) makes later saves recompile what earlier ones copied raw; that comparison is C01's "
    "round trip, not purity, and is counted as precondition not met",
    "datetime.now() cannot be wrapped (C type); clock dependence is judged behaviourally by shifting time.time/gmtime/"
    "localtime by 400 days in one interpreter",
]
REQUIRED_MONITORS = ["purity:TTFont.save", "purity:TTFont.saveXML", "purity:TTFont.getTableData", "purity:TTCollection.save", "c16_pipe"]
CASE_TIMEOUT = 600
MANIFEST = {
    "text": "Exploration. Determinism: eight pipelines (recompile, TTX import, feature compilation of the corpus .fea files, subsetting, instancing, variable-font build from the corpus designspaces, merging, cu2qu) run in fresh interpreters under PYTHONHASHSEED 0,1,2,3 and random seeds, one interpreter with perturbed environment/cwd/locale and a clock shifted by 400 days; sha256 per output table compared by the parent, witness = first differing table with its XML diff; in-process lazy x table-access-order sweep. Purity: random operation histories with and without interleaved observations (save, saveXML, getTableData, compile, draw) must end in byte-identical saves; a monitor on save/saveXML/getTableData shadow-saves deep copies taken before and after each call; a save that failed (one table's compile raising; a field set out of range and then corrected) must leave no trace in the next save; the font a pipeline returns is saved twice. Failpoints on random lines of save() are recorded as leads only.",
    "note": "Compares bytes of later saves, never object-model dumps. Histories start from fully decompiled or TTX-imported fonts.",
    "technique": "cross-process differential under hash-seed/environment/clock perturbation; history differential with shadow-save purity monitor; failpoint injection",
    "design_ref": "DESIGN.md §4 C16",
}
EXHAUSTIVE = {"quick": False, "thorough": False}

_cur = {"purity_on": False, "depth": 0, "purity_evals": 0, "purity_skips": 0, "seen": set(), "mon_seen": set()}
ALLOWED_ENV = ("SOURCE_DATE_EPOCH",)
ALLOWED_ENV_PREFIX = ("FONTTOOLS_",)


# ------------------------------------------------------------------ byte comparison helpers
def _woff_tables(data):
    """{tag: bytes} of a WOFF 1.0 file, read from the spec (44-byte header, 20-byte directory entries, zlib)."""
    import struct
    import zlib
    n = struct.unpack(">H", data[12:14])[0]
    tabs = {}
    for i in range(n):
        tag, off, clen, olen, _ck = struct.unpack(">4sLLLL", data[44 + 20 * i:64 + 20 * i])
        raw = data[off:off + clen]
        tabs[tag.decode("latin-1")] = zlib.decompress(raw) if clen < olen else raw
    return tabs


def table_map(data):
    try:
        if data[:4] == b"wOFF":
            tabs = _woff_tables(data)     # so that a difference inside a WOFF is attributed to its table
        else:
            ver, tabs = S.sfnt_tables(data)
    except Exception:
        return None
    out = {}
    for t, b in tabs.items():
        out[t] = b if t != "head" or len(b) < 12 else b[:8] + b"\0\0\0\0" + b[12:]
    return out


def diff_tables(a, b):
    """Tags whose bytes differ between two saved fonts ('<container>' when not comparable per table)."""
    if a == b:
        return []
    ta, tb = table_map(a), table_map(b)
    if ta is None or tb is None:
        return ["<container>"]
    tags = [t for t in sorted(set(ta) | set(tb)) if ta.get(t) != tb.get(t)]
    return tags or ["<layout>"]


def ttc_members(data):
    """[{tag: bytes}] per member of a TTC (head checkSumAdjustment masked); None when unreadable."""
    try:
        ver, offs = S.ttc_offsets(data)
        out = []
        for o in offs:
            v, tabs = S.sfnt_tables(data, o)
            out.append({t: (b if t != "head" or len(b) < 12 else b[:8] + b"\0\0\0\0" + b[12:]) for t, b in tabs.items()})
        return out
    except Exception:
        return None


def diff_any(a, b):
    """Differences between two saved fonts or collections: ['tag'] or ['member/tag']."""
    if a == b:
        return []
    if a[:4] == b"ttcf" and b[:4] == b"ttcf":
        ma, mb = ttc_members(a), ttc_members(b)
        if ma is None or mb is None or len(ma) != len(mb):
            return ["<container>"]
        out = []
        for i, (x, y) in enumerate(zip(ma, mb)):
            out += ["%d/%s" % (i, t) for t in sorted(set(x) | set(y)) if x.get(t) != y.get(t)]
        return out or ["<layout>"]
    return diff_tables(a, b)


def xml_diff(a, b, tag, limit=40):
    from fontTools.ttLib import TTFont
    from fontTools.misc.xmlWriter import XMLWriter

    kw = {}
    if "/" in tag and tag.split("/", 1)[0].isdigit():
        member, tag = tag.split("/", 1)
        kw["fontNumber"] = int(member)

    def dump(data):
        try:
            f = TTFont(io.BytesIO(data), **kw)
            s = io.StringIO()
            w = XMLWriter(s)
            f._tableToXML(w, tag)
            w.close()
            return s.getvalue().splitlines()
        except Exception as e:
            return ["<dump failed: %s>" % type(e).__name__]

    if tag.startswith("<") or a is None or b is None:
        return []
    with hooks.quiet():
        return list(difflib.unified_diff(dump(a), dump(b), "first", "second", lineterm=""))[:limit]


# ------------------------------------------------------------------ purity monitor
def setup():
    from fontTools.ttLib import ttFont

    def shadow(font):
        b = io.BytesIO()
        font.save(b)
        return b.getvalue()

    def mk(opname):
        def pre(a, kw):
            if not _cur["purity_on"]:
                return None
            _cur["depth"] += 1
            if _cur["depth"] > 1:
                return None
            font = a[0]
            try:
                snap = copy.deepcopy(font)
            except Exception:
                _cur["purity_skips"] += 1
                return None
            return (snap, set(font.tables))

        def post(st, a, kw, res, exc):
            if not _cur["purity_on"]:
                return
            _cur["depth"] -= 1
            if st is None or exc is not None:
                return
            snap, loaded = st
            font = a[0]
            if set(font.tables) != loaded:
                _cur["purity_skips"] += 1       # the call decompiled tables: not comparable (see ASSUMPTIONS)
                return
            try:
                after = copy.deepcopy(font)
                b0 = shadow(snap)
            except Exception:
                _cur["purity_skips"] += 1
                return
            try:
                b1 = shadow(after)
            except Exception as e:
                hooks.report({"kind": "purity", "via": "monitor", "op": opname, "what": "later-save-raises", "type": type(e).__name__},
                             "after %s a copy of the font no longer saves (%s) although a copy taken before the call does"
                             % (opname, type(e).__name__), {"arg": repr(a[1:])[:100]})
                return
            _cur["purity_evals"] += 1
            hooks.count("purity:" + opname + ":judged")
            for tag in diff_tables(b0, b1):
                if (opname, tag) in _cur["mon_seen"]:
                    continue
                _cur["mon_seen"].add((opname, tag))
                hooks.report({"kind": "purity", "via": "monitor", "op": opname, "table": tag, "source": _cur.get("source")},
                             "%s changed the font: shadow saves of copies taken before and after the call differ in %r"
                             % (opname, tag), {"arg": repr(a[1:])[:100], "font": _cur.get("font"),
                                               "xml_diff": xml_diff(b0, b1, tag)})
        return pre, post

    for meth in ("save", "saveXML", "getTableData"):
        pre, post = mk("TTFont." + meth)
        hooks.attach(ttFont.TTFont, meth, pre=pre, post=post, name="purity:TTFont." + meth)
    from fontTools.ttLib import ttCollection

    def cshadow(coll):
        b = io.BytesIO()
        coll.save(b)
        return b.getvalue()

    def cpre(a, kw):
        if not _cur["purity_on"]:
            return None
        _cur["depth"] += 1
        if _cur["depth"] > 1:
            return None
        coll = a[0]
        try:
            snap = copy.deepcopy(coll)
        except Exception:
            _cur["purity_skips"] += 1
            return None
        return (snap, [set(f.tables) for f in coll.fonts])

    def cpost(st, a, kw, res, exc):
        if not _cur["purity_on"]:
            return
        _cur["depth"] -= 1
        if st is None or exc is not None:
            return
        snap, loaded = st
        coll = a[0]
        if [set(f.tables) for f in coll.fonts] != loaded:
            _cur["purity_skips"] += 1
            return
        try:
            after = copy.deepcopy(coll)
            b0 = cshadow(snap)
        except Exception:
            _cur["purity_skips"] += 1
            return
        try:
            b1 = cshadow(after)
        except Exception as e:
            hooks.report({"kind": "purity", "via": "monitor", "op": "TTCollection.save", "what": "later-save-raises", "type": type(e).__name__},
                         "after TTCollection.save a copy of the collection no longer saves (%s)" % type(e).__name__, None)
            return
        _cur["purity_evals"] += 1
        hooks.count("purity:TTCollection.save:judged")
        for tag in diff_any(b0, b1):
            t = tag.split("/", 1)[-1]
            if ("TTCollection.save", t) in _cur["mon_seen"]:
                continue
            _cur["mon_seen"].add(("TTCollection.save", t))
            hooks.report({"kind": "purity", "via": "monitor", "op": "TTCollection.save", "table": t, "source": _cur.get("source")},
                         "TTCollection.save changed the collection: shadow saves of copies taken before and after the call differ in %r" % tag,
                         {"collection": _cur.get("font"), "xml_diff": xml_diff(b0, b1, tag)})

    hooks.attach(ttCollection.TTCollection, "save", pre=cpre, post=cpost, name="purity:TTCollection.save")
    hooks.counters.setdefault("c16_pipe", 0)
    # evidence: how many monitored compiles went through in-place offset-overflow resolution
    from fontTools.ttLib.tables import otTables

    for fn in ("fixLookupOverFlows", "fixSubTableOverFlows"):
        if hasattr(otTables, fn):
            hooks.attach(otTables, fn, name="overflow:" + fn, bind=False)


# ------------------------------------------------------------------ cases
PIPE_ORDER = ["recompile", "ttx", "tablexml", "fea", "subset", "instance", "build", "merge", "cu2qu"]
AAT_TAGS = {"morx", "mort", "kerx", "ankr", "lcar", "opbd", "prop", "feat", "bsln", "trak", "gcid", "ltag", "just", "cidg", "Zapf"}
MERGE_PAIRS = [
    ["ttx/data/TestTTF.ttf", "ttLib/data/TestTTF-Regular.ttx"],
    ["subset/data/TestTTF-Regular.ttx", "ttLib/data/Test-Regular.ttf"],
    ["varLib/data/master_ttx_interpolatable_ttf/TestFamily-Master0.ttx", "varLib/data/master_ttx_interpolatable_ttf/TestFamily2-Master0.ttx"],
    ["varLib/data/master_kerning_merging/0.ttx", "varLib/data/master_kerning_merging/1.ttx", "varLib/data/master_kerning_merging/2.ttx"],
    ["subset/data/Andika-Regular.subset.ttx", "subset/data/TestTTF-Regular_non_BMP_char.ttx"],
    ["ttx/data/TestOTF.otf", "ttLib/data/TestOTF-Regular.otf"],
    ["varLib/data/master_base_test/TestBASE.0.ttx", "subset/data/TestBASE.ttx"],
    ["merge/data/CFFFont1.ttx", "merge/data/CFFFont2.ttx"],
]
CU2QU_UFOS = ["cu2qu/data/RobotoSubset-Regular.ufo", "cu2qu/data/RobotoSubset-Bold.ufo"]


def _exists(rel):
    return os.path.exists(os.path.join(env.TESTS, rel))


def _jobs(tier, seed, rnd):
    T = tier == "thorough"
    inv = corpus.inventory()
    fonts = corpus.fonts()
    by = {p: [] for p in PIPE_ORDER}

    def pick(lst, n):
        lst = list(lst)
        if T or len(lst) <= n:
            return lst
        rnd.shuffle(lst)
        return lst[:n]

    nonaots = [r for r in fonts if "/aots/" not in r["path"] and r["size"] <= 400000]
    aots = [r for r in fonts if "/aots/" in r["path"]]
    bins = [r for r in nonaots if r["kind"] == "bin" and r["member"] is None]
    ttxs = [r for r in nonaots if r["kind"] == "ttx"]
    # fonts carrying AAT tables (compiled from dicts/sets of glyph names) are always part of the sweep
    aat_bin = [r for r in bins if AAT_TAGS & set(r["tables"])]
    aat_ttx = [r for r in ttxs if AAT_TAGS & set(r["tables"])]
    chosen_bin = {r["path"]: r for r in aat_bin + pick(bins, 14) + pick(aots, 40 if T else 4)}
    for path in sorted(chosen_bin):
        by["recompile"].append({"pipeline": "recompile", "input": path, "lazy": None, "perm": seed})
    chosen_ttx = {r["path"]: r for r in aat_ttx + pick(ttxs, 26)}
    for path in sorted(chosen_ttx):
        by["ttx"].append({"pipeline": "ttx", "input": path})
    # single tables from the XML dumps kept in the repo's table tests, and generated morx state tables whose
    # transitions carry several distinct equal-length actions (collected in a set by the compiler)
    import re as _re

    tdir = os.path.join(env.TESTS, "ttLib", "tables")
    for fn in sorted(os.listdir(tdir)):
        if fn.endswith("_test.py"):
            try:
                with open(os.path.join(tdir, fn), encoding="utf-8") as f:
                    text = f.read()
            except OSError:
                continue
            for const in _re.findall(r"^([A-Za-z0-9_]*XML[A-Za-z0-9_]*) = \[$", text, _re.M):
                by["tablexml"].append({"pipeline": "tablexml", "source": "test:%s:%s" % (fn[:-3], const)})
    for kind in ("morx-insertion", "morx-ligature"):
        for k in range(40 if T else 8):
            by["tablexml"].append({"pipeline": "tablexml", "source": "gen:" + kind, "seed": seed * 1000 + k})
    must_ttx = ["cffLib/data/TestSparseCFF2VF.ttx"]
    feas = sorted(p for p in inv["other"]["fea"] if p.startswith("feaLib/data/") and p.count("/") == 2)
    for p in feas:          # compiling a feature file takes milliseconds: all of them in both tiers
        by["fea"].append({"pipeline": "fea", "input": p})
    for k in range(120 if T else 30):
        by["fea"].append({"pipeline": "fea", "gen": seed * 1000 + k})
    subs = [r for r in nonaots if r["ncmap"] >= 2 and r["head"] and r["complete"] and r["size"] <= 120000]
    chosen = pick([r for r in subs if r["path"] != "subset/data/TestBSLN-1.ttx"], 18)
    # AAT/OT tables handled by subset code paths of their own: make sure each table tag is represented
    seen = set()
    for r in chosen:
        seen |= set(r["tables"])
    for r in sorted(subs, key=lambda r: r["size"]):
        if set(r["tables"]) - seen:
            chosen.append(r)
            seen |= set(r["tables"])
    paths = sorted({r["path"] for r in chosen} | {"subset/data/TestBSLN-1.ttx"})
    # runs with the documented in-place option edits followed by runs with the plain defaults: the outcome of the
    # second kind must not depend on whether the first kind ran earlier in the same interpreter
    mut_opts = [["--name-IDs+=7,8,9,16,17", "--layout-features+=smcp,c2sc", "--drop-tables-=GPOS", "--glyph-names"],
                ["--name-IDs-=0,5", "--name-languages+=0x407", "--hinting-tables-=cvt", "--no-subset-tables+=cmap"],
                ["--layout-features-=kern,liga", "--layout-scripts+=latn", "--drop-tables+=DSIG,name"]]
    for i, p in enumerate([q for q in paths if _exists(q)][: (12 if T else 4)]):
        by["subset"].append({"pipeline": "subset", "input": p, "phase": 0, "opts": mut_opts[i % len(mut_opts)]})
        by["subset"].append({"pipeline": "subset", "input": p, "phase": 0, "defaults": True})
    for p in paths:
        if _exists(p):
            by["subset"].append({"pipeline": "subset", "input": p, "phase": 0})
            if T:
                by["subset"].append({"pipeline": "subset", "input": p, "phase": 1, "retain_gids": True})
    var = [r for r in nonaots if r["variable"] and r["complete"] and r["size"] <= 200000]
    cff2var = [r for r in var if r["outlines"] == "CFF2"]
    picked = {r["path"]: r for r in pick(var, 8) + cff2var[: (len(cff2var) if T else 3)]}
    for path in sorted(picked):
        by["instance"].append({"pipeline": "instance", "input": path, "mode": "partial"})
        by["instance"].append({"pipeline": "instance", "input": path, "mode": "full"})
        if picked[path]["outlines"] == "CFF2":
            by["instance"].append({"pipeline": "instance", "input": path, "mode": "full", "downgradeCFF2": True})
    dss = sorted(p for p in inv["other"]["designspace"] if p.startswith("varLib/data/") and p.count("/") == 2)
    for p in dss:
        by["build"].append({"pipeline": "build", "input": p})
    for pair in (MERGE_PAIRS if T else MERGE_PAIRS[:5]):
        if all(_exists(p) for p in pair):
            by["merge"].append({"pipeline": "merge", "inputs": pair})
    if all(_exists(p) for p in CU2QU_UFOS):
        by["cu2qu"].append({"pipeline": "cu2qu-ufo", "inputs": CU2QU_UFOS})
        by["cu2qu"].append({"pipeline": "cu2qu-ufo", "inputs": CU2QU_UFOS, "kwargs": {"max_err_em": 0.002, "reverse_direction": True}})
        if T:
            by["cu2qu"].append({"pipeline": "cu2qu-ufo", "inputs": CU2QU_UFOS[::-1], "kwargs": {"all_quadratic": False}})
    cffs = [r for r in nonaots if r["outlines"] == "CFF " and r["complete"] and r["size"] <= 60000 and r["member"] is None]
    for r in pick(cffs, 4):
        by["cu2qu"].append({"pipeline": "cu2qu-otf", "input": r["path"]})
    return by


def cases(tier, seed):
    T = tier == "thorough"
    rnd = random.Random("c16-cases/%s" % seed)
    cs = []

    def add(kind, **kw):
        kw["kind"] = kind
        kw["seed"] = seed
        kw["id"] = "%s:%s" % (kind, ",".join("%s=%s" % (k, v) for k, v in sorted(kw.items())
                                                 if k not in ("kind", "seed") and not isinstance(v, (list, dict))))
        cs.append(kw)

    # ---- determinism across interpreters
    nrand = 8 if T else 1
    seeds = ["0", "1", "2", "3"] + [str(rnd.randrange(4, 2 ** 32 - 1)) for _ in range(nrand)]
    by = _jobs(tier, seed, rnd)
    for pipe in PIPE_ORDER:
        jobs = by[pipe]
        for i, j in enumerate(jobs):
            j["id"] = "%s#%d" % (pipe, i)
        step = {"merge": 5, "build": 12, "subset": 14, "cu2qu": 6, "fea": 50, "build": 18, "tablexml": 80}.get(pipe, 16)
        for i in range(0, len(jobs), step):
            add("seeds", pipeline=pipe, batch=i // step, jobs=jobs[i:i + step], seeds=seeds)

    # ---- save; save after a pipeline, in process under the purity monitor
    for pipe in ("subset", "instance", "build", "merge", "ttx"):
        jobs = by[pipe]
        step = 8
        lim = len(jobs) if T else min(len(jobs), 16)
        for i in range(0, lim, step):
            add("twice", pipeline=pipe, batch=i // step, jobs=jobs[i:min(i + step, lim)])

    # ---- lazy x access order, in process
    fonts = [r for r in corpus.fonts("bin", lambda r: r["member"] is None and r["size"] <= 400000)]
    nonaots = [r for r in fonts if "/aots/" not in r["path"]]
    aots = [r for r in fonts if "/aots/" in r["path"]]
    rnd.shuffle(aots)
    lo = nonaots + aots[:(40 if T else 6)]
    if not T:
        rnd.shuffle(lo)
        lo = lo[:16]
    for r in lo:
        add("lazyorder", font=r["path"], perms=5 if T else 3)
    for r in (lo if T else lo[:8]):
        add("lazyorder", font=r["path"], perms=4 if T else 3, edits=1)
    # fonts compiled from the corpus feature files: FeatureParams (featureNames, cvParameters, size), mixed
    # ValueFormats, class-based subtables ... read back through the lazy OTL readers
    feas = sorted(p for p in corpus.inventory()["other"]["fea"] if p.startswith("feaLib/data/") and p.count("/") == 2)
    params = []
    for p in feas:
        try:
            with open(os.path.join(env.TESTS, p), encoding="utf-8", errors="replace") as f:
                txt = f.read()
        except OSError:
            continue
        if any(w in txt for w in ("featureNames", "cvParameters", "parameters", "sizemenuname")):
            params.append(p)
    others = [p for p in feas if p not in params]
    rnd.shuffle(others)
    for p in params + others[: (len(others) if T else 10)]:
        add("lazyorder", font="fea:" + p, perms=3 if T else 2, own_output=1)
    # sequences of fonts read lazily one after the other in ONE process: what the lazy readers return for a font
    # must not depend on which fonts (other axis counts, class counts, value formats) were read before it
    seqpool = sorted({r["path"] for r in fonts if r["variable"] and r["size"] <= 60000}
                     | {r["path"] for r in corpus.fonts("ttx", lambda r: r["variable"] and r["complete"] and r["size"] <= 30000)})
    layoutpool = ["fea:" + p for p in feas if any(w in p for w in ("GPOS_2", "PairPos", "spec9", "bug633", "GPOS_4", "GPOS_5", "GPOS_6", "markClass"))]
    rnd2 = random.Random("c16-lazyseq/%s" % seed)
    # one font per distinct axis count among those carrying an ItemVariationStore (region records sized by axis count)
    vs = [r for r in corpus.fonts(None, lambda r: r["variable"] and r["complete"] and r["size"] <= 60000
                                  and {"HVAR", "MVAR", "VVAR", "GDEF"} & set(r["tables"]))]
    byaxes = {}
    for r in sorted(vs, key=lambda r: (-r["size"], r["path"])):
        byaxes.setdefault(len(r["axes"]), []).append(r["path"])
    for g in range(6 if T else 2):
        a = [lst[g % len(lst)] for n, lst in sorted(byaxes.items(), reverse=True)][:5] if g % 2 == 0 else rnd2.sample(seqpool, min(4, len(seqpool)))
        b = rnd2.sample(layoutpool, min(3, len(layoutpool)))
        add("lazyseq", group=g, fonts=a + b + ["genfea:%d" % (seed * 10 + g)])
    for k in range(8 if T else 4):
        add("lazyorder", font="<built>", member=k, perms=3, own_output=1)
        add("lazyorder", font="<built>", member=k, perms=3, edits=1)
    for r in corpus.fonts("bin", lambda r: r["member"] is not None)[:4 if T else 2]:
        add("lazyorder", font=r["path"], member=r["member"], perms=3)

    # ---- purity histories
    allf = [r for r in corpus.fonts(None, lambda r: r["size"] <= 150000 and r["member"] is None and r["flavor"] is None)]
    big = [r for r in allf if "/aots/" not in r["path"]]
    cff2ttx = [r for r in big if r["kind"] == "ttx" and r["outlines"] == "CFF2"]
    pool = [r for r in big if r not in cff2ttx]
    rnd.shuffle(pool)
    aots2 = [r for r in allf if "/aots/" in r["path"]]
    rnd.shuffle(aots2)
    colr = [r for r in pool if "COLR" in r["tables"]]
    chosen = cff2ttx[: (len(cff2ttx) if T else 3)] + colr[: (len(colr) if T else 4)] + [r for r in pool if r not in colr][: (len(pool) if T else 32)] \
        + aots2[: (60 if T else 5)]
    for r in chosen:
        modes = ["ttx"] if r["kind"] == "ttx" else ["decoded", "raw"]
        if r["kind"] == "ttx" and (T or rnd.random() < 0.3):
            modes.append("decoded")
        for m in modes:
            add("history", font=r["path"], mode=m, n=(8 if T else 4))
    add("history", font="<built>", mode="built", n=8 if T else 4)

    # ---- histories on collections (TTCollection.save shares tables between members)
    colls = ["ttc:ttx/data/TestTTC.ttc", "ttc:ttx/data/TestTTCv2.ttc",
             "pair:ttLib/data/TestTTF-Regular.ttx|ttLib/data/TestTTF-Regular.ttx",
             "pair:ttx/data/TestTTF.ttf|ttLib/data/Test-Regular.ttf",
             "pair:ttx/data/TestOTF.otf|ttx/data/TestOTF.otf",
             "pair:<built>|<built>",
             "pair:ttx/data/TestTTF.ttf|ttx/data/TestOTF.otf|ttLib/data/TestTTF-Regular.ttx"]
    if T:
        small = [r["path"] for r in pool if r["complete"] and r["head"] and r["size"] <= 20000]
        for i in range(0, min(len(small) - 1, 60), 2):
            colls.append("pair:%s|%s" % (small[i], small[i + 1]))
    for src in colls:
        if all(p == "<built>" or _exists(p) for p in src.split(":", 1)[1].split("|")):
            add("collection", source=src, n=(8 if T else 5))

    # ---- failed saves leave no trace
    fs = ["ttx/data/TestTTF.ttf", "ttx/data/TestOTF.otf", "cffLib/data/TestSparseCFF2VF.ttx", "ttLib/data/TestTTF-Regular.ttx",
          "fontBuilder/data/test_var.ttf.ttx", "ttLib/tables/data/NotoSans-VF-cubic.subset.ttf", "subset/data/TestBSLN-1.ttx",
          "ttLib/tables/data/graphite/graphite_tests.ttf"]
    if T:
        fs += [r["path"] for r in pool[:24]]
    for p in dict.fromkeys(fs):
        if _exists(p):
            add("failedsave", font=p, lines=(60 if T else 0))
    return cs


def run_case(case, ctx):
    rnd = random.Random("%s/%s" % (case["id"], case["seed"]))
    _cur.update(purity_on=False, depth=0, source=None, font=None, seen=set(), mon_seen=set())
    globals()["run_" + case["kind"]](case, ctx, rnd)


# ------------------------------------------------------------------ determinism across interpreters
TZS = ("EST5EDT", "IST-5:30", "NZST-12NZDT", "UTC0")      # POSIX forms: no zoneinfo database needed
EPOCH_FREE = ("recompile", "subset", "instance", "cu2qu", "tablexml")
PERTURB_ENV = {"TZ": "<+14>-14", "LANG": "tr_TR.UTF-8", "LC_ALL": "C", "LANGUAGE": "tr", "HOME": "/nonexistent-vmon-home",
               "USER": "vmon-other", "LOGNAME": "vmon-other", "COLUMNS": "33", "TERM": "dumb", "PYTHONUTF8": "0",
               "HOSTNAME": "vmon-host-b"}
CLOCK_SHIFT = 400 * 86400


def _pipe(spec, hashseed, scratch, extra_env=None, cwd=None, timeout=420):
    fd, path = tempfile.mkstemp(prefix="c16spec-", suffix=".json", dir=scratch)
    with os.fdopen(fd, "w") as f:
        json.dump(spec, f)
    e = env.child_env({"PYTHONHASHSEED": str(hashseed)})
    e["VMON_SCRATCH"] = scratch
    # byte-code cache outside /repo and /verif (python -B would recompile every module in each of the
    # 5+ interpreters); the cache is keyed by source path + mtime, so mutated library copies never mix
    e["PYTHONPYCACHEPREFIX"] = os.path.join(scratch, "pyc")
    e.pop("PYTHONDONTWRITEBYTECODE", None)
    if extra_env:
        e.update(extra_env)
        if "SOURCE_DATE_EPOCH" in extra_env:
            e["VMON_EPOCH_OVERRIDE"] = "1"      # env.bootstrap() in the child would otherwise pin the epoch again
    try:
        r = subprocess.run([env.PYTHON, "-m", "vmon.c16_pipe", path], env=e, cwd=cwd or env.VERIF,
                           stdout=subprocess.PIPE, stderr=subprocess.PIPE, timeout=timeout)
    except subprocess.TimeoutExpired:
        return None, "timeout"
    finally:
        os.unlink(path)
    hooks.count("c16_pipe")
    from vmon import c16_pipe

    for line in reversed(r.stdout.decode("utf-8", "replace").splitlines()):
        if line.startswith(c16_pipe.MARK):
            return json.loads(line[len(c16_pipe.MARK):]), None
    return None, "rc=%s: %s" % (r.returncode, r.stderr.decode("utf-8", "replace")[-400:])


def _job_name(job):
    return job.get("input") or job.get("inputs") or job.get("source") or ("generated feature file #%s" % job.get("gen"))


def _job_desc(job):
    return {k: v for k, v in job.items() if k != "id"}


def run_seeds(case, ctx, rnd):
    scratch = os.environ.get("VMON_SCRATCH") or tempfile.mkdtemp(prefix="c16-")
    jobs = case["jobs"]
    spec = {"jobs": jobs}
    seeds = list(case["seeds"])
    base, err = _pipe(spec, seeds[0], scratch)
    if base is None:
        ctx.inconclusive("pipeline runner failed under seed %s: %s" % (seeds[0], err))
        return
    # environment variables the library read that are not on the allowed list get perturbed too
    extra = dict(PERTURB_ENV)
    unlisted = {}
    for jid, names in base["env"].items():
        for name, who in names.items():
            if name in ALLOWED_ENV or name.startswith(ALLOWED_ENV_PREFIX):
                ctx.note("env read (allowed): %s" % name)
                continue
            unlisted.setdefault(name, set()).update(who)
            ctx.note("env read by library code (perturbed in one run): %s" % name)
    for name in unlisted:
        cur = os.environ.get(name)
        extra[name] = "vmon-perturbed" if cur != "vmon-perturbed" else "vmon-perturbed-2"
    for jid, calls in base["clock"].items():
        for fn in calls:
            ctx.note("clock read by library code: %s" % fn)
    runs = {seeds[0]: base}
    for i, s in enumerate(seeds[1:-1]):
        # the first extra interpreter also runs the jobs in the opposite order: what a job produces must
        # not depend on what the same interpreter did before (module-level state, shared option defaults)
        tz = TZS[i % len(TZS)]
        lab = ("%s+tz" % s) if i else "%s+reversed+tz" % s
        runs[lab], err = _pipe(dict(spec, order="reversed") if i == 0 else spec, s, scratch, extra_env={"TZ": tz})
        if runs[lab] is None:
            ctx.inconclusive("pipeline runner failed under seed %s: %s" % (s, err))
            return
    if case["pipeline"] in EPOCH_FREE:
        # inputs are opened with recalcTimestamp=False: nothing of SOURCE_DATE_EPOCH may reach the output
        lab = "%s+epoch" % seeds[0]
        runs[lab], err = _pipe(spec, seeds[0], scratch, extra_env={"SOURCE_DATE_EPOCH": str(int(env.EPOCH) + 3 * 86400 + 7)})
        if runs[lab] is None:
            ctx.inconclusive("pipeline runner failed under another SOURCE_DATE_EPOCH: %s" % err)
            return
    last = seeds[-1]
    pspec = dict(spec, clock_shift=CLOCK_SHIFT)
    cwd2 = tempfile.mkdtemp(prefix="c16cwd-", dir=scratch)
    runs["%s+env+clock" % last], err = _pipe(pspec, last, scratch, extra_env=extra, cwd=cwd2)
    if runs["%s+env+clock" % last] is None:
        ctx.inconclusive("pipeline runner failed under perturbed environment: %s" % err)
        return
    labels = list(runs)
    ok_jobs = 0
    for job in jobs:
        jid = job["id"]
        recs = {lab: runs[lab]["jobs"].get(jid) for lab in labels}
        b = recs[labels[0]]
        outcomes = {lab: (("ok" if r["ok"] else "EXC:" + r["error"]) if r else "missing") for lab, r in recs.items()}
        if len(set(outcomes.values())) > 1:
            ctx.judged()
            lab2 = next(l for l in labels if outcomes[l] != outcomes[labels[0]])
            ctx.violation({"kind": _kind_of_label(lab2), "pipeline": job["pipeline"],
                           "what": "outcome-differs", "outcomes": sorted(set(outcomes.values()))},
                          "%s on %s: %s under seed %s but %s under %s" % (job["pipeline"], _job_name(job),
                                                                          outcomes[labels[0]], labels[0], outcomes[lab2], lab2),
                          {"job": _job_desc(job), "outcomes": outcomes,
                           "traceback": next((r.get("tb") for r in recs.values() if r and not r["ok"]), None)})
            continue
        if not b["ok"]:
            ctx.skip("pipeline rejects input consistently: %s/%s" % (job["pipeline"], b["error"]))
            continue
        if not b["tables"]:
            ctx.skip("pipeline produced no tables")
            continue
        ok_jobs += 1
        ctx.nontrivial("det:%s" % hashlib.sha256(json.dumps(_job_desc(job), sort_keys=True).encode()).hexdigest()[:16])
        for lab in labels[1:]:
            ctx.judged()
            r = recs[lab]
            if r["tables"] == b["tables"]:
                continue
            tags = [t for t in sorted(set(b["tables"]) | set(r["tables"])) if b["tables"].get(t) != r["tables"].get(t)]
            real = [t for t in tags if not t.startswith("<")] or tags
            kind = _attribute(spec, job, b, lab, last, seeds[0], extra, cwd2, scratch, ctx)
            first = real[0]
            witness = {"job": _job_desc(job), "seed_a": labels[0], "seed_b": lab, "differing_tables": tags}
            witness["xml_diff"] = _xml_witness(job, first, labels[0], lab, last, extra, cwd2, scratch)
            if kind != "hashseed":
                witness["clock_calls"] = runs[lab]["clock"].get(jid)
                witness["env_reads"] = runs[lab]["env"].get(jid)
            ctx.violation({"kind": kind, "pipeline": job["pipeline"], "table": first},
                          "%s on %s is not deterministic: table %r differs between run %s and run %s"
                          % (job["pipeline"], _job_name(job), first, labels[0], lab), witness)
            break
    ctx.note("pipeline jobs compared (%s)" % case["pipeline"], ok_jobs)
    ctx.sample = {"kind": "seeds", "pipeline": case["pipeline"], "jobs": len(jobs), "compared": ok_jobs,
                  "interpreters": labels, "inputs": [_job_name(j) for j in jobs][:5]}


def _kind_of_label(lab):
    return ("environment" if "+env" in lab else "epoch" if "+epoch" in lab else "process-history" if "+reversed" in lab
            else "environment" if "+tz" in lab else "hashseed")


def _attribute(spec, job, base_rec, lab, rand_seed, seed0, extra, cwd2, scratch, ctx):
    """Which dimension makes the output differ: rerun the job alone with one thing changed at a time."""
    one = {"jobs": [job]}
    jid = job["id"]

    def differs(r):
        return bool(r) and r["jobs"][jid].get("tables") != base_rec["tables"]

    if "+epoch" in lab:
        return "epoch"
    alone, _ = _pipe(one, seed0, scratch)
    if differs(alone):
        again, _ = _pipe(spec, seed0, scratch)
        if again and again["jobs"][jid].get("tables") == base_rec["tables"]:
            # reproducible inside the batch, different when the job is the only thing the interpreter does
            return "process-history"
        # same seed, same environment, another process: clock, pid or address dependence
        r2, _ = _pipe(dict(one, clock_shift=CLOCK_SHIFT), seed0, scratch)
        return "clock" if (r2 and (r2["clock"].get(jid) or alone["clock"].get(jid))) else "unstable-across-processes"
    if "+reversed" in lab or "+tz" in lab:
        r, _ = _pipe(one, lab.split("+")[0], scratch)
        if differs(r):
            return "hashseed"
        tz = next((t for i, t in enumerate(TZS) if True), TZS[0])
        for tz in TZS:
            r, _ = _pipe(one, seed0, scratch, extra_env={"TZ": tz})
            if differs(r):
                return "timezone"
        return "process-history" if "+reversed" in lab else "environment"
    if "+env" not in lab:
        return "hashseed"
    r, _ = _pipe(one, rand_seed, scratch)
    if differs(r):
        return "hashseed"
    r, _ = _pipe(dict(one, clock_shift=CLOCK_SHIFT), seed0, scratch)
    if differs(r):
        return "clock"
    return "environment"


def _xml_witness(job, tag, lab_a, lab_b, rand_seed, extra, cwd2, scratch):
    one = {"jobs": [job], "xml": {job["id"]: [tag]}}
    outs = []
    for lab in (lab_a, lab_b):
        if "+env" in lab:
            r, _ = _pipe(dict(one, clock_shift=CLOCK_SHIFT), rand_seed, scratch, extra_env=extra, cwd=cwd2)
        elif "+epoch" in lab:
            r, _ = _pipe(one, lab.split("+")[0], scratch, extra_env={"SOURCE_DATE_EPOCH": str(int(env.EPOCH) + 3 * 86400 + 7)})
        else:
            r, _ = _pipe(one, lab.split("+")[0], scratch)
        x = (r or {}).get("jobs", {}).get(job["id"], {}).get("xml", {}).get(tag, "")
        outs.append(x.splitlines())
    return list(difflib.unified_diff(outs[0], outs[1], "run " + lab_a, "run " + lab_b, lineterm=""))[:40]


# ------------------------------------------------------------------ save; save after a pipeline
def run_twice(case, ctx, rnd):
    """The font object a pipeline hands back is saved twice (and dumped in between): identical bytes."""
    from vmon import c16_pipe

    os.environ.setdefault("VMON_REPO", env.REPO)
    n = 0
    for job in case["jobs"]:
        _cur.update(source="pipeline:" + job["pipeline"], font=str(job.get("input") or job.get("inputs")))
        try:
            res = c16_pipe.PIPES[job["pipeline"]](job)
        except (CaseTimeout, MemoryError):
            raise
        except Exception as e:
            ctx.skip("pipeline rejects input: %s/%s" % (job["pipeline"], type(e).__name__))
            continue
        if isinstance(res, tuple):
            ctx.skip("pipeline does not return a font object")
            continue
        font = res
        _cur.update(purity_on=True, depth=0)
        try:
            try:
                loaded = set(font.tables)
                a = corpus.save_bytes(font)
                if set(font.tables) != loaded:
                    # the first save decompiled tables the pipeline had left unloaded (e.g. head, fetched by
                    # another table's compile): save #2 recompiles them, which is raw-copy versus recompile
                    # (C01's subject, see ASSUMPTIONS).  From here on the loaded set is stable: judge #2 vs #3.
                    ctx.note("first save loaded further tables; judging saves #2 and #3 instead")
                    a = corpus.save_bytes(font)
            except (CaseTimeout, MemoryError):
                raise
            except Exception as e:
                ctx.skip("pipeline output does not save: %s" % type(e).__name__)
                continue
            loaded = set(font.tables)
            try:
                font.saveXML(io.StringIO())
            except (CaseTimeout, MemoryError):
                raise
            except Exception:
                ctx.note("saveXML of pipeline output raised (not this property)")
            try:
                if set(font.tables) != loaded:
                    # the dump decompiled tables that save #1 had copied raw (the pipeline returned a lazily
                    # loaded font): later saves recompile them - again C01's comparison, not purity.  The
                    # loaded set is stable now: judge the two saves that follow the dump.
                    ctx.note("dump loaded further tables; judging the two saves after it")
                    a = corpus.save_bytes(font)
                b = corpus.save_bytes(font)
                err = None
            except (CaseTimeout, MemoryError):
                raise
            except Exception as e:
                b, err = None, type(e).__name__
        finally:
            _cur.update(purity_on=False, depth=0)
        ctx.judged()
        n += 1
        ctx.nontrivial("tw:%s" % hashlib.sha256(json.dumps(_job_desc(job), sort_keys=True).encode()).hexdigest()[:16])
        if b is None:
            _once(ctx, {"kind": "purity", "what": "later-save-raises", "source": _cur["source"], "type": err},
                  "%s output of %s: first save succeeds, second raises %s" % (job["pipeline"], _cur["font"], err), {"job": _job_desc(job)})
        elif a != b:
            for tag in diff_tables(a, b):
                _once(ctx, {"kind": "purity", "table": tag, "source": _cur["source"], "observation": "save"},
                      "%s output of %s: save; saveXML; save gives different bytes in %r" % (job["pipeline"], _cur["font"], tag),
                      {"job": _job_desc(job), "xml_diff": xml_diff(a, b, tag)})
    ctx.note("pipeline outputs saved twice (%s)" % case["pipeline"], n)
    ctx.note("purity monitor evaluations", _cur["purity_evals"])
    ctx.note("purity monitor precondition not met", _cur["purity_skips"])
    _cur["purity_evals"] = _cur["purity_skips"] = 0
    ctx.sample = {"kind": "twice", "pipeline": case["pipeline"], "jobs": len(case["jobs"]), "judged": n}


# ------------------------------------------------------------------ lazy x access order (in process)
def env_epoch_diff():
    import calendar

    return -calendar.timegm((1904, 1, 1, 0, 0, 0, 0, 0, 0))


LAZY_EDITS = {"cmap": ("cmap.add", 1), "hmtx": ("hmtx.advance", 0), "name": ("name.add", 2), "OS/2": ("OS/2.usWeightClass", 1),
              "post": ("post.underlineThickness", 0), "head": ("head.lowestRecPPEM", 1), "hhea": ("hhea.lineGap", 0)}


def _lazy_input(case):
    rel = case["font"]
    member = case.get("member")
    if rel == "<built>":
        font = _built_font(member or 0)
        keep = os.environ.get("SOURCE_DATE_EPOCH")
        try:
            if (member or 0) % 4 >= 2 and "post" in font:
                font["post"].formatType = 3.0          # no glyph names in the file: they are made up from cmap on loading
            if (member or 0) % 2:
                os.environ["SOURCE_DATE_EPOCH"] = "0"  # head.created/modified exactly at the Unix epoch
                font["head"].created = font["head"].modified = env_epoch_diff()   # 0x7C25B080
            return corpus.save_bytes(font)
        finally:
            os.environ["SOURCE_DATE_EPOCH"] = keep if keep is not None else env.EPOCH
    if rel.startswith("genfea:"):
        import random as _r
        from vmon import c16_pipe
        from vmon.gen import c16_fea
        from fontTools.feaLib.builder import addOpenTypeFeaturesFromString
        from fontTools.fontBuilder import FontBuilder
        from fontTools.ttLib.tables._g_l_y_f import Glyph

        os.environ.setdefault("VMON_REPO", env.REPO)
        c16_pipe._fea_font()
        order = list(c16_pipe.FEA_GLYPHS)
        fb = FontBuilder(1000, isTTF=True)
        fb.setupGlyphOrder(order)
        fb.setupCharacterMap({ord(g): g for g in order if len(g) == 1})
        fb.setupGlyf({g: Glyph() for g in order})
        fb.setupHorizontalMetrics({g: (500, 0) for g in order})
        fb.setupHorizontalHeader(ascent=800, descent=-200)
        fb.setupNameTable({"familyName": "Gen", "styleName": "Regular"})
        fb.setupOS2()
        fb.setupPost()
        addOpenTypeFeaturesFromString(fb.font, c16_fea.generate(_r.Random("c16-fea/%s" % rel[7:])))
        return corpus.save_bytes(fb.font)
    if rel.startswith("fea:"):
        from vmon import c16_pipe

        os.environ.setdefault("VMON_REPO", env.REPO)
        return c16_pipe.fea_font_bytes(rel[4:])
    if member is None:
        with open(corpus.abspath(rel), "rb") as f:
            return f.read()
    return corpus.font_bytes(rel, member)


def run_lazyseq(case, ctx, rnd):
    """Several fonts read with lazy=True one after the other (every rotation of the list), each dumped and
    saved; the bytes must equal those obtained with lazy=None, whatever was read before in the process."""
    inputs = []
    for rel in case["fonts"]:
        try:
            data = corpus.font_bytes(rel) if not rel.startswith(("fea:", "genfea:")) else _lazy_input({"font": rel})
        except (CaseTimeout, MemoryError):
            raise
        except Exception as e:
            ctx.skip("input font cannot be built: %s" % type(e).__name__)
            continue
        inputs.append((rel, data))

    def process(data, lazy):
        try:
            f = corpus.open_bytes(data, lazy=lazy)
            f.saveXML(io.StringIO())
            return corpus.save_bytes(f), None
        except (CaseTimeout, MemoryError):
            raise
        except Exception as e:
            return None, type(e).__name__

    ref = {rel: process(data, None) for rel, data in inputs}
    n = 0
    for rot in range(len(inputs)):
        seq = inputs[rot:] + inputs[:rot]
        for pos, (rel, data) in enumerate(seq):
            out, err = process(data, True)
            ctx.judged()
            n += 1
            rout, rerr = ref[rel]
            if err != rerr:
                _once(ctx, {"kind": "lazy-order", "what": "outcome-differs", "outcomes": sorted({str(err), str(rerr)}), "sequence": True},
                      "%s read lazily after %s: %s, but %s with lazy=None" % (rel, [r for r, d in seq[:pos]][-2:], err or "ok", rerr or "ok"),
                      {"font": rel, "read_before": [r for r, d in seq[:pos]]})
            elif out != rout:
                tags = diff_tables(rout, out)
                _once(ctx, {"kind": "lazy-order", "table": tags[0], "lazy_differs": True, "sequence": True},
                      "%s read with lazy=True after other fonts gives different bytes than with lazy=None: %s" % (rel, tags),
                      {"font": rel, "read_before": [r for r, d in seq[:pos]], "xml_diff": xml_diff(rout, out, tags[0])})
            elif err is None:
                ctx.nontrivial("ls:%s:%d:%d" % (rel[-20:], rot, pos))
    ctx.sample = {"kind": "lazyseq", "fonts": [r for r, d in inputs], "reads": n}


def run_lazyorder(case, ctx, rnd):
    rel = case["font"]
    try:
        data = _lazy_input(case)
    except (CaseTimeout, MemoryError):
        raise
    except Exception as e:
        ctx.skip("input font cannot be built: %s" % type(e).__name__)
        return
    variants = []
    for lazy in (None, True, False):
        for p in range(case["perms"]):
            variants.append((lazy, p))
    edits = bool(case.get("edits"))
    results = []
    if case.get("own_output") and not edits:
        # the input was just written by the library itself: loading and saving it without touching anything,
        # or after decompiling everything, must give back the same file (fixed point on its own output)
        try:
            results.append(("untouched", 0, [], corpus.save_bytes(corpus.open_bytes(data, lazy=True)), None, None))
        except (CaseTimeout, MemoryError):
            raise
        except Exception as e:
            results.append(("untouched", 0, None, None, type(e).__name__, None))
    for lazy, p in variants:
        dump = None
        try:
            f = corpus.open_bytes(data, lazy=lazy)
            tags = [t for t in f.keys() if t != "GlyphOrder"]
            if p:
                random.Random("%s/%d/%s" % (rel, p, case["seed"])).shuffle(tags)
            if p == 1 and "cmap" in tags:
                tags.remove("cmap")
                tags.insert(0, "cmap")          # the table that makes up glyph names, touched before all others
            elif p == 2:
                f.getGlyphOrder()               # ... and here the glyph order is settled before any table is touched
            for t in tags:
                tb = f[t]
                if edits and t in LAZY_EDITS:
                    # the same edits in every variant, made through the object the first access returned
                    _edit(f, LAZY_EDITS[t][0], LAZY_EDITS[t][1], table=tb)
            if p % 2 == 0:
                # dump before saving (the dump walks the lazily read structures in its own order)
                s = io.StringIO()
                f.saveXML(s)
                dump = s.getvalue()
            out = corpus.save_bytes(f)
            results.append((lazy, p, tags, out, None, dump))
        except (CaseTimeout, MemoryError):
            raise
        except Exception as e:
            results.append((lazy, p, None, None, type(e).__name__, dump))
    ref = results[0]
    refdump = next((r[5] for r in results if r[5] is not None), None)
    for r in results[1:]:
        ctx.judged()
        if r[4] != ref[4]:
            ctx.violation({"kind": "lazy-order", "what": "outcome-differs", "outcomes": sorted({str(ref[4]), str(r[4])})},
                          "load/decompile-all/(dump)/save of %s: %s with lazy=%r order#%d but %s with lazy=%r order#%d"
                          % (rel, ref[4] or "ok", ref[0], ref[1], r[4] or "ok", r[0], r[1]), {"font": rel})
            break
        if r[3] != ref[3]:
            tags = diff_tables(ref[3], r[3])
            ctx.violation({"kind": "lazy-order", "table": tags[0], "lazy_differs": r[0] != ref[0]},
                          "load/decompile-all/save of %s gives different bytes with lazy=%r order#%d than with lazy=%r order#%d: %s"
                          % (rel, r[0], r[1], ref[0], ref[1], tags),
                          {"font": rel, "order_a": ref[2], "order_b": r[2], "lazy_a": ref[0], "lazy_b": r[0], "differing_tables": tags,
                           "xml_diff": xml_diff(ref[3], r[3], tags[0])})
            break
        if r[5] is not None and refdump is not None and r[5] != refdump:
            d = list(difflib.unified_diff(refdump.splitlines(), r[5].splitlines(), "first", "lazy=%r" % r[0], lineterm=""))[:30]
            ctx.violation({"kind": "lazy-order", "what": "dump-differs", "lazy_differs": r[0] != ref[0]},
                          "the TTX dump of %s read with lazy=%r order#%d differs from the dump of the same bytes read another way"
                          % (rel, r[0], r[1]), {"font": rel, "diff": d})
            break
        if ref[4] is None:
            ctx.nontrivial("lo:%s:%s:%s:%d" % (rel[-22:], case.get("member"), r[0], r[1]))
    if ref[4] is not None:
        ctx.skip("font does not recompile: %s" % ref[4])
    ctx.sample = {"kind": "lazyorder", "font": rel, "variants": len(variants), "outcome": ref[4] or "ok", "bytes": len(data)}


# ------------------------------------------------------------------ histories
def _built_font(k):
    """A FontBuilder font with feaLib-compiled layout that has never been saved."""
    from fontTools.fontBuilder import FontBuilder
    from fontTools.pens.ttGlyphPen import TTGlyphPen
    from fontTools.pens.t2CharStringPen import T2CharStringPen
    from fontTools.feaLib.builder import addOpenTypeFeaturesFromString

    names = [".notdef", "space", "A", "B", "C", "a", "b", "f", "i", "f_i", "acutecomb", "A.alt"]
    cmap = {32: "space", 65: "A", 66: "B", 67: "C", 97: "a", 98: "b", 102: "f", 105: "i", 0x301: "acutecomb"}
    ttf = k % 2 == 0
    fb = FontBuilder(1000, isTTF=ttf)
    fb.setupGlyphOrder(names)
    fb.setupCharacterMap(cmap)

    def draw(pen, i):
        pen.moveTo((10 * i, 0))
        pen.lineTo((10 * i, 500 + i))
        if ttf:
            pen.qCurveTo((200 + i, 600), (300, 250 + i))
        else:
            pen.curveTo((200 + i, 600), (300, 500), (300, 250 + i))
        pen.lineTo((300, 0))
        pen.closePath()

    if ttf:
        glyphs = {}
        for i, n in enumerate(names):
            pen = TTGlyphPen(None)
            if n not in ("space",):
                draw(pen, i)
            glyphs[n] = pen.glyph()
        fb.setupGlyf(glyphs)
    else:
        cs = {}
        for i, n in enumerate(names):
            pen = T2CharStringPen(500 + i, None)
            if n not in ("space",):
                draw(pen, i)
            cs[n] = pen.getCharString()
        fb.setupCFF("Built-Regular", {"FullName": "Built Regular"}, cs, {})
    fb.setupHorizontalMetrics({n: (500 + i, 10 * i) for i, n in enumerate(names)})
    fb.setupHorizontalHeader(ascent=800, descent=-200)
    fb.setupNameTable({"familyName": "Built", "styleName": "Regular"})
    fb.setupOS2(sTypoAscender=800, usWinAscent=800, usWinDescent=200)
    fb.setupPost()
    fea = """
        languagesystem DFLT dflt; languagesystem latn dflt;
        @UC = [A B C];
        feature cv01 { cvParameters { FeatUILabelNameID { name "cv one"; }; Character 0x41; }; sub A by A.alt; } cv01;
        feature ss01 { featureNames { name "Stylistic one"; }; sub B by C; } ss01;
        feature liga { sub f i by f_i; } liga;
        feature salt { sub A by A.alt; sub a from [b A.alt B]; } salt;
        feature kern { lookup k { pos A B -40; pos A <0 0 -30 0> b <10 0 0 0>; subtable; pos @UC a -15; pos B [a b] <0 0 -10 0>; } k; } kern;
        feature mark { markClass acutecomb <anchor 0 500> @TOP; pos base [A a] <anchor 250 700> mark @TOP; } mark;
        table GDEF { GlyphClassDef [A B C a b f i A.alt], [f_i], [acutecomb], ; } GDEF;
    """
    addOpenTypeFeaturesFromString(fb.font, fea)
    if k % 4 >= 2:
        fb.setupDummyDSIG()
    return fb.font


def _fresh(case, mode, k=0):
    rel = case["font"]
    if mode == "built":
        return _built_font(k)
    if mode == "ttx":
        return corpus.load(rel)
    data = corpus.font_bytes(rel)
    if mode == "raw":
        # k odd: the recalculation switches are off, so that save() itself loads no table
        return corpus.open_bytes(data, lazy=(None, True)[(k // 2) % 2], recalcBBoxes=(k % 2 == 0), recalcTimestamp=False)
    f = corpus.open_bytes(data, lazy=(None, False, True)[k % 3])
    f.ensureDecompiled()
    return f


def _lazy_of(mode, k):
    return repr((None, False, True)[k % 3]) if mode == "decoded" else ("raw" if mode == "raw" else "n/a")


EDITS = ["head.lowestRecPPEM", "OS/2.usWeightClass", "hhea.lineGap", "post.underlineThickness", "name.add", "hmtx.advance",
         "cmap.add", "glyf.move", "CFF.underline", "maxp.noop", "flavor", "GSUB.flag", "GPOS.flag", "fvar.flags", "gasp.add",
         "hmtx.all", "glyf.far", "COLR.clip", "GSUB.subst", "GPOS.value", "GDEF.class"]


def _edit(font, name, k, table=None):
    """Deterministic edits through the public object model; returns False when not applicable.
    `table`: the table object the caller already obtained from font[tag] (edited as is, not fetched again)."""
    try:
        if name == "flavor":
            font.flavor = [None, "woff", None][k % 3] if font.flavor is None else None
            return True
        tag = {"OS/2": "OS/2", "CFF": "CFF "}.get(name.split(".")[0], name.split(".")[0])
        if tag not in font or (name == "glyf.far" and "gvar" in font):
            return False
        t = table if table is not None else font[tag]
        if name == "head.lowestRecPPEM":
            t.lowestRecPPEM = (t.lowestRecPPEM + 1 + k) % 200
        elif name == "OS/2.usWeightClass":
            t.usWeightClass = 100 + (t.usWeightClass + 100 * (k + 1)) % 900
        elif name == "hhea.lineGap":
            t.lineGap = (t.lineGap + 7 + k) % 1000
        elif name == "post.underlineThickness":
            t.underlineThickness = (t.underlineThickness + 1 + k) % 500
        elif name == "name.add":
            t.setName("Edited %d" % k, 5, 3, 1, 0x409)
        elif name == "hmtx.advance":
            g = font.getGlyphOrder()[min(k, len(font.getGlyphOrder()) - 1)]
            adv, lsb = t.metrics[g]
            t.metrics[g] = ((adv + 10) % 4000, lsb)
        elif name == "hmtx.all":
            # every advance equal: the number of long metrics (a field of hhea) changes
            for g in font.getGlyphOrder():
                t.metrics[g] = (777 + k, t.metrics[g][1])
        elif name == "glyf.far":
            # bounding boxes of the glyph, of head and the maxima of hhea change
            for gname in font.getGlyphOrder():
                g = t[gname]
                if g.numberOfContours > 0:
                    g.coordinates[0] = (g.coordinates[0][0] + 3000 + k, g.coordinates[0][1])
                    return True
            return False
        elif name == "COLR.clip":
            # same-length in-place edit of the clip boxes: one glyph gets another glyph's box
            cl = getattr(t.table, "ClipList", None) if hasattr(t, "table") else None
            clips = getattr(cl, "clips", None)
            if not clips or len(clips) < 2:
                return False
            names = sorted(clips)
            a, b = names[k % len(names)], names[(k + 1) % len(names)]
            if clips[a] is clips[b] or vars(clips[a]) == vars(clips[b]):
                import copy as _copy

                box = _copy.copy(clips[b])
                for attr in ("xMin", "yMin"):
                    if hasattr(box, attr):
                        setattr(box, attr, getattr(box, attr) - 7 - k)
                clips[a] = box
            else:
                clips[a] = clips[b]
        elif name == "GSUB.subst":
            # in-place edit of the first single/alternate/ligature substitution mapping
            for lk in (t.table.LookupList.Lookup if t.table.LookupList else []):
                for st in lk.SubTable:
                    st = getattr(st, "ExtSubTable", st)
                    if lk.LookupType in (1, 7) and getattr(st, "mapping", None):
                        g = sorted(st.mapping)[0]
                        st.mapping[g] = sorted(st.mapping.values())[-1 - (k % len(st.mapping))]
                        return True
                    if getattr(st, "alternates", None):
                        g = sorted(st.alternates)[0]
                        st.alternates[g] = list(reversed(st.alternates[g])) + st.alternates[g][: k % 2]
                        return True
                    if getattr(st, "ligatures", None):
                        g = sorted(st.ligatures)[0]
                        if st.ligatures[g]:
                            st.ligatures[g][0].LigGlyph = font.getGlyphOrder()[min(1 + k, len(font.getGlyphOrder()) - 1)]
                            return True
            return False
        elif name == "GPOS.value":
            for lk in (t.table.LookupList.Lookup if t.table.LookupList else []):
                for st in lk.SubTable:
                    st = getattr(st, "ExtSubTable", st)
                    if lk.LookupType in (1, 9) and getattr(st, "Value", None) is not None and hasattr(st.Value, "XAdvance"):
                        st.Value.XAdvance += 3 + k
                        return True
                    if getattr(st, "Format", None) == 1 and getattr(st, "PairSet", None):
                        for ps in st.PairSet:
                            for rec in ps.PairValueRecord:
                                if rec.Value1 is not None and hasattr(rec.Value1, "XAdvance"):
                                    rec.Value1.XAdvance -= 3 + k
                                    return True
                    if getattr(st, "Format", None) == 2 and getattr(st, "Class1Record", None):
                        for c1 in st.Class1Record:
                            for c2 in c1.Class2Record:
                                if c2.Value1 is not None and hasattr(c2.Value1, "XAdvance"):
                                    c2.Value1.XAdvance -= 3 + k
                                    return True
            return False
        elif name == "GDEF.class":
            cd = getattr(t.table, "GlyphClassDef", None)
            if cd is None or not getattr(cd, "classDefs", None):
                return False
            g = sorted(cd.classDefs)[k % len(cd.classDefs)]
            cd.classDefs[g] = 1 + (cd.classDefs[g] % 3)
        elif name == "cmap.add":
            order = font.getGlyphOrder()
            done = False
            for st in t.tables:
                if st.isUnicode() and st.format in (4, 12):
                    st.cmap[0xE000 + k] = order[min(1, len(order) - 1)]
                    done = True
            return done
        elif name == "glyf.move":
            for gname in font.getGlyphOrder():
                g = t[gname]
                if g.numberOfContours > 0:
                    g.coordinates.translate((1 + k, 0))
                    return True
            return False
        elif name == "CFF.underline":
            td = t.cff.topDictIndex[0]
            td.UnderlinePosition = getattr(td, "UnderlinePosition", -100) - 1 - k
        elif name == "maxp.noop":
            t.numGlyphs = t.numGlyphs
        elif name in ("GSUB.flag", "GPOS.flag"):
            ll = getattr(t.table, "LookupList", None)
            if not ll or not ll.Lookup:
                return False
            lk = ll.Lookup[k % len(ll.Lookup)]
            lk.LookupFlag ^= 0x0008
        elif name == "fvar.flags":
            t.axes[0].flags ^= 1
        elif name == "gasp.add":
            t.gaspRange[0xFFFF] = (t.gaspRange.get(0xFFFF, 0) ^ 1) & 0xF
        return True
    except (CaseTimeout, MemoryError):
        raise
    except Exception:
        return False


def _set_epoch(k):
    """History step 'time passes': the pinned clock moves on (an input of both compared histories)."""
    # k == 0: the Unix epoch itself (head.modified becomes exactly 1970-01-01, a boundary of the reader's
    # "looks like a Unix timestamp" heuristic)
    os.environ["SOURCE_DATE_EPOCH"] = "0" if int(k) == 0 else str(int(env.EPOCH) + 100000 * (int(k) + 1))


class _Boom(RuntimeError):
    pass


def _failing_save(saver, font, tag):
    """A save that fails because one table cannot be compiled; the cause is removed afterwards."""
    if tag not in font:
        return
    victim = font[tag]

    def boom(f, _t=tag):
        raise _Boom(_t)

    victim.compile = boom
    try:
        saver()
    except _Boom:
        pass
    finally:
        try:
            del victim.compile
        except AttributeError:
            pass


def _observe(font, op, arg):
    from fontTools.pens.recordingPen import RecordingPen

    if op == "failsave":
        _failing_save(lambda: font.save(io.BytesIO()), font, arg)
    elif op == "save":
        b = io.BytesIO()
        font.save(b, reorderTables=arg)
    elif op == "saveXML":
        s = io.StringIO()
        if arg:
            font.saveXML(s, tables=[arg])
        else:
            font.saveXML(s)
    elif op == "getTableData":
        font.getTableData(arg)
    elif op == "compile":
        font[arg].compile(font)
    elif op == "draw":
        gs = font.getGlyphSet()
        for n in arg:
            gs[n].draw(RecordingPen())
    else:
        raise ValueError(op)


def _gen_history(rnd, font, mode, turn=None):
    tags = [t for t in font.keys() if t != "GlyphOrder"]
    order = None
    if mode != "raw":
        try:
            order = font.getGlyphOrder()
        except Exception:
            order = None
    n = rnd.randrange(3, 11)
    ops = []
    tagof = lambda e: {"OS/2": "OS/2", "CFF": "CFF "}.get(e.split(".")[0], e.split(".")[0])
    applicable = [e for e in EDITS if e == "flavor" or tagof(e) in tags]
    if mode == "raw":
        menu = ["obs:save"] * 3 + ["obs:getTableData"] * 3 + ["access"] * 2
    else:
        menu = (["obs:save"] * 4 + ["obs:saveXML"] * 2 + ["obs:getTableData"] * 3 + ["obs:compile"] * 3 + ["obs:draw"] + ["obs:failsave"]
                + ["edit"] * 4 + ["epoch"] + ["access"])
    for _ in range(n):
        m = rnd.choice(menu)
        if m == "access":
            ops.append(["access", rnd.choice(tags), None])
        elif m == "edit":
            ops.append(["edit", rnd.choice(applicable or EDITS), rnd.randrange(4)])
        elif m == "epoch":
            ops.append(["edit", "epoch", rnd.randrange(6)])
        elif m == "obs:failsave":
            ops.append(["obs", "failsave", rnd.choice(tags)])
        elif m == "obs:save":
            ops.append(["obs", "save", rnd.choice([True, True, False, None])])
        elif m == "obs:saveXML":
            ops.append(["obs", "saveXML", rnd.choice([None, rnd.choice(tags)])])
        elif m == "obs:getTableData":
            ops.append(["obs", "getTableData", rnd.choice(tags)])
        elif m == "obs:compile":
            ops.append(["obs", "compile", rnd.choice(tags)])
        elif m == "obs:draw":
            if order and ("glyf" in font or "CFF " in font or "CFF2" in font):
                ops.append(["obs", "draw", rnd.sample(order, min(3, len(order)))])
    if not any(o[0] == "obs" for o in ops):
        ops.insert(rnd.randrange(len(ops) + 1), ["obs", "save", True])
    if mode != "raw" and applicable and turn is not None:
        # the shape "look at the font, then change it in place": every table-specific edit gets its turn right
        # after an observation (caches filled by a dump or a compile must not outlive the edit)
        structural = [e for e in applicable if e.split(".")[0] in ("COLR", "GSUB", "GPOS", "GDEF", "cmap", "name", "glyf", "hmtx", "CFF")]
        structural.sort(key=lambda e: (e.split(".")[0] in ("cmap", "name", "glyf", "hmtx"), e))   # rarer tables first
        for j in range(min(3, len(structural))):
            e = structural[(turn * 3 + j) % len(structural)]
            which = (turn + j) % 3
            if which == 0:
                ops.append(["obs", "saveXML", None])
            elif which == 1:
                ops.append(["obs", "compile", tagof(e)])
            else:
                ops.append(["obs", "save", True])
            ops.append(["edit", e, rnd.randrange(4)])
    return ops


def _play(case, mode, k, ops, with_obs, ctx=None):
    """Returns (final bytes | None, error string | None, applied-edit flags, index of raising observation)."""
    keep = os.environ.get("SOURCE_DATE_EPOCH")
    try:
        return _play_inner(case, mode, k, ops, with_obs)
    finally:
        os.environ["SOURCE_DATE_EPOCH"] = keep if keep is not None else env.EPOCH


def _play_inner(case, mode, k, ops, with_obs):
    font = _fresh(case, mode, k)
    if (k // 2) % 2:
        # the pure-Python serializer instead of the HarfBuzz repacker (a documented configuration switch)
        try:
            font.cfg["fontTools.ttLib.tables.otBase:USE_HARFBUZZ_REPACKER"] = False
        except Exception:
            pass
    if mode != "raw" and k % 2:
        font.recalcTimestamp = True       # let head.modified follow the (pinned, history-controlled) clock
    applied = []
    for i, (kind, a, b) in enumerate(ops):
        if kind == "access":
            try:
                font[a]
            except (CaseTimeout, MemoryError):
                raise
            except Exception as e:
                return None, "access:%s:%s" % (a, type(e).__name__), applied, None
        elif kind == "edit" and a == "epoch":
            _set_epoch(b)
            applied.append(True)
        elif kind == "edit":
            applied.append(_edit(font, a, b))
        elif with_obs:
            loaded = set(font.tables)
            try:
                _observe(font, a, b)
            except (CaseTimeout, MemoryError):
                raise
            except Exception as e:
                return None, "obs:%s:%s" % (a, type(e).__name__), applied, i
            if mode == "raw" and set(font.tables) != loaded:
                # the observation decompiled a table (save with recalcBBoxes loads glyf/CFF to refresh head):
                # from here on the comparison would be raw-copy versus recompile, which is C01's subject
                return None, "precondition:%s-loaded-tables" % a, applied, i
    try:
        return corpus.save_bytes(font), None, applied, None
    except (CaseTimeout, MemoryError):
        raise
    except Exception as e:
        return None, "final-save:%s" % type(e).__name__, applied, None


def _once(ctx, mech, what, witness):
    key = json.dumps(mech, sort_keys=True, default=repr)
    if key in _cur["seen"]:
        return
    _cur["seen"].add(key)
    ctx.violation(mech, what, witness)


def run_history(case, ctx, rnd):
    rel, mode = case["font"], case["mode"]
    _cur.update(source={"ttx": "ttx", "built": "built"}.get(mode, "binary"), font=rel)
    done = judged = 0
    for k in range(case["n"]):
        try:
            probe = _fresh(case, mode, k)
        except (CaseTimeout, MemoryError):
            raise
        except Exception as e:
            ctx.skip("cannot load font for histories: %s" % type(e).__name__)
            return
        if not [t for t in probe.keys() if t != "GlyphOrder"]:
            ctx.skip("font without tables")
            return
        ops = _gen_history(rnd, probe, mode, turn=k + case["seed"])
        del probe
        # the purity monitor watches the run that contains the observations
        _cur.update(purity_on=(mode != "raw"), depth=0)
        try:
            a, ea, appa, bad = _play(case, mode, k, ops, True)
        finally:
            _cur.update(purity_on=False, depth=0)
        if ea and ea.startswith("precondition:"):
            ctx.skip("raw mode: observation decompiled tables (not comparable)")
            continue
        if ea and ea.startswith("obs:"):
            ctx.skip("observation raised (not this property): %s" % ea.split(":", 2)[1])
            ctx.note("history abandoned, observation raised: %s" % ea)
            continue
        b, eb, appb, _ = _play(case, mode, k, ops, False)
        done += 1
        if appa != appb:
            ctx.judged()
            ctx.violation({"kind": "purity", "what": "edit-applicability-differs", "source": _cur["source"]},
                          "an edit that applies to the unobserved font does not apply after observations (or vice versa)",
                          {"font": rel, "mode": mode, "history": ops})
            continue
        if ea or eb:
            if ea == eb:
                ctx.skip("font cannot be saved in either history: %s" % ea)
                continue
            ctx.judged()
            judged += 1
            obs = _minimise(case, mode, k, ops, lambda x, ex: ex != eb)
            _once(ctx, {"kind": "purity", "what": "later-save-raises", "source": _cur["source"], "with_observations": ea, "without": eb,
                        "observation": obs[0][1] if len(obs) == 1 else "several"},
                          "final save of %s: %s with the observations, %s without" % (rel, ea or "ok", eb or "ok"),
                          {"font": rel, "mode": mode, "history": ops, "minimal_observations": obs})
            continue
        ctx.judged()
        judged += 1
        ctx.nontrivial("h:%s" % hashlib.sha256(json.dumps([rel, mode, k, ops], sort_keys=True, default=repr).encode()).hexdigest()[:16])
        ctx.note("histories judged (%s)" % mode)
        for o in ops:
            if o[0] == "obs":
                ctx.note("observations inserted: %s" % o[1])
        if a == b:
            continue
        tags = diff_tables(a, b)
        obs = _minimise(case, mode, k, ops, lambda x, ex: x != b)
        for tag in tags:
            last_edit = next((o[1] for o in reversed(ops) if o[0] == "edit" and o[1] != "epoch" and tag.strip() in o[1]), None)
            _once(ctx, {"kind": "purity", "table": tag, "source": _cur["source"],
                        "observation": obs[0][1] if len(obs) == 1 else "several", "lazy": _lazy_of(mode, k), "edit": last_edit},
                          "%s (%s): the final save differs in %r when observations are interleaved (%s)"
                          % (rel, mode, tag, ", ".join("%s(%s)" % (o[1], o[2]) for o in obs)[:200]),
                          {"font": rel, "mode": mode, "history": ops, "minimal_observations": obs, "size_with": len(a), "size_without": len(b),
                           "differing_tables": tags, "xml_diff": xml_diff(b, a, tag)})
    ctx.note("purity monitor evaluations", _cur["purity_evals"])
    ctx.note("purity monitor precondition not met", _cur["purity_skips"])
    _cur["purity_evals"] = _cur["purity_skips"] = 0
    ctx.sample = {"kind": "history", "font": rel, "mode": mode, "histories": done, "judged": judged}


def _minimise(case, mode, k, ops, bad):
    """Smallest set of observations that still shows the effect: try each single one."""
    obs_idx = [i for i, o in enumerate(ops) if o[0] == "obs"]
    for i in obs_idx:
        trial = [o for j, o in enumerate(ops) if o[0] != "obs" or j == i]
        try:
            x, ex, _, _ = _play(case, mode, k, trial, True)
        except Exception:
            continue
        if ex and ex.startswith(("precondition:", "obs:")):
            continue
        if bad(x, ex):
            return [ops[i]]
    return [ops[i] for i in obs_idx]


# ------------------------------------------------------------------ histories on collections
def _fresh_coll(case, k):
    from fontTools.ttLib import TTCollection

    kind, spec = case["source"].split(":", 1)
    if kind == "ttc":
        with open(corpus.abspath(spec), "rb") as f:
            data = f.read()
        c = TTCollection(io.BytesIO(data), lazy=(None, False, True)[k % 3], recalcTimestamp=bool(k % 2))
        for f in c.fonts:
            f.ensureDecompiled()
        return c
    members = []
    for i, rel in enumerate(spec.split("|")):
        if rel == "<built>":
            members.append(_built_font(k + i))
        else:
            mode = "ttx" if (rel.endswith(".ttx") and (k + i) % 2) else "decoded"
            members.append(_fresh({"font": rel}, mode, k))
    c = TTCollection()
    c.fonts = members
    return c


def _gen_coll_history(rnd, coll):
    n = rnd.randrange(3, 11)
    nm = len(coll.fonts)
    ops = []
    menu = (["obs:csave"] * 4 + ["obs:msave"] * 2 + ["obs:csaveXML"] + ["obs:mget"] * 2 + ["obs:mcompile"] * 2 + ["obs:cfail"] * 2
            + ["edit"] * 5 + ["epoch"] * 2 + ["access"])
    strong = ["hmtx.all", "glyf.far", "hmtx.advance", "glyf.move", "name.add", "OS/2.usWeightClass", "hhea.lineGap", "cmap.add"]
    for _ in range(n):
        m = rnd.randrange(nm)
        tags = [t for t in coll.fonts[m].keys() if t != "GlyphOrder"]
        c = rnd.choice(menu)
        if c == "epoch":
            ops.append(["edit", m, "epoch", rnd.randrange(6)])
        elif c == "obs:cfail":
            ops.append(["obs", "cfail", m, rnd.choice(tags)])
        elif c == "edit":
            ops.append(["edit", m, rnd.choice(strong), rnd.randrange(4)])
        elif c == "access":
            ops.append(["access", m, rnd.choice(tags), None])
        elif c == "obs:csave":
            ops.append(["obs", "csave", rnd.choice([True, True, False]), None])
        elif c == "obs:csaveXML":
            ops.append(["obs", "csaveXML", None, None])
        elif c == "obs:msave":
            ops.append(["obs", "msave", m, None])
        elif c == "obs:mget":
            ops.append(["obs", "mget", m, rnd.choice(tags)])
        else:
            ops.append(["obs", "mcompile", m, rnd.choice(tags)])
    # the shape that matters most: edit, save the collection, (save again)
    if not any(o[0] == "edit" for o in ops):
        ops.insert(0, ["edit", rnd.randrange(nm), rnd.choice(strong[:4]), rnd.randrange(4)])
    if any(o[0] == "obs" and o[1] == "cfail" for o in ops):
        last_fail = max(i for i, o in enumerate(ops) if o[0] == "obs" and o[1] == "cfail")
        ops.insert(last_fail + 1, ["edit", 0, "epoch", rnd.randrange(6, 12)])
    last_edit = max(i for i, o in enumerate(ops) if o[0] == "edit" and o[2] != "epoch") if any(o[0] == "edit" and o[2] != "epoch" for o in ops) else 0
    if not any(o[0] == "obs" and o[1] == "csave" for o in ops[last_edit:]):
        ops.append(["obs", "csave", True, None])
    return ops


def _play_coll(case, k, ops, with_obs):
    keep = os.environ.get("SOURCE_DATE_EPOCH")
    try:
        return _play_coll_inner(case, k, ops, with_obs)
    finally:
        os.environ["SOURCE_DATE_EPOCH"] = keep if keep is not None else env.EPOCH


def _play_coll_inner(case, k, ops, with_obs):
    coll = _fresh_coll(case, k)
    if k % 2:
        for f in coll.fonts:
            f.recalcTimestamp = True
    applied = []
    for i, op in enumerate(ops):
        if op[0] == "access":
            try:
                coll.fonts[op[1]][op[2]]
            except (CaseTimeout, MemoryError):
                raise
            except Exception as e:
                return None, "access:%s" % type(e).__name__, applied
        elif op[0] == "edit" and op[2] == "epoch":
            _set_epoch(op[3])
            applied.append(True)
        elif op[0] == "edit":
            applied.append(_edit(coll.fonts[op[1]], op[2], op[3]))
        elif with_obs:
            try:
                if op[1] == "cfail":
                    _failing_save(lambda: coll.save(io.BytesIO()), coll.fonts[op[2]], op[3])
                elif op[1] == "csave":
                    coll.save(io.BytesIO(), shareTables=op[2])
                elif op[1] == "csaveXML":
                    coll.saveXML(io.StringIO())
                elif op[1] == "msave":
                    coll.fonts[op[2]].save(io.BytesIO())
                elif op[1] == "mget":
                    coll.fonts[op[2]].getTableData(op[3])
                elif op[1] == "mcompile":
                    coll.fonts[op[2]][op[3]].compile(coll.fonts[op[2]])
            except (CaseTimeout, MemoryError):
                raise
            except Exception as e:
                return None, "obs:%s:%s" % (op[1], type(e).__name__), applied
    try:
        b = io.BytesIO()
        coll.save(b)
        return b.getvalue(), None, applied
    except (CaseTimeout, MemoryError):
        raise
    except Exception as e:
        return None, "final-save:%s" % type(e).__name__, applied


def run_collection(case, ctx, rnd):
    src = case["source"]
    _cur.update(source="collection", font=src)
    judged = 0
    for k in range(case["n"]):
        try:
            probe = _fresh_coll(case, k)
        except (CaseTimeout, MemoryError):
            raise
        except Exception as e:
            ctx.skip("cannot assemble collection: %s" % type(e).__name__)
            return
        ops = _gen_coll_history(rnd, probe)
        del probe
        _cur.update(purity_on=True, depth=0)
        try:
            a, ea, appa = _play_coll(case, k, ops, True)
        finally:
            _cur.update(purity_on=False, depth=0)
        if ea and ea.startswith("obs:"):
            ctx.skip("observation raised (not this property): %s" % ea.split(":", 2)[1])
            continue
        b, eb, appb = _play_coll(case, k, ops, False)
        if ea or eb:
            if ea == eb:
                ctx.skip("collection cannot be saved in either history: %s" % ea)
                continue
            ctx.judged()
            _once(ctx, {"kind": "purity", "what": "later-save-raises", "source": "collection", "with_observations": ea, "without": eb},
                  "final TTCollection.save of %s: %s with the observations, %s without" % (src, ea or "ok", eb or "ok"),
                  {"collection": src, "history": ops})
            continue
        ctx.judged()
        judged += 1
        ctx.nontrivial("c:%s" % hashlib.sha256(json.dumps([src, k, ops], sort_keys=True, default=repr).encode()).hexdigest()[:16])
        ctx.note("histories judged (collection)")
        for o in ops:
            if o[0] == "obs":
                ctx.note("observations inserted: %s" % o[1])
        if a == b:
            continue
        # smallest witness: a single observation that suffices
        obs_idx = [i for i, o in enumerate(ops) if o[0] == "obs"]
        minimal = [ops[i] for i in obs_idx]
        for i in obs_idx:
            trial = [o for j, o in enumerate(ops) if o[0] != "obs" or j == i]
            x, ex, _ = _play_coll(case, k, trial, True)
            if ex is None and x != b:
                minimal = [ops[i]]
                break
        for tag in diff_any(b, a):
            t = tag.split("/", 1)[-1]
            _once(ctx, {"kind": "purity", "table": t, "source": "collection",
                        "observation": minimal[0][1] if len(minimal) == 1 else "several"},
                  "%s: the final TTCollection.save differs in %r when observations are interleaved (%s)"
                  % (src, tag, ", ".join(o[1] for o in minimal)[:120]),
                  {"collection": src, "history": ops, "minimal_observations": minimal, "differing": diff_any(b, a),
                   "xml_diff": xml_diff(b, a, tag)})
    ctx.note("purity monitor evaluations", _cur["purity_evals"])
    ctx.note("purity monitor precondition not met", _cur["purity_skips"])
    _cur["purity_evals"] = _cur["purity_skips"] = 0
    ctx.sample = {"kind": "collection", "source": src, "histories": case["n"], "judged": judged}


# ------------------------------------------------------------------ failed saves leave no trace
class _Boom(RuntimeError):
    pass


def run_failedsave(case, ctx, rnd):
    rel = case["font"]
    mode = "ttx" if rel.endswith(".ttx") else "decoded"
    _cur.update(source="ttx" if mode == "ttx" else "binary", font=rel)
    ref_font = _fresh(case, mode, 0)
    try:
        ref = corpus.save_bytes(ref_font)
    except Exception as e:
        ctx.skip("font does not save: %s" % type(e).__name__)
        return
    tags = [t for t in ref_font.keys() if t != "GlyphOrder"]

    def compare(font, how, detail, failed):
        try:
            out = corpus.save_bytes(font)
            err = None
        except (CaseTimeout, MemoryError):
            raise
        except Exception as e:
            out, err = None, type(e).__name__
        ctx.judged()
        if out == ref:
            return
        effects = ["table-differs:%s" % t for t in diff_tables(ref, out)] if out is not None else ["later-save-raises:%s" % err]
        for eff in effects:
            mech = {"kind": "purity", "what": "failed-save-leaves-trace", "inject": how, "failed_table": failed, "effect": eff,
                    "source": _cur["source"]}
            tag = eff.split(":", 1)[1]
            _once(ctx, mech, "%s: after a save that failed (%s) and the cause was removed, the next save %s"
                  % (rel, detail, "raises " + tag if out is None else "differs in %r" % tag),
                  {"font": rel, "failure": detail, "xml_diff": xml_diff(ref, out, tag) if out else None})

    n = 0
    for tag in tags:
        font = _fresh(case, mode, 0)
        victim = font[tag]

        def boom(f, _t=tag):
            raise _Boom(_t)

        victim.compile = boom
        try:
            font.save(io.BytesIO())
            continue
        except _Boom:
            pass
        except (CaseTimeout, MemoryError):
            raise
        except Exception:
            pass
        del victim.compile
        n += 1
        ctx.nontrivial("fs:%s:%s" % (rel[-20:], tag))
        compare(font, "table-compile", "compile of %r raised" % tag, tag)
    ctx.note("failed saves injected (table compile)", n)

    # ---- natural failures: a field set out of range makes the table's own compile raise; the user
    # ---- corrects the value and saves again
    nn = 0
    for tag in tags:
        probe = ref_font[tag]
        holders = [("", probe)]
        if hasattr(probe, "table") and hasattr(probe.table, "__dict__"):
            holders.append((".table", probe.table))
        plan = []
        for hname, h in holders:
            names = sorted(k for k, v in vars(h).items() if isinstance(v, int) and not isinstance(v, bool) and not k.startswith("_"))
            rnd.shuffle(names)
            plan += [(hname, k) for k in names[:3]]
        if tag in ("hmtx", "vmtx"):
            plan.append(("metrics", None))
        for hname, attr in plan:
            font = _fresh(case, mode, 0)
            t = font[tag]
            try:
                if hname == "metrics":
                    g = font.getGlyphOrder()[0]
                    old = t.metrics[g]
                    t.metrics[g] = (2 ** 40, old[1])
                    undo = lambda t=t, g=g, old=old: t.metrics.__setitem__(g, old)
                    detail = "%s.metrics[%r] advance = 2**40" % (tag, g)
                else:
                    h = t.table if hname == ".table" else t
                    old = getattr(h, attr)
                    setattr(h, attr, 2 ** 40)
                    undo = lambda h=h, attr=attr, old=old: setattr(h, attr, old)
                    detail = "%s%s.%s = 2**40" % (tag, hname, attr)
            except Exception:
                continue
            try:
                font.save(io.BytesIO())
                continue                      # the value is ignored or recalculated: no failed save
            except (CaseTimeout, MemoryError):
                raise
            except Exception as e:
                detail += " -> save raised %s" % type(e).__name__
            undo()
            nn += 1
            ctx.nontrivial("fn:%s:%s:%s%s" % (rel[-16:], tag, hname, attr))
            compare(font, "out-of-range-value", detail, tag)
    ctx.note("failed saves provoked (field out of range, then corrected)", nn)

    # ---- failpoints on random lines of the save: leads only.  An exception at an arbitrary line is not
    # ---- something a caller can provoke, so a trace found this way is recorded in the evidence and must be
    # ---- confirmed by one of the two realistic failure kinds above to count.
    nl = leads = 0
    if case.get("lines"):
        fp = probes.FailpointSession(lambda fn: fn.startswith(env.LIB))
        font = _fresh(case, mode, 0)
        with fp.record():
            font.save(io.BytesIO())
        idx = list(range(len(fp.points)))
        rnd.shuffle(idx)
        for k in idx[:case["lines"]]:
            font = _fresh(case, mode, 0)
            raised = False
            with fp.inject(k):
                try:
                    font.save(io.BytesIO())
                except probes.Injected:
                    raised = True
                except (CaseTimeout, MemoryError):
                    raise
                except Exception:
                    raised = True
            if not (fp.fired and raised):
                continue
            nl += 1
            fn, qn, ln = fp.points[k]
            try:
                out = corpus.save_bytes(font)
            except (CaseTimeout, MemoryError):
                raise
            except Exception:
                out = None
            if out != ref:
                leads += 1
                ctx.note("lead (not judged): trace after failpoint in %s" % qn)
        ctx.note("failed saves injected (code line, leads only)", nl)
    ctx.sample = {"kind": "failedsave", "font": rel, "table_compile_failures": n, "natural_failures": nn, "line_failpoints": nl,
                  "line_failpoint_leads": leads}
