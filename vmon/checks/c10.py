"""C10 - a variable font built by varLib.build reproduces each of its masters.

Workload: (a) generated designspaces with in-memory masters (gen/c10_ds.py), (b) the
corpus designspaces paired with the master directory their own test uses.  The real
`varLib.build` runs under counting monitors; the verdict comes from HarfBuzz: the saved
variable font at the *user-space* location of every master against the saved master
(outlines by glyph name, advances, font-wide metrics, kerning / mark shaping), plus the
normalisation sub-claim: HarfBuzz's normalised coordinates of the built font for user
values on and between map knots against an exact Fraction model of the designspace maps.
"""
import io
import os
import random
from fractions import Fraction as F

from vmon import hooks, corpus, env
from vmon.oracle import geom, hbft
from vmon.oracle import c08_tents as T
from vmon.oracle import c08_hbeval as E

PROPERTY = "C10"
LEVEL = "exploration"
RULE = ("a case is one designspace (generated from the case seed, or a corpus document with the masters its own "
        "test pairs it with) x optimize x drop_implied_oncurves; it is built by the real varLib.build, saved, and "
        "every master is compared through HarfBuzz with the saved variable font at the master's user-space location; "
        "a (case, master) is non-trivial when the master is not the default master and at least one glyph outline "
        "and one advance were judged; distinct by (outline flavour, number of axes, master kind "
        "[corner/on-axis intermediate/off-axis intermediate/sparse], axis map kind, optimize)")
ASSUMPTIONS = [
    "HarfBuzz 12.1 is the trusted evaluator of both the static masters and the built variable font",
    "bound at a master's own location: 0.5 (the master's own delta rounding) + 0.02 (HarfBuzz float32) "
    "+ optimize*0.5*sum|scalar_t| over the built glyph's tuples (IUP tolerance) + the measured movement of the built font "
    "under K F2Dot14 steps per axis (K = ceil(1.25 + 0.75 x avar segment slope), the normalisation tolerance) + 0.5 step x tent slope x max|delta| per stored tuple (peaks are stored as F2Dot14); advances and "
    "metrics +0.5 for HarfBuzz's integer rounding",
    "normalisation sub-claim tolerance in F2Dot14 steps: 1.25 + 0.75*slope, slope = steepest normalised map segment touching the point "
    "(avar stores both ends of a segment as F2Dot14: half a step on the output, half a step x slope from the input knot, half a step for "
    "the final rounding; HarfBuzz 12 works in 16.16 through avar: a quarter step x slope for its input, a quarter step for its arithmetic; the stored "
    "knots' quantisation is therefore visible even on a knot: observed 2.48 steps on a slope-2.8 segment of the unchanged tree)",
    "GPOS pair values, mark anchors and MVAR metrics are additionally read through HarfBuzz at a font scale of 64 x upem (deltas are then rounded at 1/64 unit): "
    "each stored value must reproduce the master's within 0.5 (its own delta's rounding) + the location/knot terms; an attachment offset combines two anchors (2 x 0.5)",
    "glyphs that are absent (empty) in a sparse master are not compared at that master; advances flagged with the documented 0xFFFF sentinel likewise",
    "avar2 documents (axis <mappings>) are exempt from the axis-map sub-claim and from master reproduction away from the default",
    "designspaces the builder rejects with a VarLibError subclass are 'precondition not met' (corpus only; generated masters are compatible by construction)",
]
REQUIRED_MONITORS = ["varLib.build", "load_designspace", "_add_fvar", "_add_gvar", "_add_HVAR", "_add_MVAR",
                     "_merge_OTL", "_add_CFF2", "_add_avar"]
CASE_TIMEOUT = 240
MANIFEST = {
    "text": "Exploration: generated designspaces (1-3 axes; default, corner, on-axis and off-axis intermediate and sparse masters; identity, piecewise and steep axis maps; TrueType simple+composite and CFF->CFF2 masters with per-master advances, OS/2/hhea/post metrics, GPOS pair kerning, mark and mark-to-mark anchors compiled by feaLib, passed in memory) and the corpus designspaces with the masters their own tests use are built by the real varLib.build under counting monitors; HarfBuzz then evaluates the saved variable font at every master's user-space location against the saved master (outlines by glyph name, advances, MVAR metrics via get_metric_position, kerning/mark shaping) within a derived rounding budget, and HarfBuzz's normalised coordinates are compared with an exact Fraction model of the axis maps on and between knots. Tests cannot settle this because they only diff the TTX of the result against expectations produced by the same code.",
    "note": "Trusted base: HarfBuzz 12.1 (uharfbuzz), the Fraction model in vmon/oracle/c08_tents.py, geometry comparison in vmon/oracle/geom.py. avar2 documents exempt from the map sub-claim. Budgets are computed per glyph/location, see ASSUMPTIONS in the evidence.",
    "technique": "counting monitors on varLib.build and its table builders; differential evaluation master vs built font through HarfBuzz at user-space locations; exact rational model of axis maps",
    "design_ref": "DESIGN.md §4 C10",
}

_cur = {"lds": None, "tables": {}}

CORPUS_DS = {
    "Build": "master_ttx_interpolatable_ttf", "BuildAvar2": "master_ttx_interpolatable_ttf",
    "BuildAvarEmptyAxis": "master_ttx_interpolatable_ttf", "BuildAvarIdentityMaps": "master_ttx_interpolatable_ttf",
    "BuildAvarSingleAxis": "master_ttx_interpolatable_ttf", "BuildGvarCompositeExplicitDelta": "master_ttx_interpolatable_ttf",
    "BuildReuseNameId2": "master_ttx_interpolatable_ttf", "FeatureVars": "master_ttx_interpolatable_ttf",
    "FeatureVarsCustomTag": "master_ttx_interpolatable_ttf", "FeatureVarsWholeRange": "master_ttx_interpolatable_ttf",
    "FeatureVarsWholeRangeEmpty": "master_ttx_interpolatable_ttf", "InconsistentUseMyMetrics": "master_ttx_interpolatable_ttf",
    "SingleMaster": "master_ttx_interpolatable_ttf", "SparseMasters": "master_ttx_interpolatable_ttf",
    "DropOnCurves": "master_ttx_drop_oncurves", "KerningMerging": "master_kerning_merging",
    "SparseCFF2": "master_sparse_cff2_empty", "TestBASE": "master_base_test", "TestCFF2": "master_cff2",
    "TestCFF2Input": "master_cff2_input", "TestNoOverwriteSTAT": "master_no_overwrite_stat",
    "TestNonMarkingCFF2": "master_non_marking_cff2", "TestSparseCFF2VF": "master_sparse_cff2", "TestVVAR": "master_vvar_cff2",
    "TestVariableCOLR": "master_ttx_varcolr_ttf", "test_vpal": "master_vpal_test",
    "IncompatibleArrays": "master_incompatible_arrays", "IncompatibleFeatures": "master_incompatible_features",
    "IncompatibleLookupTypes": "master_incompatible_lookup_types",
}
AVAR2_DOCS = {"BuildAvar2"}


# ---------------------------------------------------------------- monitors
def setup():
    from fontTools import varLib

    def post_lds(st, a, kw, res, exc):
        if exc is None:
            _cur["lds"] = {"base_idx": res.base_idx, "locs": [dict(l) for l in res.normalized_master_locs],
                           "axes": [(ax.name, ax.tag) for ax in res.axes.values()]}

    def counter(name):
        def post(st, a, kw, res, exc):
            _cur["tables"][name] = _cur["tables"].get(name, 0) + (1 if exc is None else 0)
        return post

    hooks.attach(varLib, "build", post=counter("build"), name="varLib.build")
    hooks.attach(varLib, "load_designspace", post=post_lds, name="load_designspace")
    for fn in ("_add_fvar", "_add_avar", "_add_gvar", "_add_HVAR", "_add_VVAR", "_add_MVAR", "_merge_OTL", "_add_CFF2",
               "_add_GSUB_feature_variations", "_add_BASE"):
        hooks.attach(varLib, fn, post=counter(fn), name=fn)


# ---------------------------------------------------------------- cases
def cases(tier, seed):
    Tt = tier == "thorough"
    cs = []
    ngen = 1500 if Tt else 300
    for i in range(ngen):
        kind = "ttf" if i % 2 == 0 else "cff"
        cs.append({"id": "gen:%s:%d" % (kind, i), "src": "gen", "kind": kind, "i": i, "seed": seed,
                   "optimize": i % 4 < 2, "drop": (i % 8 == 0)})
    for name in sorted(CORPUS_DS):
        for opt in (False, True):
            cs.append({"id": "ds:%s:opt%d" % (name, opt), "src": "ds", "name": name, "optimize": opt, "seed": seed,
                       "drop": name == "DropOnCurves"})
    return cs


# ---------------------------------------------------------------- exact model of the axis maps
def _frmap(amap):
    return [(F(u), F(d)) for u, d in sorted(amap)] if amap else None


def exact_normalized(ax, u):
    """ax: dict(min, default, max, map) in user space; exact normalised coordinate of user value u
    per the designspace: forward map to design space, then default normalisation against the
    mapped (min, default, max)."""
    m = _frmap(ax.get("map"))
    fwd = (lambda v: T.piecewise(v, m)) if m else (lambda v: F(v))
    triple = (fwd(F(ax["min"])), fwd(F(ax["default"])), fwd(F(ax["max"])))
    return T.normalize_value(fwd(F(u)), triple)


def design_triple(ax):
    m = _frmap(ax.get("map"))
    fwd = (lambda v: T.piecewise(v, m)) if m else (lambda v: F(v))
    return (fwd(F(ax["min"])), fwd(F(ax["default"])), fwd(F(ax["max"])))


def norm_map_knots(ax):
    """The map expressed in normalised-in -> normalised-out space (what avar stores), exact."""
    m = _frmap(ax.get("map"))
    if not m:
        return [(F(-1), F(-1)), (F(0), F(0)), (F(1), F(1))]
    utriple = (F(ax["min"]), F(ax["default"]), F(ax["max"]))
    ks = []
    for u, d in m:
        if utriple[0] <= u <= utriple[2]:
            ks.append((T.normalize_value(u, utriple), exact_normalized(ax, u)))
    ks += [(F(0), F(0))]
    return sorted(set(ks))


def seg_slope_at(knots, n_in):
    """largest slope among the map segments that contain n_in or end within one F2Dot14 step of it"""
    worst = F(1)
    for (a, fa), (b, fb) in zip(knots, knots[1:]):
        if a - T.STEP <= n_in <= b + T.STEP:
            worst = max(worst, abs(fb - fa) / (b - a) if b != a else F(16384))
    return worst


def map_tol_steps(knots, n_in):
    """Tolerance (F2Dot14 steps) for a normalised coordinate produced through a stored map:
    the segment's end knots are stored as F2Dot14 (from: half a step x slope, to: half a
    step) and the result is rounded once more (half a step)."""
    # + the engine's own intermediate precision: HarfBuzz 12 normalises to 16.16 before the map (a quarter of an
    # F2Dot14 step x slope, including float32 user coordinates) and multiplies in 16.16 (a quarter step)
    sl = seg_slope_at(knots, n_in)
    return 1 + sl / 2 + sl / 4 + F(1, 4)


def inverse_map(ax, design):
    """user value whose forward map is `design` (maps are monotone)."""
    m = _frmap(ax.get("map"))
    if not m:
        return F(design)
    inv = sorted((d, u) for u, d in m)
    # collapse flat parts: take the first user value
    return T.piecewise(F(design), inv)


# ---------------------------------------------------------------- budgets from the built font's own data
def knot_budget(regions_with_max):
    """regions_with_max: [(region {tag: (s, p, e)}, max|delta|)] -> units: every stored knot is
    within half an F2Dot14 step of its exact value."""
    tot = F(0)
    for region, mx in regions_with_max:
        if not mx:
            continue
        for tag, (s, p, e) in region.items():
            s, p, e = F(s), F(p), F(e)
            if p == 0:
                continue
            widths = [w for w in (p - s, e - p) if w > 0]
            if not widths:
                continue
            tot += F(mx) * T.STEP / 2 / min(widths)
    return tot


def gvar_budget(vf, gname, loc, optimize):
    """(iup term, knot term) for a glyph of the built font at normalised loc."""
    if "gvar" not in vf:
        return 0.0, 0.0
    tvs = vf["gvar"].variations.get(gname) or []
    regs = []
    for tv in tvs:
        mx = 0
        for c in tv.coordinates:
            if c is not None:
                mx = max(mx, abs(c[0]), abs(c[1]))
        regs.append((dict(tv.axes), mx))
    s = T.abs_scalar_sum(loc, [r for r, _ in regs])
    return (float(s) * 0.5 if optimize else 0.0), float(knot_budget(regs))


def store_budget(store, fvar_axes):
    """knot term for an ItemVariationStore (max |delta| per region over all rows)."""
    if store is None:
        return 0.0
    regs = [r.get_support(fvar_axes) for r in store.VarRegionList.Region]
    mx = [0] * len(regs)
    for vd in store.VarData:
        for row in vd.Item:
            for ri, d in zip(vd.VarRegionIndex, row):
                mx[ri] = max(mx[ri], abs(d))
    return float(knot_budget(list(zip(regs, mx))))


def composite_info(font):
    """glyph -> [(component glyph name, max-norm of its 2x2 transform)] for TrueType composites."""
    out = {}
    if "glyf" not in font:
        return out
    glyf = font["glyf"]
    for g in font.getGlyphOrder():
        gl = glyf[g]
        if gl.isComposite():
            comps = []
            for c in gl.components:
                t = getattr(c, "transform", None)
                if t is None:
                    nrm = 1.0
                else:
                    nrm = max(abs(t[0][0]) + abs(t[1][0]), abs(t[0][1]) + abs(t[1][1]))
                comps.append((c.glyphName, max(1.0, nrm)))
            out[g] = comps
    return out


def deep_budget(g, own, comps, depth=0):
    """own(g) + sum over components of |transform| x budget(component)."""
    b = own(g)
    if depth < 8:
        for cg, nrm in comps.get(g, ()):
            b += nrm * deep_budget(cg, own, comps, depth + 1)
    return b


# ---------------------------------------------------------------- run
def _load_corpus_ds(case, ctx):
    from fontTools.designspaceLib import DesignSpaceDocument
    from fontTools.ttLib import TTFont

    name = case["name"]
    ddir = os.path.join(env.TESTS, "varLib", "data")
    ds = DesignSpaceDocument.fromfile(os.path.join(ddir, name + ".designspace"))
    mdir = os.path.join(ddir, CORPUS_DS[name])
    masters = []
    for src in ds.sources:
        stem = os.path.splitext(os.path.basename(src.filename or src.path))[0]
        p = os.path.join(mdir, stem + ".ttx")
        if not os.path.exists(p):
            ctx.skip("corpus master file missing for the pairing")
            return None
        f = TTFont(recalcTimestamp=False)
        f.importXML(p)
        data = None
        try:
            data = corpus.save_bytes(f)
        except Exception:
            data = None      # a master that cannot be saved alone cannot be shown to HarfBuzz
        src.font = TTFont(io.BytesIO(data), recalcTimestamp=False) if data else f
        masters.append({"name": stem, "bytes": data, "src": src})
    return ds, masters


def _axis_dicts_from_ds(ds):
    out = []
    for a in ds.axes:
        if not hasattr(a, "minimum"):
            return None  # discrete axis
        out.append({"name": a.name, "tag": a.tag, "min": a.minimum, "default": a.default, "max": a.maximum,
                    "map": [tuple(p) for p in a.map] if a.map else None})
    return out


def _master_kind(axes, user, is_sparse):
    if is_sparse:
        return "sparse"
    off = [a for a in axes if user[a["tag"]] != a["default"]]
    inter = [a for a in off if user[a["tag"]] not in (a["min"], a["max"])]
    if not inter:
        return "corner" if len(off) > 1 else "axis-end"
    return "on-axis-mid" if len(off) == 1 else "off-axis-mid"


def run_case(case, ctx):
    from fontTools import varLib
    from fontTools.varLib.errors import VarLibError
    from fontTools.designspaceLib import DesignSpaceDocumentError
    from fontTools.ttLib import TTFont

    rnd = random.Random("%s/%s" % (case["id"], case["seed"]))
    _cur["lds"], _cur["tables"] = None, {}
    optimize = case["optimize"]
    avar2 = False
    if case["src"] == "gen":
        from vmon.gen import c10_ds

        g = c10_ds.make(rnd, kind=case["kind"], rules=False)
        ds, axes, kind = g["ds"], g["axes"], g["kind"]
        masters = [dict(m) for m in g["masters"]]
        ctx.note("gen:masters-with-partial-location", sum(1 for m in masters if m.get("partial_location")))
        if g["opts"].get("sparse_kern"):
            ctx.note("gen:kerning-exceptions-in-some-masters-only")
        expected = ()
    else:
        r = _load_corpus_ds(case, ctx)
        if r is None:
            return
        ds, ms = r
        axes = _axis_dicts_from_ds(ds)
        if axes is None or not axes:
            ctx.skip("designspace without continuous axes")
            axes = axes or []
        avar2 = case["name"] in AVAR2_DOCS or bool(getattr(ds, "axisMappings", None))
        masters = []
        for m in ms:
            masters.append({"name": m["name"], "bytes": m["bytes"], "src": m["src"]})
        kind = "corpus"
        expected = (VarLibError, DesignSpaceDocumentError)
    with ctx.lib("varLib.build", expected=expected, skip_reason="builder rejected the designspace (VarLibError)"):
        vf, model, _ = varLib.build(ds, optimize=optimize, drop_implied_oncurves=bool(case.get("drop")))
    with ctx.lib("save"):
        vfb = corpus.save_bytes(vf)
    for k, v in _cur["tables"].items():
        ctx.note("table-builder:" + k, v)
    lds = _cur["lds"]
    V = E.View(vfb)
    vorder = vf.getGlyphOrder()
    vidx = {n: i for i, n in enumerate(vorder)}
    fvar_axes = vf["fvar"].axes
    flavour = "glyf" if "glyf" in vf else "CFF2"
    ctx.note("built:" + flavour)

    # ---- fvar limits as the designspace says (user coordinates keep their meaning)
    for a, (tag, lo, df, hi) in zip(axes, V.axes):
        ctx.judged()
        if tag != a["tag"] or (lo, df, hi) != (float(a["min"]), float(a["default"]), float(a["max"])):
            ctx.violation({"kind": "fvar-axis", "op": "varLib.build", "what": "axis limits differ from the designspace"},
                          "fvar axis %s (%s,%s,%s) but designspace says %s (%s,%s,%s)" % (tag, lo, df, hi, a["tag"], a["min"], a["default"], a["max"]),
                          {"case": case["id"]})

    # ---- master locations
    for mi, m in enumerate(masters):
        if case["src"] == "gen":
            design = m["design"]
        else:
            # the source's own design location; axes it omits sit at the *mapped* axis default (designspace
            # format 5), filled in here with the harness' own map arithmetic
            given = dict(m["src"].designLocation or m["src"].location or {})
            design = {a["name"]: given[a["name"]] if a["name"] in given else float(design_triple(a)[1]) for a in axes}
            m["is_default"] = (lds is not None and lds["base_idx"] == mi)
            m["sparse"] = []
        m["user_exact"] = {a["tag"]: inverse_map(a, F(design[a["name"]])) for a in axes}
        m["user_f"] = {t: float(v) for t, v in m["user_exact"].items()}
        m["norm_exact"] = {a["tag"]: T.normalize_value(F(design[a["name"]]), design_triple(a)) for a in axes}

    # ---- monitor verdict on load_designspace: normalised master locations and base master
    if lds is not None and not avar2:
        for mi, m in enumerate(masters):
            ctx.judged()
            for a in axes:
                got = lds["locs"][mi].get(a["name"], 0.0)
                want = m["norm_exact"][a["tag"]]
                if abs(F(got) - want) > F(1, 10 ** 9):
                    ctx.violation({"kind": "normalisation", "op": "load_designspace", "what": "normalized master location differs from the exact map model"},
                                  "master %s axis %s: load_designspace says %r, exact model %s" % (m["name"], a["tag"], got, float(want)),
                                  {"case": case["id"], "axis": a})
        zero = [i for i, m in enumerate(masters) if all(v == 0 for v in m["norm_exact"].values())]
        ctx.judged()
        if zero and lds["base_idx"] != zero[0]:
            ctx.violation({"kind": "base-master", "op": "load_designspace", "what": "base_idx is not the master at the default location"},
                          "base_idx %r, default-location master %r" % (lds["base_idx"], zero), {"case": case["id"]})

    # ---- normalisation sub-claim through HarfBuzz
    if not avar2:
        _check_axis_maps(case, ctx, V, axes, rnd)

    # ---- sharper in-memory monitor: the built tables evaluated with the harness' exact tent evaluator at the
    # exact (unquantised) normalised master locations; no engine rounding, no F2Dot14: half a unit exactly
    if not avar2:
        _exact_inmemory(case, ctx, vf, masters, axes, optimize)

    # ---- master reproduction
    comps = composite_info(vf)
    phantom_var = set()
    if "gvar" in vf:
        for gn, tvs in vf["gvar"].variations.items():
            if any(len(tv.coordinates) >= 4 and tv.coordinates[-4] is not None and tv.coordinates[-4][0] != 0 for tv in tvs or []):
                phantom_var.add(gn)
    hv_b = store_budget(vf["HVAR"].table.VarStore, fvar_axes) if "HVAR" in vf else 0.0
    mv_b = store_budget(vf["MVAR"].table.VarStore, fvar_axes) if "MVAR" in vf else 0.0
    gd_b = store_budget(vf["GDEF"].table.VarStore, fvar_axes) if "GDEF" in vf and getattr(vf["GDEF"].table, "VarStore", None) else 0.0
    nmaps = [norm_map_knots(a) for a in axes]
    stage = {1: 0, 2: 0}
    worst = {"outline": 0.0, "advance": 0, "metric": 0, "shape": 0}
    nmast = 0
    for mi, m in enumerate(masters):
        if m["bytes"] is None:
            ctx.skip("master cannot be saved on its own")
            continue
        if avar2 and not m.get("is_default"):
            ctx.skip("avar2 document: master reproduction away from the default is exempt")
            continue
        M = E.View(m["bytes"])
        need = {"head", "hhea", "hmtx", "maxp"}
        if not need <= M.tags or not (M.tags & {"glyf", "CFF ", "CFF2"}):
            ctx.skip("master is not a complete font on its own (no hhea/hmtx/outlines): HarfBuzz cannot evaluate it")
            continue
        mfont = TTFont(io.BytesIO(m["bytes"]), recalcTimestamp=False)
        morder = mfont.getGlyphOrder()
        midx = {n: i for i, n in enumerate(morder)}
        nV = V.at_user(m["user_f"])
        # K steps per axis: engine vs exact normalised location
        steps = []
        for ai, a in enumerate(axes):
            n_in = T.normalize_value(m["user_exact"][a["tag"]], (F(a["min"]), F(a["default"]), F(a["max"])))
            steps.append(int(-(-map_tol_steps(nmaps[ai], n_in) // 1)))
        loc = {a["tag"]: F(nV[ai]) for ai, a in enumerate(axes)}
        common = [n for n in vorder if n in midx]
        sparse = set(m.get("sparse") or [])
        gids = [vidx[n] for n in common]
        # shaping texts (generated masters carry PUA-free natural cmap: use glyph-level cmap of both fonts)
        texts, tnames = _texts(case, m, vf, mfont, rnd)
        feats = {"kern": True, "mark": True, "mkmk": True, "rvrn": False}
        vtexts = [[_cp(vf, n) for n in t] for t in tnames]
        sens, base = E.sensitivity(V, nV, steps, gids, vtexts, feats, metrics=True, rel=False)
        ms = M.snapshot([midx[n] for n in common], [[_cp(mfont, n) for n in t] for t in tnames], feats, metrics=True)
        judged_out = judged_adv = 0

        def own(gname):
            iup, kb = gvar_budget(vf, gname, loc, optimize)
            return 0.5 + 0.02 + iup + kb

        for n in common:
            gv, gm = vidx[n], midx[n]
            rm, rv = ms["out"][gm], base["out"][gv]
            absent = (n in sparse) or (len(rm) == 0 and len(rv) > 0 and not m.get("is_default"))
            if not absent:
                tol = deep_budget(n, own, comps) + sens["out"][gv]
                # x: HarfBuzz shifts by the left phantom point whose stored delta is rounded as well
                tol_x = tol + (0.5 if n in phantom_var else 0.0)
                if tol == float("inf"):
                    ctx.skip("outline structure unstable around the location")
                else:
                    ok, st, why = E.match_xy(rm, rv, tol_x, tol)
                    ctx.judged()
                    judged_out += 1
                    stage[st] += 1
                    d = geom.max_point_diff(rm, rv)
                    if d is not None:
                        worst["outline"] = max(worst["outline"], d)
                    if not ok:
                        ctx.violation({"kind": "master-reproduction", "what": "outline", "flavour": flavour, "optimize": optimize,
                                       "master_kind": _master_kind(axes, m["user_f"], False) if axes else "?"},
                                      "glyph %s at master %s: built font differs from the master by more than %.3f (%s; max point diff %s)"
                                      % (n, m["name"], tol, why, d),
                                      {"case": case["id"], "master": m["name"], "user": m["user_f"], "hb_norm": nV, "glyph": n, "tol": tol,
                                       "master_outline": rm[:12], "built_outline": rv[:12]})
            # advance
            am, av = ms["adv"][gm], base["adv"][gv]
            sentinel = m.get("adv_sentinel") and n in sparse
            if am == -1 or sentinel or (case["src"] == "ds" and am == 0xFFFF):
                ctx.skip("advance flagged with the 0xFFFF sentinel")
            else:
                tol = 1.0 + sens["adv"][gv] + hv_b + (gvar_budget(vf, n, loc, optimize)[0] if "HVAR" not in vf else 0.0)
                ctx.judged()
                judged_adv += 1
                worst["advance"] = max(worst["advance"], abs(am - av))
                if abs(am - av) > tol + 1e-9:
                    ctx.violation({"kind": "master-reproduction", "what": "advance", "flavour": flavour},
                                  "glyph %s at master %s: advance %d in the master, %d in the built font (tolerance %.2f)" % (n, m["name"], am, av, tol),
                                  {"case": case["id"], "master": m["name"], "user": m["user_f"], "hb_norm": nV, "glyph": n})
        # font-wide metrics
        if "MVAR" in vf or True:
            typo_ok = _typo_consistent(mfont) and _typo_consistent(vf)
            for tag, mvl in ms["met"].items():
                vvl = base["met"].get(tag)
                if mvl is None or vvl is None:
                    continue
                if mvl == -0x8000 and tag.startswith("UNDERLINE"):
                    ctx.skip("post underline sentinel -0x8000 (documented: master does not contribute)")
                    continue
                if tag in E.TYPO_OR_HHEA and not typo_ok:
                    ctx.skip("hhea and OS/2 typo metrics differ without USE_TYPO_METRICS (HarfBuzz applies MVAR hasc/hdsc/hlgp to hhea)")
                    continue
                tol = 1.0 + sens["met"][tag] + mv_b
                ctx.judged()
                worst["metric"] = max(worst["metric"], abs(mvl - vvl))
                if abs(mvl - vvl) > tol + 1e-9:
                    ctx.violation({"kind": "master-reproduction", "what": "metric", "tag": tag},
                                  "metric %s at master %s: %d in the master, %d in the built font (tolerance %.2f)" % (tag, m["name"], mvl, vvl, tol),
                                  {"case": case["id"], "master": m["name"], "user": m["user_f"], "hb_norm": nV})
        if "VORG" in V.tags and "VORG" in M.tags and "vmtx" in V.tags and "vmtx" in M.tags:
            _vertical_metrics(case, ctx, m, V, M, common, vidx, midx, sparse, sens)
        # FreeType advances: unlike HarfBuzz, FreeType takes a composite's advance from the component that carries
        # USE_MY_METRICS, so a flag the builder should have cleared shows up here although HVAR is right
        if flavour == "glyf" and hbft.freetype is not None:
            _freetype_advances(case, ctx, m, vfb, V, common, vidx, midx, ms, sens, sparse, hv_b)
        # sharp values: kerning, anchors and MVAR metrics at 1/64 unit (HarfBuzz rounds at the font scale)
        _hires_values(case, ctx, m, vfb, nV, steps, tnames, vf, mfont, sparse, feats, gd_b, mv_b, worst)
        # shaping
        if m.get("layout", "GPOS" in mfont) and "GPOS" in vf and "GPOS" in mfont:
            for ti, t in enumerate(tnames):
                sm = [(morder[x[0]],) + tuple(x[1:]) for x in ms["shape"][ti]]
                sv = [(vorder[x[0]],) + tuple(x[1:]) for x in base["shape"][ti]]
                if any(n in sparse for n in t):
                    continue
                same, d = E.shape_dist(sm, sv)
                ctx.judged()
                if not same:
                    ctx.violation({"kind": "master-reproduction", "what": "shaping-glyphs"},
                                  "text %s at master %s: glyph sequence %s in the master, %s in the built font" % (t, m["name"], [x[0] for x in sm], [x[0] for x in sv]),
                                  {"case": case["id"], "master": m["name"], "user": m["user_f"]})
                    continue
                nmarks = sum(1 for n in t if n in ("acutecomb", "gravecomb")) if case["src"] == "gen" else len(t)
                tol = 2.0 + 2.0 * nmarks + sens["shape"][ti] + gd_b * (2 + 2 * nmarks) + 2 * hv_b
                worst["shape"] = max(worst["shape"], d)
                if d > tol + 1e-9:
                    ctx.violation({"kind": "master-reproduction", "what": "positioning"},
                                  "text %s at master %s: positions differ by %d (tolerance %.2f): master %s built %s" % (t, m["name"], d, tol, sm, sv),
                                  {"case": case["id"], "master": m["name"], "user": m["user_f"], "hb_norm": nV})
        nmast += 1
        if not m.get("is_default") and judged_out and judged_adv and axes:
            mk = _master_kind(axes, m["user_f"], bool(sparse))
            mapk = "map" if any(a["map"] and any(u != d for u, d in a["map"]) for a in axes) else ("idmap" if any(a["map"] for a in axes) else "nomap")
            ctx.nontrivial("%s/ax%d/%s/%s/opt%d" % (flavour, len(axes), mk, mapk, optimize))
    ctx.note("outline-match-stage1", stage[1])
    ctx.note("outline-match-stage2", stage[2])
    ctx.note("masters-compared", nmast)
    ctx.sample = {"case": {k: v for k, v in case.items() if k != "seed"}, "flavour": flavour,
                  "axes": [{k: a[k] for k in ("tag", "min", "default", "max", "map")} for a in axes],
                  "masters": [{"name": m["name"], "user": m.get("user_f"), "sparse": m.get("sparse")} for m in masters][:8],
                  "table_builders": dict(_cur["tables"]), "worst_observed": worst, "tables": sorted(V.tags)}


def _vertical_metrics(case, ctx, m, V, M, common, vidx, midx, sparse, sens):
    """vertical advances (vmtx + VVAR) and vertical origins (VORG + VVAR.VOrgMap) through HarfBuzz: the master's own
    integer value against the built font's rounded value: 0.5 delta rounding + 0.5 engine rounding, + 1 for the location.
    Only at masters whose location HarfBuzz reaches exactly (measured sensitivity of every horizontal advance to the
    location quantisation is zero): the sensitivity of the vertical values themselves is not measured, and at an
    intermediate location that is not F2Dot14-exact large vertical deltas move the value by several units."""
    if any(v > 0 for v in sens["adv"].values()):
        ctx.skip("guard: master location not reached exactly, vertical metrics not judged there")
        return
    for n in common:
        if n in sparse:
            continue
        gv, gm = vidx[n], midx[n]
        for what, fv, fm in (("vertical-advance", V.h.v_advance(gv), M.h.v_advance(gm)),
                             ("vertical-origin-y", V.h.font.get_glyph_v_origin(gv)[1], M.h.font.get_glyph_v_origin(gm)[1])):
            ctx.judged()
            ctx.note("vertical-metrics-judged")
            if abs(fv - fm) > 2:
                ctx.violation({"kind": "master-reproduction", "what": what, "flavour": "CFF2"},
                              "glyph %s at master %s: %s %d in the master, %d in the built font" % (n, m["name"], what, fm, fv),
                              {"case": case["id"], "master": m["name"], "user": m["user_f"], "glyph": n})


_ftc = {}


def _freetype_advances(case, ctx, m, vfb, V, common, vidx, midx, ms, sens, sparse, hv_b):
    key = id(vfb)
    if _ftc.get("key") != key:
        _ftc.clear()
        _ftc.update({"key": key, "data": vfb, "ft": hbft.FT(vfb)})
    ft = _ftc["ft"]
    ft.set_coords([m["user_f"][t] for t, lo, df, hi in V.axes])
    for n in common:
        if n in sparse:
            continue
        am = ms["adv"][midx[n]]
        if am in (-1, 0xFFFF) or (m.get("adv_sentinel") and n in sparse):
            continue
        _, af = ft.outline_points(vidx[n])
        # master advance (integer) vs FreeType's integer advance of the built font: delta rounding 0.5 + engine rounding 0.5,
        # one more unit for FreeType's own 16.16 coordinate normalisation, + the measured location sensitivity
        tol = 2.0 + sens["adv"][vidx[n]] + hv_b
        ctx.judged()
        ctx.note("freetype-advances-judged")
        if abs(af - am) > tol + 1e-9:
            ctx.violation({"kind": "master-reproduction", "what": "advance-freetype", "flavour": "glyf"},
                          "glyph %s at master %s: advance %d in the master, FreeType reads %d from the built font (tolerance %.2f; HarfBuzz reads %d)"
                          % (n, m["name"], am, af, tol, V.h.h_advance(vidx[n])),
                          {"case": case["id"], "master": m["name"], "user": m["user_f"], "glyph": n})


HIRES = 64
_hv = {}


def _hires_view(data):
    """a View whose font scale is 64 x upem: HarfBuzz then rounds variation deltas of GPOS values / anchors and MVAR
    metrics at 1/64 unit instead of 1 unit (glyph advances stay rounded to whole units before scaling)"""
    key = id(data)
    if _hv.get("key") != key:
        v = E.View(data)
        v.h.font.scale = (v.h.upem * HIRES, v.h.upem * HIRES)
        _hv.clear()
        _hv.update({"key": key, "data": data, "view": v})
    return _hv["view"]


def _hires_quantities(view, font, tnames, feats):
    """{key: value in font units}: per pair text the first glyph's (x_advance - own advance, x_offset, y_offset) - one
    GPOS value each; per base+mark text (mark x_offset + base x_advance, mark y_offset) - two anchors each; metrics."""
    h = view.h
    q = {}
    for t in tnames:
        if len(t) != 2:
            continue
        cps = [_cp(font, n) for n in t]
        sh = h.shape(cps, feats)
        if len(sh) != 2:
            continue
        (g0, _, xa0, ya0, xo0, yo0), (g1, _, xa1, ya1, xo1, yo1) = sh
        if t[1] in ("acutecomb", "gravecomb") or (xo1 or yo1):
            q[("anchor-x",) + tuple(t)] = (xo1 + xa0) / HIRES
            q[("anchor-y",) + tuple(t)] = yo1 / HIRES
        else:
            q[("kern-xadv",) + tuple(t)] = (xa0 - h.h_advance(g0)) / HIRES
            q[("kern-xoff",) + tuple(t)] = xo0 / HIRES
            q[("kern-yoff",) + tuple(t)] = yo0 / HIRES
    for tag in E.METRIC_TAGS:
        v = h.font.get_metric_position(tag)
        if v is not None:
            q[("metric", tag.name)] = v / HIRES
    return q


def _hires_values(case, ctx, m, vfb, nV, steps, tnames, vf, mfont, sparse, feats, gd_b, mv_b, worst):
    VH = _hires_view(vfb)
    MH = E.View(m["bytes"])
    MH.h.font.scale = (MH.h.upem * HIRES, MH.h.upem * HIRES)
    layout = m.get("layout", "GPOS" in mfont) and "GPOS" in vf and "GPOS" in mfont
    names = [t for t in tnames if not any(n in sparse for n in t)] if layout else []
    VH.at_norm(nV)
    qv = _hires_quantities(VH, vf, names, feats)
    qm = _hires_quantities(MH, mfont, names, feats)
    # movement of the built font's values under the K-step location mismatch
    sens = {k: 0.0 for k in qv}
    for ai, k in enumerate(steps):
        acc = {key: 0.0 for key in qv}
        for sign in (-1, 1):
            c = list(nV)
            c[ai] = max(-1.0, min(1.0, c[ai] + sign * k / 16384.0))
            VH.at_norm(c)
            qp = _hires_quantities(VH, vf, names, feats)
            for key, v in qv.items():
                acc[key] = max(acc[key], abs(v - qp[key]) if key in qp else float("inf"))
        for key in sens:
            sens[key] += acc[key]
    VH.at_norm(nV)
    typo_ok = _typo_consistent(mfont) and _typo_consistent(vf)
    for key, v in qv.items():
        if key not in qm:
            continue
        w = qm[key]
        if key[0] == "metric":
            if key[1] in E.TYPO_OR_HHEA and not typo_ok:
                continue
            if key[1].startswith("UNDERLINE") and abs(w) >= 0x7FFF:
                continue
            nval, knot = 1, mv_b
        elif key[0].startswith("anchor"):
            nval, knot = 2, gd_b
        else:
            nval, knot = 1, gd_b
        # each stored value: its own delta rounded once (0.5) + stored-knot term; 1/64 unit resolution on both fonts
        tol = nval * (0.5 + knot) + sens[key] + 3.0 / HIRES
        ctx.judged()
        worst["hires"] = max(worst.get("hires", 0.0), abs(v - w))
        if abs(v - w) > tol + 1e-9:
            ctx.violation({"kind": "master-reproduction", "what": "value-at-1/64-unit", "value": key[0]},
                          "%s at master %s: %.4f in the master, %.4f in the built font (tolerance %.3f = %d value(s) x 0.5 + location/knot terms)"
                          % (" ".join(map(str, key)), m["name"], w, v, tol, nval),
                          {"case": case["id"], "master": m["name"], "user": m["user_f"], "hb_norm": nV})


def _exact_inmemory(case, ctx, vf, masters, axes, optimize):
    from fontTools.ttLib import TTFont
    from fontTools.misc.roundTools import noRound

    fvar_axes = vf["fvar"].axes
    order = vf.getGlyphOrder()
    hv = vf["HVAR"].table if "HVAR" in vf else None
    regs = [r.get_support(fvar_axes) for r in hv.VarStore.VarRegionList.Region] if hv else []
    worst_adv = worst_pt = 0.0
    for m in masters:
        if m["bytes"] is None:
            continue
        loc = m["norm_exact"]
        mf = TTFont(io.BytesIO(m["bytes"]), recalcTimestamp=False)
        if "hmtx" not in mf:
            continue
        sparse = set(m.get("sparse") or [])
        mh = mf["hmtx"].metrics
        if hv is not None:
            sc = [T.region_scalar(loc, r) for r in regs]
            for g in order:
                if g not in mh or g in sparse or mh[g][0] == 0xFFFF:
                    continue
                idx = hv.AdvWidthMap.mapping[g] if hv.AdvWidthMap else vf.getGlyphID(g)
                vd = hv.VarStore.VarData[idx >> 16]
                row = vd.Item[idx & 0xFFFF]
                val = F(vf["hmtx"].metrics[g][0]) + sum((sc[ri] * F(d) for ri, d in zip(vd.VarRegionIndex, row)), F(0))
                err = abs(val - mh[g][0])
                ctx.judged()
                worst_adv = max(worst_adv, float(err))
                if err > F(1, 2) + F(1, 10 ** 6):
                    ctx.violation({"kind": "master-reproduction", "what": "advance-exact", "op": "_add_HVAR"},
                                  "glyph %s at master %s: hmtx+HVAR evaluated exactly gives %.4f, the master's advance is %d (half a unit allowed)" % (g, m["name"], float(val), mh[g][0]),
                                  {"case": case["id"], "master": m["name"], "norm": {k: float(v) for k, v in loc.items()}})
        if "gvar" in vf and "glyf" in mf and not optimize:
            vg, vglyf = vf["gvar"], vf["glyf"]
            vhm = vf["hmtx"].metrics
            for g in order:
                if g in sparse or g not in mf["glyf"].glyphs:
                    continue
                r = mf["glyf"]._getCoordinatesAndControls(g, mh, None, round=noRound)
                d0 = vglyf._getCoordinatesAndControls(g, vhm, None, round=noRound)
                if r is None or d0 is None or len(r[0]) != len(d0[0]):
                    continue
                if r[1].numberOfContours == 0 and d0[1].numberOfContours != 0:
                    continue
                acc = [[F(x), F(y)] for x, y in d0[0]]
                okg = True
                for tv in vg.variations.get(g) or []:
                    if None in tv.coordinates:
                        okg = False
                        break
                    s_ = T.region_scalar(loc, {k: tuple(v) for k, v in tv.axes.items()})
                    if s_:
                        for i, dl in enumerate(tv.coordinates):
                            acc[i][0] += s_ * F(dl[0])
                            acc[i][1] += s_ * F(dl[1])
                if not okg:
                    continue
                err = max((max(abs(a[0] - F(p[0])), abs(a[1] - F(p[1]))) for a, p in zip(acc, r[0])), default=F(0))
                ctx.judged()
                worst_pt = max(worst_pt, float(err))
                if err > F(1, 2) + F(1, 10 ** 6):
                    ctx.violation({"kind": "master-reproduction", "what": "gvar-exact", "op": "_add_gvar"},
                                  "glyph %s at master %s: default + gvar deltas evaluated exactly differ from the master's points by %.4f (half a unit allowed)" % (g, m["name"], float(err)),
                                  {"case": case["id"], "master": m["name"], "norm": {k: float(v) for k, v in loc.items()}})
    ctx.note("exact-inmemory-masters")


def _typo_consistent(font):
    if "OS/2" not in font or "hhea" not in font:
        return False
    o, h = font["OS/2"], font["hhea"]
    if o.fsSelection & 0x80:
        return True
    return (o.sTypoAscender, o.sTypoDescender, o.sTypoLineGap) == (h.ascent, h.descent, h.lineGap)


def _cp(font, gname):
    cm = getattr(font, "_c10_rev", None)
    if cm is None:
        cm = {}
        for cp, n in ((font.getBestCmap() or {}) if "cmap" in font else {}).items():
            cm.setdefault(n, cp)
        font._c10_rev = cm
    return cm.get(gname, 0xFFFD)


def _texts(case, m, vf, mfont, rnd):
    """glyph-name texts reachable through both cmaps"""
    if "cmap" not in vf or "cmap" not in mfont:
        return None, []
    rv = set((vf.getBestCmap() or {}).values())
    rm = set((mfont.getBestCmap() or {}).values())
    ok = sorted(rv & rm)
    names = []
    if case["src"] == "gen":
        for a, b in m.get("pairs") or []:
            if a in ok and b in ok:
                names.append([a, b])
        marks = [x for x in ("acutecomb", "gravecomb") if x in ok]
        for b in ("A", "B", "E", "O"):
            for mk in marks:
                if b in ok:
                    names.append([b, mk])
        if len(marks) == 2 and "A" in ok:
            names.append(["A", marks[0], marks[1]])
            names.append(["O", marks[1], marks[0]] if "O" in ok else ["A", marks[1], marks[0]])
    else:
        ok2 = ok[:40]
        for _ in range(min(60, len(ok2) * len(ok2))):
            names.append([rnd.choice(ok2), rnd.choice(ok2)])
        if ok2:
            names.append(ok2[:20])
    return None, names


def _check_axis_maps(case, ctx, V, axes, rnd):
    for ai, a in enumerate(axes):
        knots_u = sorted({F(a["min"]), F(a["default"]), F(a["max"])} | ({F(u) for u, _ in a["map"]} if a["map"] else set()))
        tests = [(u, True) for u in knots_u if F(a["min"]) <= u <= F(a["max"])]
        for lo, hi in zip(knots_u, knots_u[1:]):
            tests.append(((lo + hi) / 2, False))
            tests.append((lo + (hi - lo) * F(rnd.randrange(1, 1000), 1000), False))
        nm = norm_map_knots(a)
        utriple = (F(a["min"]), F(a["default"]), F(a["max"]))
        for u, on_knot in tests:
            uf = float(u)
            got = V.at_user({a["tag"]: uf})[ai]
            # HarfBuzz stores design coordinates as float32: model the value it really received
            import struct
            u32 = F(struct.unpack("f", struct.pack("f", uf))[0])
            want = exact_normalized(a, u32)
            n_in = T.normalize_value(u32, utriple)
            tol = map_tol_steps(nm, n_in) + F(1, 100)
            err = abs(F(got) - want) * 16384
            ctx.judged()
            ctx.note("axis-map-points")
            if err > tol:
                ctx.violation({"kind": "normalisation", "op": "avar/fvar", "what": "HarfBuzz normalised coordinate differs from the exact designspace map",
                               "on_knot": bool(on_knot)},
                              "axis %s user %s: built font normalises to %.6f, the designspace maps say %.6f (%.2f F2Dot14 steps, tolerance %s)"
                              % (a["tag"], uf, got, float(want), float(err), tol),
                              {"case": case["id"], "axis": {k: a[k] for k in ("tag", "min", "default", "max", "map")}, "user": uf})


def coverage_extra(results):
    """largest differences actually observed (all inside their budgets when the run held)"""
    mx = {}
    for r in results:
        w = (r.get("sample") or {}).get("worst_observed") or {}
        for k, v in w.items():
            if isinstance(v, (int, float)) and v == v and v != float("inf"):
                mx[k] = max(mx.get(k, 0), v)
    return {"observed_maxima": mx}
