"""C09 — variation arithmetic is exact.

Post-condition monitors on the real functions of varLib.models, instancer.solver,
varLib.varStore, varLib.iup and TupleVariation.optimize; every evaluation is judged
against the exact rational models in vmon/oracle/ratmodel.py.  "Exact" is read as
exact in real arithmetic: the library computes in binary floating point, so agreement
is demanded to 1e-9*max(1,|v|) (rounding noise is ~1e-13, algorithmic errors on the
lattices used show at 1e-4 or more).
"""
import copy
import itertools
import math
import random
from fractions import Fraction as F

from vmon import hooks, probes
from vmon.oracle import ratmodel as R

PROPERTY = "C09"
LEVEL = "exploration"
RULE = ("lattice enumeration: master sets on {-1,-1/2,0,1/2,1}^a (a=1 exhaustive, a=2 exhaustive up to 3 extra masters in "
        "thorough / sampled in quick, a=3..4 sampled) with integer and rational master values, evaluated at all lattice "
        "points and mid-points; every well-formed tent on the 1/4 lattice of [-2,2] x every axis limit on the 1/4 lattice "
        "x 3 distance pairs, each at 17+ points of the new range; generated variation stores x {optimize, "
        "subset_varidxes, prune_regions, OnlineVarStoreBuilder}; generated and corpus contours x tolerances for IUP. "
        "A case is non-trivial/distinct by (function, structural class): e.g. (#axes, #masters, on/off-axis mix), "
        "(solver output shape: number of tents and gain), (store shape after the operation), (contour size, #inferred points)")
ASSUMPTIONS = [
    "'exact' = exact in real arithmetic; implementation results (binary floating point) must agree with the Fraction model to 1e-9*max(1,|v|)",
    "solver preconditions as stated by the property: lower<=peak<=upper, peak!=0, tent not straddling zero, continuous over the axis range, -1<=min<=default<=max<=1",
    "IUP tolerance is Euclidean per point (the library's own acceptance criterion), slack 1e-9",
    "variation stores are compared through their compiled bytes parsed by an independent struct reader",
]
REQUIRED_MONITORS = ["VariationModel.getDeltas", "VariationModel.getScalars", "VariationModel.getMasterScalars", "supportScalar",
                     "rebaseTent", "VarStore.optimize", "VarStore.subset_varidxes", "VarStore.prune_regions",
                     "VarStoreInstancer.__getitem__", "iup_delta", "iup_delta_optimize", "TupleVariation.optimize",
                     "normalizeValue", "piecewiseLinearMap"]
CASE_TIMEOUT = 400
MANIFEST = {
    "text": "Exploration, exhaustive on stated lattices: post-condition monitors on VariationModel (getDeltas/getScalars/getMasterScalars/supportScalar), solver.rebaseTent, VarStore optimize/subset/prune, VarStoreInstancer, iup_delta/iup_delta_optimize and TupleVariation.optimize compare every call with an exact Fraction model (interpolation conditions at every master, tent identities at every point of the new range, store evaluation from independently parsed bytes, the gvar inferred-delta rule). Builder histories on one object are driven as well: OnlineVarStoreBuilder with masters stored singly and in batches, the same regions handed over again in other orders, stores with more than 0xFFFF rows per encoding, OnlineMultiVarStoreBuilder and one MultiVarStoreInstancer moved through several locations; integer masters stored with rounded deltas must be reproduced at their own location to within one rounding. The quantifier ranges over all master sets, tents, limits, stores and contours, which unit tests only sample at a few hand-picked values.",
    "note": "Trusted base: vmon/oracle/ratmodel.py (Fraction tents, first-principles renormalisation through user space, struct ItemVariationStore reader, spec IUP). Tolerance 1e-9 relative separates float noise from algorithmic error; VarStore_optimize with quantization>1 is lossy by contract and not judged.",
    "technique": "post-condition monitors vs exact rational reference model; lattice enumeration",
    "design_ref": "DESIGN.md §4 C09",
}

EPS = 1e-9
_cur = {"keys": set(), "n": 0}


def _close(a, b, scale=1.0):
    return abs(float(a) - float(b)) <= EPS * max(1.0, abs(float(b)), scale)


def _num(v):
    return isinstance(v, (int, float, F)) and not isinstance(v, bool)


def _rep(func, what, **w):
    hooks.report({"kind": "variation", "func": func, "what": what}, "%s: %s" % (func, what),
                 {k: (repr(v)[:600]) for k, v in w.items()})


def _compile_store(store):
    from fontTools.ttLib import TTFont
    from fontTools.ttLib.tables.otBase import OTTableWriter
    w = OTTableWriter()
    copy.deepcopy(store).compile(w, TTFont())
    return R.parse_varstore(w.getAllData())


def _lattice_locs(naxes, rnd, limit=60):
    vals = [F(-1), F(-1, 2), F(0), F(1, 2), F(1), F(1, 4), F(-3, 4)]
    if len(vals) ** naxes <= limit:
        return [list(p) for p in itertools.product(vals, repeat=naxes)]
    return [[rnd.choice(vals) for _ in range(naxes)] for _ in range(limit)]


def setup():
    from fontTools.varLib import models as M
    from fontTools.varLib.instancer import solver as S
    import fontTools.varLib.instancer  # noqa
    from fontTools.varLib import varStore as VS
    from fontTools.varLib import iup as IUP
    from fontTools.ttLib.tables import otTables as ot
    from fontTools.ttLib.tables.TupleVariation import TupleVariation
    import fontTools.varLib  # aliases
    import fontTools.varLib.merger  # noqa
    import fontTools.varLib.featureVars  # noqa

    VM = M.VariationModel

    # ---- models ----------------------------------------------------
    def supports_of(model):
        return [{ax: tuple(t) for ax, t in s.items()} for s in model.supports]

    def post_supportScalar(st, a, kw, res, exc):
        loc, support, otf, extrapolate = a[0], a[1], a[2], a[3]
        if exc is not None or extrapolate or not otf:
            return
        try:
            want = R.region_scalar(loc, {ax: tuple(t) for ax, t in support.items()})
        except (TypeError, ValueError):
            return
        _cur["n"] += 1
        if not _close(res, want):
            _rep("supportScalar", "scalar differs from the tent product", loc=dict(loc), support=dict(support), got=res, want=float(want))

    def post_getScalars(st, a, kw, res, exc):
        model, loc = a[0], a[1]
        if exc is not None or model.extrapolate:
            return
        _cur["n"] += 1
        for s, sup in zip(res, supports_of(model)):
            want = R.region_scalar(loc, sup)
            if not _close(s, want):
                _rep("VariationModel.getScalars", "scalar differs from the tent product", loc=dict(loc), support=sup, got=s, want=float(want))
                return

    def post_getDeltas(st, a, kw, res, exc):
        model, values, rnd_fn = a[0], a[1], a[2]
        if exc is not None or model.extrapolate:
            return
        from fontTools.misc.roundTools import noRound, otRound
        if rnd_fn is not noRound and (rnd_fn is round or rnd_fn is otRound) and all(isinstance(v, int) for v in values):
            # rounded deltas: every (integer) master is reproduced at its own location to within one rounding
            _cur["n"] += 1
            sups = supports_of(model)
            for i, loc in enumerate(model.origLocations):
                tot = sum((F(d) * R.region_scalar(loc, sup) for d, sup in zip(res, sups)), F(0))
                if abs(tot - values[i]) > F(1, 2) + F(1, 10 ** 9):
                    _rep("VariationModel.getDeltas", "rounded deltas do not reproduce a master within one rounding",
                         locations=model.origLocations, values=list(values), master=i, got=float(tot), want=values[i])
                    return
            _cur["keys"].add("model/rounded/m%d" % len(values))
            return
        if rnd_fn is not noRound or not all(_num(v) for v in values):
            return
        _cur["n"] += 1
        sups = supports_of(model)
        scale = max([1.0] + [abs(float(v)) for v in values])
        # interpolation condition at every master: sum_k delta_k * scalar_k(master_i) == value_i
        for i, loc in enumerate(model.origLocations):
            tot = F(0)
            for d, sup in zip(res, sups):
                tot += F(d) * R.region_scalar(loc, sup)
            if not _close(tot, values[i], scale):
                _rep("VariationModel.getDeltas", "deltas+supports do not reproduce a master at its own location",
                     locations=model.origLocations, values=list(values), master=i, got=float(tot), want=float(values[i]),
                     supports=sups, deltas=list(res))
                return
        # supports must be peaked at their master
        for loc, sup in zip(model.locations, sups):
            for ax, (lo, pk, hi) in sup.items():
                if pk != loc.get(ax, 0) or not (lo <= pk <= hi):
                    _rep("VariationModel.getDeltas", "support not peaked at its master", location=loc, support=sup)
                    return
        _cur["keys"].add("model/a%d/m%d/off%d" % (len({ax for l in model.origLocations for ax in l}), len(values),
                                                  sum(1 for l in model.origLocations if len(l) > 1)))

    def post_getMasterScalars(st, a, kw, res, exc):
        model, loc = a[0], a[1]
        if exc is not None or model.extrapolate:
            return
        _cur["n"] += 1
        n = len(res)
        rr = random.Random(n * 7919 + len(loc))
        vals = [rr.randrange(-1000, 1000) for _ in range(n)]
        deltas = model.getDeltas(vals)
        sups = supports_of(model)
        via_deltas = sum(F(d) * R.region_scalar(loc, sup) for d, sup in zip(deltas, sups))
        via_masters = sum(F(s) * v for s, v in zip(res, vals))
        if not _close(via_masters, via_deltas, 1000.0):
            _rep("VariationModel.getMasterScalars", "weighting the masters differs from evaluating deltas and regions",
                 locations=model.origLocations, at=dict(loc), values=vals, via_masters=float(via_masters), via_deltas=float(via_deltas))
        # at a master's own location the weights must be the unit vector
        for i, ml in enumerate(model.origLocations):
            if {k: v for k, v in loc.items() if v != 0} == ml:
                for j, s in enumerate(res):
                    if not _close(s, 1 if i == j else 0):
                        _rep("VariationModel.getMasterScalars", "weights at a master's location are not the unit vector",
                             locations=model.origLocations, at=dict(loc), weights=list(res))
                        return

    def post_normalizeValue(st, a, kw, res, exc):
        v, triple, extrapolate = a[0], a[1], a[2]
        if exc is not None or not _num(v):
            return
        _cur["n"] += 1
        want = R.normalize_value(v, triple, extrapolate)
        if not _close(res, want):
            _rep("normalizeValue", "differs from the piecewise linear definition", v=v, triple=tuple(triple), got=res, want=float(want))

    def post_plm(st, a, kw, res, exc):
        v, mapping = a[0], a[1]
        if exc is not None or not _num(v):
            return
        _cur["n"] += 1
        want = R.piecewise_linear(v, mapping)
        if not _close(res, want, abs(float(v))):
            _rep("piecewiseLinearMap", "differs from exact interpolation", v=v, mapping=dict(mapping), got=res, want=float(want))

    hooks.attach(M, "supportScalar", post=post_supportScalar, name="supportScalar")
    hooks.attach(VM, "getScalars", post=post_getScalars, name="VariationModel.getScalars")
    hooks.attach(VM, "getDeltas", post=post_getDeltas, name="VariationModel.getDeltas")
    hooks.attach(VM, "getMasterScalars", post=post_getMasterScalars, name="VariationModel.getMasterScalars")
    hooks.attach(M, "normalizeValue", post=post_normalizeValue, name="normalizeValue")
    hooks.attach(M, "piecewiseLinearMap", post=post_plm, name="piecewiseLinearMap")

    # ---- solver ------------------------------------------------------
    def well_formed(tent_, lim):
        lo, pk, hi = tent_
        amin, adef, amax = lim[0], lim[1], lim[2]
        if not (-2 <= lo <= pk <= hi <= 2) or pk == 0 or (lo < 0 < hi):
            return False
        if not (-1 <= amin <= adef <= amax <= 1):
            return False
        # continuous over the axis range [-1, 1]
        if (pk == hi and hi < 1) or (lo == pk and lo > -1):
            return False
        return True

    def post_rebaseTent(st, a, kw, res, exc):
        tent_, lim = a[0], a[1]
        if not well_formed(tent_, lim):
            return
        if exc is not None:
            _rep("rebaseTent", "raised %s on a well-formed tent and limit" % type(exc).__name__, tent=tent_, limit=tuple(lim))
            return
        _cur["n"] += 1
        amin, adef, amax = F(lim[0]), F(lim[1]), F(lim[2])
        pts = {amin, adef, amax}
        if amax > amin:
            for k in range(17):
                pts.add(amin + (amax - amin) * F(k, 16))
        for x in (F(tent_[0]), F(tent_[1]), F(tent_[2]), F(0)):
            if amin <= x <= amax:
                pts.add(x)
        limF = tuple(F(v) for v in lim)
        for v in sorted(pts):
            want = R.plain_tent(v, tent_)
            xn = R.renormalize(v, limF)
            got = F(0)
            for scalar, t in res:
                got += F(scalar) * (F(1) if t is None else R.plain_tent(xn, tuple(F(c) for c in t)))
            if not _close(got, want):
                _rep("rebaseTent", "re-expressed region evaluates differently inside the new limits",
                     tent=tent_, limit=tuple(lim), at_old=float(v), at_new=float(xn), got=float(got), want=float(want), solution=res)
                return
        _cur["keys"].add("solver/tents%d/gain%d/%s" % (sum(1 for _, t in res if t is not None), sum(1 for _, t in res if t is None),
                                                      "neg" if tent_[1] < 0 else "pos"))

    hooks.attach(S, "rebaseTent", post=post_rebaseTent, name="rebaseTent")
    for nm, pat in [("solve.case1", r"# case 1"), ("solve.mirror", r"if axisDef > peak"), ("solve.case2", r"# case 2"),
                    ("solve.case3", r"# case 3"), ("solve.case4", r"# case 4"), ("solve.case5", r"# case 5"), ("solve.case6", r"# case 6")]:
        pass  # comments are not executable lines; branch coverage is reported through output-shape classes instead

    # ---- VarStore --------------------------------------------------
    def store_eval_all(parsed, idxes, locs):
        return {i: [R.eval_varstore(parsed, i, l) for l in locs] for i in idxes}

    def all_idxes(parsed):
        out = []
        for mj, vd in enumerate(parsed["data"]):
            if vd is None:
                continue
            for mn in range(len(vd["items"])):
                out.append((mj << 16) | mn)
        return out

    def pre_store(a, kw):
        try:
            return _compile_store(a[0])
        except Exception:
            return None

    def mk_post_store(op):
        def post(st, a, kw, res, exc):
            store = a[0]
            if st is None or exc is not None:
                if exc is not None and st is not None:
                    _rep("VarStore." + op, "raised %s" % type(exc).__name__)
                return
            if op == "optimize" and a[2] != 1:
                return  # quantization > 1 is lossy by contract
            after = _compile_store(store)
            _cur["n"] += 1
            rr = random.Random(len(st["regions"]) * 131 + len(st["data"]))
            locs = _lattice_locs(st["axisCount"], rr, 40)
            if op == "optimize":
                mapping = res
                idxes = all_idxes(st)
            elif op == "subset_varidxes":
                mapping = res
                idxes = [i for i in a[1] if i != R.NO_VARIATION_INDEX]
            else:
                mapping = None
                idxes = all_idxes(st)
            if len(idxes) > 4000:
                # oversized stores: the rows at both ends of every VarData plus a random sample, at fewer locations
                byvd = {}
                for i in idxes:
                    byvd.setdefault(i >> 16, []).append(i)
                pick = set(rr.sample(idxes, 2500))
                for v in byvd.values():
                    v.sort()
                    pick.update(v[:40] + v[-40:])
                idxes, locs = sorted(pick), locs[:6]
            for i in idxes:
                j = i if mapping is None else mapping.get(i)
                if j is None:
                    _rep("VarStore." + op, "a variation index in use has no mapping", index=i)
                    return
                for l in locs:
                    b, c = R.eval_varstore(st, i, l), R.eval_varstore(after, j, l)
                    if b != c:
                        _rep("VarStore." + op, "value changed for a (variation index, location)", index=i, mapped=j,
                             location=[float(x) for x in l], before=float(b), after=float(c))
                        return
            _cur["keys"].add("store/%s/r%d->%d/d%d->%d" % (op, len(st["regions"]), len(after["regions"]), len(st["data"]), len(after["data"])))
        return post

    hooks.attach(ot.VarStore, "optimize", pre=pre_store, post=mk_post_store("optimize"), name="VarStore.optimize")
    hooks.attach(ot.VarStore, "subset_varidxes", pre=pre_store, post=mk_post_store("subset_varidxes"), name="VarStore.subset_varidxes")
    hooks.attach(ot.VarStore, "prune_regions", pre=pre_store, post=mk_post_store("prune_regions"), name="VarStore.prune_regions")

    def post_instancer_getitem(st, a, kw, res, exc):
        inst, varidx = a[0], a[1]
        if exc is not None:
            return
        _cur["n"] += 1
        if varidx == R.NO_VARIATION_INDEX:
            want = F(0)
        else:
            mj, mn = varidx >> 16, varidx & 0xFFFF
            if mj >= len(inst._varData) or mn >= len(inst._varData[mj].Item):
                want = F(0)
            else:
                vd = inst._varData[mj]
                want = F(0)
                for ri, d in zip(vd.VarRegionIndex, vd.Item[mn]):
                    reg = inst._regions[ri]
                    s = F(1)
                    for ai, ax in enumerate(reg.VarRegionAxis):
                        tag = inst.fvar_axes[ai].axisTag
                        s *= R.tent(inst.location.get(tag, 0), (ax.StartCoord, ax.PeakCoord, ax.EndCoord))
                    want += s * F(d)
        if not _close(res, want, abs(float(want))):
            _rep("VarStoreInstancer.__getitem__", "evaluated delta differs from the definition", varidx=varidx,
                 location=dict(inst.location), got=res, want=float(want))

    hooks.attach(VS.VarStoreInstancer, "__getitem__", post=post_instancer_getitem, name="VarStoreInstancer.__getitem__")

    # ---- IUP -------------------------------------------------------------
    def usable(deltas, coords, ends):
        n = len(coords)
        return len(deltas) == n and n >= 4 and list(ends) == sorted(ends) and (ends[-1] + 1 if ends else 0) + 4 == n

    def post_iup_delta(st, a, kw, res, exc):
        deltas, coords, ends = a[0], a[1], a[2]
        if exc is not None or not usable(deltas, coords, ends):
            return
        _cur["n"] += 1
        want = R.iup_reference(deltas, coords, ends)
        for i, (g, w) in enumerate(zip(res, want)):
            sc = max(1.0, abs(float(w[0])), abs(float(w[1])))
            if not (_close(g[0], w[0], sc) and _close(g[1], w[1], sc)):
                _rep("iup_delta", "inferred delta differs from the gvar rule", point=i, got=tuple(g), want=(float(w[0]), float(w[1])),
                     deltas=list(deltas)[:40], coords=list(coords)[:40], ends=list(ends))
                return
        ninf = sum(1 for d in deltas if d is None)
        _cur["keys"].add("iup_delta/n%d/inf%d" % (min(len(coords), 40), min(ninf, 40)))

    def post_iup_opt(st, a, kw, res, exc):
        deltas, coords, ends, tol = a[0], a[1], a[2], a[3]
        if exc is not None or not usable(deltas, coords, ends) or None in deltas:
            return
        _cur["n"] += 1
        if len(res) != len(deltas):
            _rep("iup_delta_optimize", "result length differs", n_in=len(deltas), n_out=len(res))
            return
        for i, (o, d) in enumerate(zip(res, deltas)):
            if o is not None and tuple(o) != tuple(d):
                _rep("iup_delta_optimize", "a retained (referenced) point's delta was changed", point=i, before=tuple(d), after=tuple(o))
                return
        full = R.iup_reference(res, coords, ends)
        worst = 0.0
        for i, (w, d) in enumerate(zip(full, deltas)):
            err = math.hypot(float(w[0]) - d[0], float(w[1]) - d[1])
            worst = max(worst, err)
            if err > tol + EPS * max(1.0, abs(d[0]), abs(d[1])):
                _rep("iup_delta_optimize", "omitted delta is not inferable within the tolerance", point=i, error=err, tolerance=tol,
                     deltas=list(deltas)[:40], coords=list(coords)[:40], ends=list(ends), optimized=list(res)[:40])
                return
        ninf = sum(1 for d in res if d is None)
        _cur["keys"].add("iup_opt/n%d/inf%d/tol%s" % (min(len(coords), 40), min(ninf, 40), tol))

    hooks.attach(IUP, "iup_delta", post=post_iup_delta, name="iup_delta")
    hooks.attach(IUP, "iup_delta_optimize", post=post_iup_opt, name="iup_delta_optimize")

    def pre_tv_opt(a, kw):
        tv = a[0]
        if None in tv.coordinates:
            return None
        axisTags = sorted(tv.axes.keys())
        try:
            td, ad = tv.compile(axisTags)
        except Exception:
            return None
        return {"coords": list(tv.coordinates), "size": len(td) + len(ad)}

    def post_tv_opt(st, a, kw, res, exc):
        tv, orig, ends, tol = a[0], a[1], a[2], a[3]
        if st is None or exc is not None:
            return
        _cur["n"] += 1
        if tv.getCoordWidth() != 2:
            return
        after = list(tv.coordinates)
        if after == st["coords"]:
            _cur["keys"].add("tv_opt/kept")
            return
        full = R.iup_reference(after, list(orig), list(ends))
        for i, (w, d) in enumerate(zip(full, st["coords"])):
            err = math.hypot(float(w[0]) - d[0], float(w[1]) - d[1])
            if err > tol + EPS * max(1.0, abs(d[0]), abs(d[1])):
                _rep("TupleVariation.optimize", "optimised tuple evaluates outside the tolerance", point=i, error=err, tolerance=tol)
                return
        td, ad = tv.compile(sorted(tv.axes.keys()))
        if len(td) + len(ad) > st["size"]:
            _rep("TupleVariation.optimize", "kept a larger encoding", before=st["size"], after=len(td) + len(ad))
        _cur["keys"].add("tv_opt/changed/n%d" % min(len(after), 40))

    hooks.attach(TupleVariation, "optimize", pre=pre_tv_opt, post=post_tv_opt, name="TupleVariation.optimize")


# ---------------------------------------------------------------- cases
LAT = [F(-1), F(-1, 2), F(1, 2), F(1)]


def cases(tier, seed):
    T = tier == "thorough"
    cs = []

    def add(kind, **kw):
        kw["kind"] = kind
        kw["id"] = "%s:%s" % (kind, ",".join("%s=%s" % (k, v) for k, v in sorted(kw.items()) if k != "kind"))
        kw["seed"] = seed
        cs.append(kw)

    add("models1")                      # one axis: exhaustive over all subsets of the lattice
    nparts = 24 if T else 8
    for part in range(nparts):
        add("models2", part=part, parts=nparts, max_extra=3, exhaustive=T, n=0 if T else 90)
    for part in range(12 if T else 4):
        add("modelsN", part=part, n=250 if T else 60)
    nsp = 32 if T else 16
    for part in range(nsp):
        add("solver", part=part, parts=nsp, fine=T)
    for part in range(8 if T else 3):
        add("stores", part=part, n=80 if T else 30)
    add("stores_big", wide="word", novi=True)
    if T:
        add("stores_big", wide="long", novi=False)
        add("stores_big", wide="word", novi=False)
    for part in range(6 if T else 2):
        add("multistore", part=part, n=120 if T else 40)
    for part in range(8 if T else 3):
        add("iup", part=part, n=500 if T else 160)
    from vmon import corpus
    gv = [r for r in corpus.fonts() if "gvar" in r["tables"] and r["complete"]]
    if not T:
        gv = gv[:6]
    for r in gv:
        add("iup_corpus", path=r["path"], member=r["member"], maxglyphs=400 if T else 40)
    vs = [r for r in corpus.fonts() if any(t in r["tables"] for t in ("HVAR", "MVAR", "VVAR")) or (r["variable"] and "GDEF" in r["tables"])]
    if not T:
        vs = vs[:8]
    for r in vs:
        add("stores_corpus", path=r["path"], member=r["member"])
    add("norm", n=20000 if T else 4000)
    if T:
        for sp in ['varLib', 'ttLib/tables/TupleVariation_test.py']:
            add("suite", path=sp)
    return cs


def run_case(case, ctx):
    _cur["keys"], _cur["n"] = set(), 0
    rnd = random.Random("%s/%s" % (case["id"], case["seed"]))
    globals()["drv_" + case["kind"]](case, rnd, ctx)
    ctx.judged(_cur["n"])
    for k in _cur["keys"]:
        ctx.nontrivial(k)
    if ctx.sample is None:
        ctx.sample = {"case": {k: v for k, v in case.items() if k != "seed"}, "monitor_evaluations": _cur["n"],
                      "classes": sorted(_cur["keys"])[:10]}


# ---------------------------------------------------------------- drivers
def _exercise_model(locs, rnd, ctx, axes):
    """locs: list of dicts (first is the origin {})."""
    from fontTools.varLib.models import VariationModel, VariationModelError
    order = list(locs)
    rnd.shuffle(order)
    try:
        model = VariationModel([{k: float(v) for k, v in l.items()} for l in order], axisOrder=axes)
    except VariationModelError:
        ctx.skip("model rejected")
        return
    n = len(order)
    for vals in ([rnd.randrange(-1000, 1000) for _ in range(n)], [F(rnd.randrange(-999, 999), rnd.choice([1, 2, 3, 7])) for _ in range(n)]):
        fv = [float(v) if isinstance(v, F) else v for v in vals]
        deltas = model.getDeltas(fv)
        pts = [dict(zip(axes, p)) for p in itertools.product([F(-1), F(-3, 4), F(-1, 2), F(-1, 4), F(0), F(1, 4), F(1, 2), F(3, 4), F(1)], repeat=len(axes))]
        if len(pts) > 90:
            pts = rnd.sample(pts, 90)
        pts += [dict(l) for l in order]
        for p in pts:
            pf = {k: float(v) for k, v in p.items()}
            a = model.interpolateFromDeltas(pf, deltas)
            b = model.interpolateFromMasters(pf, fv)
            ctx.judged()
            a = 0 if a is None else a
            b = 0 if b is None else b
            if not _close(a, b, 1000.0):
                ctx.violation({"kind": "variation", "func": "VariationModel", "what": "interpolateFromDeltas != interpolateFromMasters"},
                              "deltas-based and masters-based interpolation differ", {"locations": repr(order), "at": repr(pf), "a": a, "b": b})
                return
        for i, l in enumerate(order):
            got = model.interpolateFromMasters({k: float(v) for k, v in l.items()}, fv)
            got = 0 if got is None else got
            ctx.judged()
            if not _close(got, fv[i], 1000.0):
                ctx.violation({"kind": "variation", "func": "VariationModel", "what": "interpolating at a master's location does not return the master"},
                              "master not reproduced", {"locations": repr(order), "master": i, "got": got, "want": fv[i]})
                return
    # the caller may re-order the masters afterwards (multi-step history): the same
    # identities must hold in the new order (the getDeltas monitor judges them too)
    if n > 1:
        perm = list(range(n))
        rnd.shuffle(perm)
        vals = [rnd.randrange(-1000, 1000) for _ in range(n)]
        new_vals = model.reorderMasters(list(vals), perm)
        new_order = [order[i] for i in perm]
        ctx.judged()
        if list(new_vals) != [vals[i] for i in perm]:
            ctx.violation({"kind": "variation", "func": "VariationModel.reorderMasters", "what": "returned list is not the permuted list"},
                          "reorderMasters returned a wrong list", {"perm": perm})
            return
        model.getDeltas(new_vals)          # monitored: interpolation condition at every master
        for i, l in enumerate(new_order):
            pf = {k: float(v) for k, v in l.items()}
            got = model.interpolateFromMasters(pf, new_vals)
            got = 0 if got is None else got
            ctx.judged()
            if not _close(got, new_vals[i], 1000.0):
                ctx.violation({"kind": "variation", "func": "VariationModel.reorderMasters", "what": "after reordering, interpolating at a master's location does not return the master"},
                              "master not reproduced after reorderMasters", {"locations": repr(new_order), "perm": perm, "master": i, "got": got, "want": new_vals[i]})
                return


def _drv_models1(case, rnd, ctx):
    pts = LAT + [F(1, 4), F(-1, 4)]
    for r in range(0, len(pts) + 1):
        for extra in itertools.combinations(pts, r):
            _exercise_model([{}] + [{"A": v} for v in extra], rnd, ctx, ["A"])
    ctx.sample = {"one_axis_master_sets": 2 ** len(pts), "lattice": [str(p) for p in pts]}


def _drv_models2(case, rnd, ctx):
    vals = [F(-1), F(-1, 2), F(0), F(1, 2), F(1)]
    lattice = [p for p in itertools.product(vals, repeat=2) if p != (0, 0)]
    sets = []
    if case["exhaustive"]:
        k = 0
        for r in range(1, case["max_extra"] + 1):
            for extra in itertools.combinations(lattice, r):
                if k % case["parts"] == case["part"]:
                    sets.append(extra)
                k += 1
        for _ in range(400):
            sets.append(tuple(rnd.sample(lattice, rnd.choice([4, 5]))))
    else:
        for _ in range(case["n"]):
            sets.append(tuple(rnd.sample(lattice, rnd.randrange(1, 6))))
    for extra in sets:
        locs = [{}] + [{ax: v for ax, v in zip("AB", p) if v != 0} for p in extra]
        _exercise_model(locs, rnd, ctx, ["A", "B"])
    ctx.sample = {"two_axis_master_sets": len(sets), "example": [tuple(str(c) for c in p) for p in sets[0]]}


def _drv_modelsN(case, rnd, ctx):
    vals = [F(-1), F(-1, 2), F(0), F(1, 2), F(1), F(1, 4)]
    for _ in range(case["n"]):
        na = rnd.choice([3, 4])
        axes = list("ABCD")[:na]
        nm = rnd.randrange(1, 6)
        seen, locs = set(), [{}]
        for _m in range(nm):
            kind = rnd.random()
            if kind < 0.4:   # on-axis
                p = {rnd.choice(axes): rnd.choice([v for v in vals if v != 0])}
            elif kind < 0.8:  # corner / off-axis
                p = {ax: rnd.choice(vals) for ax in rnd.sample(axes, rnd.randrange(2, na + 1))}
                p = {k: v for k, v in p.items() if v != 0}
            else:
                p = {ax: rnd.choice([F(-1), F(1)]) for ax in axes}
            key = tuple(sorted(p.items()))
            if p and key not in seen:
                seen.add(key)
                locs.append(p)
        _exercise_model(locs, rnd, ctx, axes)


def drv_solver(case, rnd, ctx):
    from fontTools.varLib.instancer.solver import rebaseTent
    from fontTools.varLib.instancer import NormalizedAxisTripleAndDistances as NA
    G = [F(i, 4) for i in range(-4, 5)]
    G2 = [F(i, 4) for i in range(-8, 9)]
    if case["fine"]:
        G2 = sorted(set(G2) | {F(i, 8) for i in range(-8, 9)})
    tents = [(l, p, u) for l, p, u in itertools.product(G2, G2, G2)
             if l <= p <= u and p != 0 and not (l < 0 < u) and not ((p == u and u < 1) or (l == p and l > -1))]
    mine = tents[case["part"]::case["parts"]]
    lims = [(lo, d, hi) for lo, d, hi in itertools.product(G, G, G) if lo <= d <= hi]
    n = 0
    for t in mine:
        for lim in lims:
            for dn, dp in ((1, 1), (2, 1), (1, 3)) if (n % 3 == 0 or case["fine"]) else ((1, 1),):
                n += 1
                try:
                    rebaseTent(tuple(float(c) for c in t), NA(float(lim[0]), float(lim[1]), float(lim[2]), dn, dp))
                except Exception:
                    pass   # judged by the monitor (well-formed input must not raise)
    ctx.sample = {"tents": len(mine), "limits": len(lims), "pairs": n, "example_tent": [str(c) for c in mine[0]] if mine else None}
    ctx.note("solver_pairs", n)


def _gen_store(rnd):
    from fontTools.varLib import builder
    na = rnd.randrange(1, 4)
    axes = ["AX%d" % i for i in range(na)]
    regs, seen = [], set()
    for _ in range(rnd.randrange(1, 7)):
        sup = {}
        for ax in rnd.sample(axes, rnd.randrange(1, na + 1)):
            pk = rnd.choice([-1.0, -0.5, 0.5, 1.0, 0.25])
            if pk > 0:
                lo = rnd.choice([0.0, pk / 2]) if rnd.random() < 0.7 else 0.0
                hi = rnd.choice([pk, 1.0])
            else:
                hi = rnd.choice([0.0, pk / 2]) if rnd.random() < 0.7 else 0.0
                lo = rnd.choice([pk, -1.0])
            sup[ax] = (lo, pk, hi)
        key = tuple(sorted(sup.items()))
        if key not in seen:
            seen.add(key)
            regs.append(sup)
    rl = builder.buildVarRegionList(regs, axes)
    vds = []
    for _ in range(rnd.randrange(1, 4)):
        ridx = sorted(rnd.sample(range(len(regs)), rnd.randrange(1, len(regs) + 1)))
        mag = rnd.choice([5, 120, 130, 30000, 40000, 100000])
        rows = []
        for _r in range(rnd.randrange(1, 40)):
            kind = rnd.random()
            if kind < 0.15:
                rows.append([0] * len(ridx))
            elif kind < 0.3 and rows:
                rows.append(list(rnd.choice(rows)))
            else:
                rows.append([rnd.choice([0, rnd.randrange(-mag, mag + 1), rnd.randrange(-5, 6)]) for _c in ridx])
        if rnd.random() < 0.3:   # a column of zeros
            c = rnd.randrange(len(ridx))
            for r in rows:
                r[c] = 0
        vds.append(builder.buildVarData(ridx, rows, optimize=rnd.random() < 0.5))
    return builder.buildVarStore(rl, vds), axes


def _drv_stores(case, rnd, ctx):
    from fontTools.varLib.varStore import VarStoreInstancer, OnlineVarStoreBuilder
    from fontTools.varLib.models import VariationModel

    class Ax:
        def __init__(self, t):
            self.axisTag = t

    for i in range(case["n"]):
        store, axes = _gen_store(rnd)
        idxes = [(mj << 16) | mn for mj, vd in enumerate(store.VarData) for mn in range(len(vd.Item))]
        s1 = copy.deepcopy(store)
        s1.optimize(use_NO_VARIATION_INDEX=rnd.random() < 0.5)
        s2 = copy.deepcopy(store)
        used = set(rnd.sample(idxes, rnd.randrange(1, len(idxes) + 1)))
        s2.subset_varidxes(used, optimize=rnd.random() < 0.5, retainFirstMap=rnd.random() < 0.3,
                           advIdxes={x for x in used if x >> 16 == 0 and rnd.random() < 0.3})
        s3 = copy.deepcopy(store)
        s3.prune_regions()
        inst = VarStoreInstancer(store, [Ax(t) for t in axes])
        for _l in range(6):
            inst.setLocation({t: rnd.choice([-1, -0.5, 0, 0.25, 0.5, 1, 0.7]) for t in axes})
            for idx in rnd.sample(idxes, min(len(idxes), 8)) + [0xFFFFFFFF]:
                inst[idx]
        if i == 0:
            ctx.sample = {"axes": axes, "regions": len(store.VarRegionList.Region), "vardata": [len(vd.Item) for vd in store.VarData]}
        # OnlineVarStoreBuilder round trip: masters -> store -> evaluate
        na = rnd.randrange(1, 3)
        ax2 = ["A", "B"][:na]
        # also quarter and eighth positions (exact in F2Dot14): supports of intermediate masters then overlap with fractional
        # scalars, so the order in which deltas are rounded matters
        vals = [F(-1), F(-1, 2), F(1, 2), F(1)] if rnd.random() < 0.4 else [F(-1), F(-3, 4), F(-1, 2), F(-1, 4), F(1, 4), F(1, 2), F(3, 4), F(1), F(1, 8), F(-5, 8)]
        locs, seen = [{}], set()
        for _m in range(rnd.randrange(1, 7)):
            p = {a: float(rnd.choice(vals)) for a in rnd.sample(ax2, rnd.randrange(1, na + 1))}
            k = tuple(sorted(p.items()))
            if k not in seen:
                seen.add(k)
                locs.append(p)
        model = VariationModel(locs, axisOrder=ax2)
        b = OnlineVarStoreBuilder(ax2)
        b.setModel(model)
        rows = []
        for _r in range(rnd.randrange(1, 12)):
            def fresh():
                # new master values, or the values of an earlier row (single or from a batch): de-duplication
                # inside the builder must hand back an index that evaluates to the same numbers
                if rows and rnd.random() < 0.4:
                    return list(rnd.choice(rows)[0])
                return [rnd.randrange(-500, 500) for _ in locs]
            if rnd.random() < 0.35:
                batch = [fresh() for _k in range(rnd.randrange(1, 5))]
                bases, first = b.storeMastersMany(batch)
                for k, (mv, base) in enumerate(zip(batch, bases)):
                    rows.append((mv, base, first + k))
            else:
                mv = fresh()
                base, vidx = b.storeMasters(mv)
                rows.append((mv, base, vidx))
        # the same regions handed over again in other orders (as hvar/vvar do per glyph), and sub-lists of them
        direct = []
        sup_nz = [s_ for s_ in model.supports if s_]
        for _b in range(rnd.randrange(1, 4)):
            sl = list(sup_nz)
            rnd.shuffle(sl)
            if rnd.random() < 0.3 and len(sl) > 1:
                sl = sl[:rnd.randrange(1, len(sl))]
            b.setSupports(sl)
            for _r in range(rnd.randrange(1, 5)):
                dl = [rnd.randrange(-400, 400) for _ in sl]
                if rnd.random() < 0.3 and rows:
                    # the multiset of an earlier row of the model batch, to collide in any shared cache
                    prev = model.getDeltas(rnd.choice(rows)[0], round=round)[1:]
                    if len(prev) == len(sl):
                        dl = list(prev)
                        rnd.shuffle(dl)
                direct.append((sl, dl, b.storeDeltas(dl)))
        st = b.finish(optimize=False)
        parsed = _compile_store(st)
        for sl, dl, vidx in direct:
            ctx.judged()
            for l in locs + [{a: 0.25 for a in ax2}, {a: -0.75 for a in ax2}]:
                locv = [F(l.get(a, 0)) for a in ax2]
                got = R.eval_varstore(parsed, vidx, locv)
                want = sum(F(d) * R.region_scalar({k: F(v) for k, v in l.items()}, {ax: tuple(t) for ax, t in s_.items()})
                           for d, s_ in zip(dl, sl))
                if got != want:
                    ctx.violation({"kind": "variation", "func": "OnlineVarStoreBuilder", "what": "deltas stored after setSupports evaluate differently from deltas x supports"},
                                  "OnlineVarStoreBuilder.setSupports/storeDeltas round trip differs",
                                  {"supports": repr(sl), "deltas": dl, "at": repr(l), "got": float(got), "want": float(want)})
                    return
        from fontTools.misc.roundTools import otRound
        for mv, base, vidx in rows:
            deltas = model.getDeltas(mv, round=round)
            ctx.judged()
            # integer masters stored with rounded deltas: every master is reproduced at its own location to within
            # one rounding (0.5) -- deltas are rounded one after the other so that later ones absorb earlier errors
            for mi, l in enumerate(locs):
                locv = [F(l.get(a, 0)) for a in ax2]
                gotm = R.eval_varstore(parsed, vidx, locv) + base
                if abs(gotm - mv[mi]) > F(1, 2):
                    ctx.violation({"kind": "variation", "func": "OnlineVarStoreBuilder", "what": "a master is not reproduced within one rounding at its own location"},
                                  "OnlineVarStoreBuilder: master %d reproduced as %s instead of %s" % (mi, float(gotm), mv[mi]),
                                  {"locations": repr(locs), "masters": mv, "at": repr(l), "got": float(gotm), "want": mv[mi]})
                    return
            for l in locs + [{a: 0.25 for a in ax2}]:
                locv = [F(l.get(a, 0)) for a in ax2]
                got = R.eval_varstore(parsed, vidx, locv) + base
                want = sum(F(d) * R.region_scalar({k: F(v) for k, v in l.items()}, {ax: tuple(t) for ax, t in s.items()})
                           for d, s in zip(deltas, model.supports))
                if got != want:
                    ctx.violation({"kind": "variation", "func": "OnlineVarStoreBuilder", "what": "stored deltas evaluate differently from the model's rounded deltas"},
                                  "OnlineVarStoreBuilder round trip differs", {"locations": repr(locs), "masters": mv, "at": repr(l), "got": float(got), "want": float(want)})
                    return
        ctx.nontrivial("online_builder/a%d/m%d" % (na, len(locs)))


def _mv_eval(store, axes, varidx, loc):
    """Exact evaluation of one MultiVarStore item from the object's fields (spec: the item's tuple is
    VarRegionCount blocks of equal length; block k is scaled by the tent product of sparse region k)."""
    if varidx == 0xFFFFFFFF:
        return []
    vd = store.MultiVarData[varidx >> 16]
    item = list(vd.Item[varidx & 0xFFFF])
    nreg = len(vd.VarRegionIndex)
    if not item:
        return []
    m = len(item) // nreg
    out = [F(0)] * m
    for k, ri in enumerate(vd.VarRegionIndex):
        reg = store.SparseVarRegionList.Region[ri]
        sup = {axes[a.AxisIndex]: (F(a.StartCoord), F(a.PeakCoord), F(a.EndCoord)) for a in reg.SparseVarRegionAxis}
        sc = R.region_scalar(loc, sup)
        for j in range(m):
            out[j] += F(item[k * m + j]) * sc
    return out


def _drv_multistore(case, rnd, ctx):
    """MultiVarStore (VARC): masters -> OnlineMultiVarStoreBuilder -> one MultiVarStoreInstancer driven through a
    history of setLocation calls; every lookup is compared with the exact evaluation of the stored tuples and
    with the model's deltas; then subset_varidxes/prune_regions must keep every surviving item's value."""
    from fontTools.varLib.multiVarStore import OnlineMultiVarStoreBuilder, MultiVarStoreInstancer
    from fontTools.varLib.models import VariationModel
    from fontTools.misc.vector import Vector

    class Ax:
        def __init__(self, t):
            self.axisTag = t

    for i in range(case["n"]):
        na = rnd.randrange(1, 4)
        axes = ["A", "B", "C"][:na]
        b = OnlineMultiVarStoreBuilder(axes)
        rows = []   # (model, master vectors, base, varidx)
        for _mod in range(rnd.randrange(1, 4)):
            locs, seen = [{}], set()
            for _m in range(rnd.randrange(1, 5)):
                pl = {a: float(rnd.choice(LAT if na > 2 else LAT + [F(1, 4), F(3, 4), F(-1, 4), F(-3, 4), F(1, 8)])) for a in rnd.sample(axes, rnd.randrange(1, na + 1))}
                k = tuple(sorted(pl.items()))
                if k not in seen:
                    seen.add(k)
                    locs.append(pl)
            rnd.shuffle(locs)
            model = VariationModel(locs, axisOrder=axes)
            b.setModel(model)
            for _r in range(rnd.randrange(1, 7)):
                m = rnd.randrange(1, 5)
                if rnd.random() < 0.15:
                    one = [rnd.randrange(-300, 300) for _ in range(m)]
                    mv = [Vector(one) for _ in locs]          # no variation -> NO_VARIATION_INDEX
                else:
                    mv = [Vector([rnd.randrange(-300, 300) for _ in range(m)]) for _ in locs]
                base, vidx = b.storeMasters(mv)
                rows.append((model, locs, mv, list(base), vidx))
        store = b.finish()
        inst = MultiVarStoreInstancer(store, [Ax(t) for t in axes], {})
        fine = [F(-1), F(-3, 4), F(-1, 2), F(-1, 4), F(0), F(1, 4), F(1, 2), F(3, 4), F(1)]
        history = []
        for _l in range(rnd.randrange(3, 8)):
            loc = {t: rnd.choice(fine) for t in axes if rnd.random() < 0.85}
            inst.setLocation({k: float(v) for k, v in loc.items()})
            history.append({k: float(v) for k, v in loc.items()})
            for model, locs, mv, base, vidx in (rows if len(rows) <= 6 else rnd.sample(rows, 6)):
                got = list(inst[vidx])
                ctx.judged()
                want = _mv_eval(store, axes, vidx, loc)
                if len(got) != len(want) or any(not _close(g, w, 300.0) for g, w in zip(got, want)):
                    ctx.violation({"kind": "variation", "func": "MultiVarStoreInstancer", "what": "lookup differs from the exact evaluation of the stored tuples"},
                                  "MultiVarStoreInstancer[%#x] after %d setLocation calls differs" % (vidx, len(history)),
                                  {"history": history, "varidx": vidx, "got": [float(x) for x in got], "want": [float(x) for x in want]})
                    return
                if vidx != 0xFFFFFFFF:
                    vd = store.MultiVarData[vidx >> 16]
                    got2 = list(inst.interpolateFromDeltas(vidx >> 16, vd.Item[vidx & 0xFFFF]))
                    if any(not _close(g, w, 300.0) for g, w in zip(got2, want)) or len(got2) != len(want):
                        ctx.violation({"kind": "variation", "func": "MultiVarStoreInstancer", "what": "interpolateFromDeltas differs from the exact evaluation of the stored tuples"},
                                      "MultiVarStoreInstancer.interpolateFromDeltas differs", {"history": history, "varidx": vidx})
                        return
        # stored tuples against the masters: at a master's own location base+variation is within rounding of the master
        for model, locs, mv, base, vidx in rows:
            for li, l in enumerate(locs):
                lf = {k: F(v) for k, v in l.items()}
                var = _mv_eval(store, axes, vidx, lf) or [F(0)] * len(base)
                ctx.judged()
                # deltas are rounded one after the other, later ones absorbing earlier errors: one rounding at a master
                bound = F(1, 2)
                if any(abs(F(bv) + v - F(m_)) > bound for bv, v, m_ in zip(base, var, mv[li])):
                    ctx.violation({"kind": "variation", "func": "OnlineMultiVarStoreBuilder", "what": "stored tuples do not reproduce a master at its own location"},
                                  "OnlineMultiVarStoreBuilder round trip differs at master %d" % li,
                                  {"locations": repr(locs), "master": list(mv[li]), "got": [float(F(bv) + v) for bv, v in zip(base, var)]})
                    return
            # exact: stored tuples == the model's rounded deltas under the model's supports
            deltas = model.getDeltas(mv, round=round)
            probe = {a: rnd.choice(fine) for a in axes}
            want = [F(0)] * len(base)
            for d, sup in zip(deltas[1:], model.supports[1:]):
                sc = R.region_scalar(probe, {ax: tuple(F(x) for x in t) for ax, t in sup.items()})
                for j in range(len(want)):
                    want[j] += F(d[j]) * sc
            got = _mv_eval(store, axes, vidx, probe) or [F(0)] * len(base)
            if got != want:
                ctx.violation({"kind": "variation", "func": "OnlineMultiVarStoreBuilder", "what": "stored deltas evaluate differently from the model's rounded deltas"},
                              "OnlineMultiVarStoreBuilder stores other deltas than the model computed",
                              {"locations": repr(locs), "at": {k: float(v) for k, v in probe.items()}, "got": [float(x) for x in got], "want": [float(x) for x in want]})
                return
        # subsetting / pruning keeps the value of every kept item
        real = sorted({r[4] for r in rows if r[4] != 0xFFFFFFFF})
        if real:
            keep = set(rnd.sample(real, rnd.randrange(1, len(real) + 1)))
            s2 = copy.deepcopy(store)
            mapping = s2.subset_varidxes(keep)
            s2.prune_regions()
            for old in keep:
                probe = {a: rnd.choice(fine) for a in axes}
                ctx.judged()
                if _mv_eval(store, axes, old, probe) != _mv_eval(s2, axes, mapping[old], probe):
                    ctx.violation({"kind": "variation", "func": "MultiVarStore.subset_varidxes", "what": "a kept item evaluates differently after subsetting/pruning"},
                                  "MultiVarStore subset changes item %#x" % old, {"old": old, "new": mapping[old]})
                    return
        if i == 0:
            ctx.sample = {"axes": axes, "multivardata": [len(vd.Item) for vd in store.MultiVarData], "history": history}
        ctx.nontrivial("multistore/a%d/vd%d/h%d" % (na, len(store.MultiVarData), len(history)))


def _drv_stores_big(case, rnd, ctx):
    """A store in which one row encoding holds more than 0xFFFF distinct rows (optimize must split it over several
    VarData and the returned map must follow), next to ordinary small VarData sorted before and after it."""
    from fontTools.varLib import builder
    from fontTools.ttLib.tables import otTables as ot
    axes = ["wght", "wdth"]
    sups = [{"wght": (0, 1, 1)}, {"wdth": (0, 1, 1)}, {"wght": (0, 1, 1), "wdth": (0, 1, 1)}, {"wght": (-1, -1, 0)}]
    rl = builder.buildVarRegionList(sups, axes)
    vds = []
    # small VarData: byte columns
    vds.append(builder.buildVarData([0, 1], [[rnd.randrange(-100, 100), rnd.randrange(-100, 100)] for _ in range(rnd.randrange(50, 200))], optimize=False))
    # oversized: word (or long) columns, all rows distinct
    wide = case["wide"]
    lo = 1 << (20 if wide == "long" else 10)
    n = 0xFFFF + rnd.randrange(1, 6000)
    seen = set()
    rows = []
    while len(rows) < n:
        r = (rnd.randrange(lo, lo * 16) * rnd.choice([-1, 1]), rnd.randrange(lo, lo * 16) * rnd.choice([-1, 1]))
        if r not in seen:
            seen.add(r)
            rows.append(list(r))
    half = len(rows) // 2
    vds.append(builder.buildVarData([0, 2], rows[:half], optimize=False))
    vds.append(builder.buildVarData([0, 2], rows[half:], optimize=False))
    # another small one whose encoding sorts elsewhere
    vds.append(builder.buildVarData([1, 2, 3], [[rnd.randrange(-100, 100), rnd.randrange(-30000, 30000), 0] for _ in range(rnd.randrange(50, 200))], optimize=False))
    store = builder.buildVarStore(rl, vds)
    mapping = store.optimize(use_NO_VARIATION_INDEX=case["novi"])
    ctx.sample = {"rows_in": [len(vd.Item) for vd in vds], "rows_out": [len(vd.Item) for vd in store.VarData], "mapped": len(mapping)}
    ctx.nontrivial("stores_big/%s/vd%d" % (wide, len(store.VarData)))


def _drv_stores_corpus(case, rnd, ctx):
    from vmon import corpus
    from fontTools.varLib.varStore import VarStoreInstancer
    with ctx.lib("load"):
        font = corpus.load(case["path"], case["member"])
    stores = []
    for tag in ("HVAR", "VVAR", "MVAR", "GDEF", "BASE", "COLR"):
        if tag in font:
            with ctx.lib("decompile:" + tag):
                t = font[tag].table if hasattr(font[tag], "table") else None
            vs = getattr(t, "VarStore", None) if t is not None else None
            if vs is not None and getattr(vs, "Format", 1) == 1 and vs.VarData:
                stores.append((tag, vs))
    if not stores:
        ctx.skip("no item variation store")
        return
    axes = font["fvar"].axes if "fvar" in font else []
    for tag, vs in stores:
        idxes = [(mj << 16) | mn for mj, vd in enumerate(vs.VarData) for mn in range(len(vd.Item))]
        if not idxes:
            continue
        if len(idxes) > 300:
            idxes = rnd.sample(idxes, 300)
        s1 = copy.deepcopy(vs)
        s1.optimize()
        s2 = copy.deepcopy(vs)
        s2.subset_varidxes(set(rnd.sample(idxes, max(1, len(idxes) // 2))))
        s3 = copy.deepcopy(vs)
        s3.prune_regions()
        if axes:
            inst = VarStoreInstancer(vs, axes)
            for _ in range(4):
                inst.setLocation({a.axisTag: rnd.choice([-1, -0.5, 0, 0.5, 1, 0.3]) for a in axes})
                for idx in idxes[:20]:
                    inst[idx]
        ctx.note("corpus_store:" + tag)
    ctx.sample = {"font": case["path"], "stores": [t for t, _ in stores]}


def _gen_contours(rnd):
    ncont = rnd.randrange(0, 4)
    coords, ends = [], []
    for _ in range(ncont):
        n = rnd.choice([1, 2, 3, 4, 5, 8, 12, 20])
        style = rnd.random()
        for k in range(n):
            if style < 0.3:     # coincident coordinates and collinear runs
                coords.append((rnd.choice([0, 100, 100, 200]), rnd.choice([0, 50, 50, 300])))
            elif style < 0.5:
                coords.append((k * 10, 0))
            else:
                coords.append((rnd.randrange(-500, 500), rnd.randrange(-500, 500)))
        ends.append(len(coords) - 1)
    coords += [(0, 0), (rnd.randrange(0, 1000), 0), (0, 800), (0, -200)]
    return coords, ends


def _drv_iup(case, rnd, ctx):
    from fontTools.varLib.iup import iup_delta, iup_delta_optimize
    from fontTools.ttLib.tables.TupleVariation import TupleVariation
    for i in range(case["n"]):
        coords, ends = _gen_contours(rnd)
        n = len(coords)
        style = rnd.random()
        if style < 0.35:    # deltas that ARE interpolable (affine in coordinates) -> many omissions
            ax, bx, ay, by = (rnd.choice([0, 0.5, -0.25, 1]) for _ in range(4))
            full = [(round(ax * x + 3), round(by * y - 2)) for x, y in coords]
        elif style < 0.6:
            full = [(rnd.choice([0, 0, 1, -1, 5]), rnd.choice([0, 0, 2, -3])) for _ in coords]
        else:
            full = [(rnd.randrange(-60, 60), rnd.randrange(-60, 60)) for _ in coords]
        tol = rnd.choice([0, 0.5, 1, 2])
        opt = iup_delta_optimize(list(full), list(coords), list(ends), tolerance=tol)
        # partially specified vector -> inference
        part = [d if rnd.random() < 0.5 else None for d in full]
        iup_delta(list(part), list(coords), list(ends))
        iup_delta(list(full), list(coords), list(ends))       # fully specified: identity
        iup_delta([None] * n, list(coords), list(ends))       # nothing referenced
        tv = TupleVariation({"wght": (0.0, 1.0, 1.0)}, list(full))
        tv.optimize(list(coords), list(ends), tolerance=tol)
        if i == 0:
            ctx.sample = {"coords": coords[:12], "ends": ends, "deltas": full[:12], "tolerance": tol,
                          "omitted_by_optimizer": sum(1 for d in opt if d is None)}


def _drv_iup_corpus(case, rnd, ctx):
    from vmon import corpus
    from fontTools.varLib.iup import iup_delta, iup_delta_optimize
    with ctx.lib("load"):
        font = corpus.load(case["path"], case["member"])
        glyf, gvar = font["glyf"], font["gvar"]
        hmtx = font["hmtx"].metrics
    names = [g for g in font.getGlyphOrder() if gvar.variations.get(g)]
    if len(names) > case["maxglyphs"]:
        names = rnd.sample(names, case["maxglyphs"])
    done = 0
    for g in names:
        with ctx.lib("getCoordinatesAndControls"):
            coords, ctrl = glyf._getCoordinatesAndControls(g, hmtx)
        if ctrl.numberOfContours < 1:
            continue   # composites: point list is components, IUP applies per 'contour' of 1 point
        ends = list(ctrl.endPts)
        cl = [tuple(c) for c in coords]
        for tv in gvar.variations[g]:
            full = iup_delta(list(tv.coordinates), cl, ends)
            full = [(float(x), float(y)) for x, y in full]
            iup_delta_optimize([(round(x), round(y)) for x, y in full], cl, ends, tolerance=rnd.choice([0, 0.5, 1]))
            done += 1
    if not done:
        ctx.skip("no simple glyph variations")
    ctx.sample = {"font": case["path"], "glyph_tuples": done}


def _drv_norm(case, rnd, ctx):
    from fontTools.varLib.models import normalizeValue, piecewiseLinearMap, normalizeLocation
    for _ in range(case["n"]):
        lo = rnd.choice([0, 100, -50, 1])
        df = lo + rnd.choice([0, 0, 300, 25.5])
        hi = df + rnd.choice([0, 0, 500, 0.5])
        v = rnd.choice([lo, df, hi, rnd.uniform(lo - 50, hi + 50), (lo + df) / 2, (df + hi) / 2])
        try:
            normalizeValue(v, (lo, df, hi), extrapolate=rnd.random() < 0.2 and lo < df < hi)
        except ZeroDivisionError:
            pass
        ks = sorted({rnd.choice([-1, -0.5, 0, 0.25, 0.5, 1]) for _k in range(rnd.randrange(0, 5))})
        acc, mp = -1.0, {}
        for k in ks:
            acc = acc + rnd.choice([0.1, 0.5, 0.25])
            mp[k] = round(acc, 4)
        piecewiseLinearMap(rnd.choice(ks + [rnd.uniform(-1.5, 1.5)]) if ks else 0.3, mp)
    normalizeLocation({"wght": 650, "wdth": 80}, {"wght": (100, 400, 900), "wdth": (75, 100, 125), "opsz": (8, 12, 144)})


def _wrap(name):
    inner = globals()["_drv_" + name]

    def drv(case, rnd, ctx):
        # any exception escaping the library on these valid inputs is a violation
        with ctx.lib(name):
            inner(case, rnd, ctx)
    return drv


for _n in ["models1", "models2", "modelsN", "stores", "stores_big", "multistore", "iup", "iup_corpus", "stores_corpus", "norm"]:
    globals()["drv_" + _n] = _wrap(_n)


def drv_suite(case, rnd, ctx):
    """The repository's own tests as a workload for the monitors (outcomes not judged)."""
    from vmon import suite
    passed, failed, tail = suite.run_pytest([case["path"]], ctx)
    ctx.sample = {"suite": case["path"], "tests_passed": passed, "tests_failed": failed}
    if not passed:
        ctx.inconclusive("suite workload ran no passing test: " + tail[-300:])
