"""C01 — recompiling any readable font is lossless and reaches a byte fixed point;
untouched / undecodable tables pass through byte for byte.

Monitors sit on TTFont.getTableData (which path each tag takes: compiled vs raw
pass-through; pass-through bytes are compared at once with an independent parse of
the source file), TTFont._readTable (decoder class, DefaultTable fallback) and
SFNTWriter/WOFF2Writer.__setitem__ (bytes handed to the container writer).  The driver
loads every inventory font under lazy x touch-pattern x recalcBBoxes (x flavour, x
injected/garbage/transplanted tables in the thorough tier), saves, and judges

 (a) content: canonical XML dump of every table decoded from the *original* bytes vs
     from the *saved* bytes (each side: a fresh TTFont fed by a spec-written directory
     parser, not by ttLib.sfnt), modulo the short derived-field mask below; plus a
     HarfBuzz differential (outlines, advances, cmap) before/after;
 (b) second generation (load the same way, save) byte-identical to the first;
 (c) every tag that took the pass-through path is byte-identical in the saved file;
 (d) no step raises.
"""
import hashlib
import io
import random
import re
import zlib

from vmon import corpus, hooks, probes
from vmon.case import LibRaised, exc_mech
from vmon.oracle import c01_sfntdir as sd
from vmon.oracle.c03_strings import NotComparable as cs_NotComparable

PROPERTY = "C01"
LEVEL = "exploration"
RULE = ("one configuration = (corpus font or TTC member or derived font [re-flavoured / injected unknown tag / "
        "garbage-replaced table / transplant / generated GPOS pair lookups / generated composite glyphs / foreign-writer "
        "encoding of cmap, glyf+loca, hmtx, name or post / boundary-sized CFF INDEX, index map or clashing cmap], lazy mode, touch pattern all|subset|none, recalcBBoxes); it is "
        "non-trivial when the getTableData monitor saw at least one table take the path the pattern is about "
        "(compiled for all/subset, pass-through for none/subset) and every oracle stage (a)-(c) reached a verdict; "
        "distinct by that tuple")
ASSUMPTIONS = [
    "content equality (a) is equality of the library's own XML dump applied symmetrically to original and saved table bytes (faithfulness of the dump is C03's property), cross-checked by spec-written readers for name / hmtx / vmtx and by a HarfBuzz before/after differential for outlines, advances and cmap",
    "derived fields the library documents as recomputed on compile are masked in (a) only: head.checkSumAdjustment, OS/2 usFirstCharIndex/usLastCharIndex, post extraNames that are standard Macintosh names; with recalcBBoxes=True also head/glyph bboxes, head.flags bit 1 (set by maxp.recalc from 'every xMin equals its lsb'), hhea/vhea extents, maxp maxima, CFF FontBBox; their correctness is C04's job",
    "fields that only describe the chosen encoding are masked in (a) as well: head.indexToLocFormat, hhea.numberOfHMetrics / vhea.numberOfVMetrics, and the length= / nGroups= attributes of cmap subtables; the meaning they encode is judged by the spec-level readers (cmap mapping per subtable, expanded hmtx/vmtx metrics, post glyph names, name records, composite components) and by HarfBuzz / FreeType",
    "foreign-writer inputs (vmon/gen/c01_foreign.py, assembled by the spec-level sfnt writer in oracle/c01_sfntdir.py, no fontTools involved): cmap format 4 with glyphIdArray segments carrying a non-zero idDelta, 0 entries and shared glyphIdArray ranges, format 12 in odd group splits, one subtable referenced by two encoding records; glyf slots with padding and the other loca format; hmtx untrimmed / maximally trimmed / with trailing bytes; name records over shared and overlapping string storage, with a gap between the records and the storage (a minority as format 1 with 1-3 langTag records and records with langID >= 0x8000: the library drops those records - known finding C01-name-format1-langtags-dropped, reported under its own mechanism only when the format field goes 1 -> 0 and the langTag records vanish while all name records are intact); GPOS SinglePos format 2 / PairPos format 1 whose Coverage format 2 ranges carry non-monotonic StartCoverageIndex, and SinglePos format 1 with hinting Device tables of DeltaFormat 1/2/3 whose delta count is not a multiple of the word capacity and whose trailing partial word / leading word is all zero (judged by a spec-level reader of positioning values and Device deltas); post format 2 with custom names stored out of glyph order plus an unused name. A foreign cmap/post input is used only if the spec-level reader, HarfBuzz and FreeType agree on its meaning (else the case is inconclusive)",
    "boundary-sized inputs (vmon/gen/c01_boundary.py, struct-level edits assembled by the spec-level sfnt writer): CFF local Subrs INDEX padded with one never-called subroutine to exactly 254..257 / 65534..65537 bytes of object data (only where that INDEX is the table's last structure), HVAR advance-width maps over an ItemVariationData with 100/256/257/300/1000 rows, and a cmap whose four Unicode subtables disagree on some code points together with post 3.0 (glyph names synthesised from the cmap clash 3-4 ways); judged by the spec-level INDEX reader (well-formed, same item counts), the spec-level DeltaSetIndexMap reader (expanded to numGlyphs) and HarfBuzz outlines / advances at non-default locations",
    "HarfBuzz translates a top-level glyf outline by (lsb - header xMin): with recalcBBoxes=True a glyph whose header xMin changed (struct-level read) may differ by exactly that uniform horizontal translation and nothing else",
    "generated inputs (spec-written, vmon/gen/c01_gpos.py and c01_glyf.py): a GPOS with PairPos format 1/2 record arrays above the lazy-array threshold under different ValueFormats, and composite glyphs carrying every preservable component flag and transform form written into the binary glyf by struct-level surgery (non-variable glyf hosts; composites reference only glyphs that stay simple)",
    "raw table bytes of sfnt/TTC files come from a spec-written directory parser (vmon/oracle/c01_sfntdir.py); WOFF/WOFF2 containers are read through the library's reader (the container is C04's property)",
    "WOFF2 output: glyf/loca are normalised by the WOFF2 transform, so for that flavour they are judged by content (a), not by byte identity (c)",
    "transplanted / garbage-table fonts are judged only if the library loads them completely (file the loader accepts); recalcTimestamp=False always",
]
REQUIRED_MONITORS = ["TTFont.getTableData", "TTFont._readTable", "SFNTWriter.__setitem__"]
REQUIRED_SITES = ["getTableData:compiled", "getTableData:passthrough"]
CASE_TIMEOUT = 900
MANIFEST = {
    "text": "Exploration over the whole vendored corpus: every binary font, TTC member and compilable TTX font (438) is loaded under lazy in {None, True, False} x {all tables touched, random subset, none} x recalcBBoxes, saved, and the saved file is judged table by table: content equality of original vs recompiled bytes (canonical dump applied symmetrically, reader-independent; HarfBuzz before/after differential), byte equality of a second load-save generation, and byte identity of every table that the getTableData monitor saw take the pass-through path. Thorough adds every container flavour, injected unknown tags, garbage-replaced tables under ignoreDecompileErrors, and table transplants between fonts. The suite always puts an XML hop in between and never checks second-generation stability.",
    "note": "Trusted base: vmon/oracle/c01_sfntdir.py (struct-level sfnt/TTC directory parser), HarfBuzz 12.1 as before/after differential, Python. The library's XML dump is used only symmetrically on two byte strings. Derived-field mask is the explicit list in c01.py (_MASKS).",
    "technique": "monitors on TTFont.getTableData/_readTable and SFNTWriter.__setitem__ recording the path each table takes; corpus x configuration sweep; symmetric canonical-dump comparison; byte fixed point; HarfBuzz differential",
    "design_ref": "DESIGN.md §4 C01",
}
EXHAUSTIVE = {"quick": False, "thorough": False}

LAZIES = [None, True, False]
TOUCHES = ["all", "subset", "none"]

# ------------------------------------------------------------------ monitors
_reg = {}          # id(TTFont) -> state of a font the current case registered
_last = {}         # last getTableData result: {"st", "tag", "data"}


def _sha(b):
    return hashlib.sha256(b).hexdigest()[:16]


def _headmask(tag, data):
    """head.checkSumAdjustment is written by the container writer (bytes 8..12)."""
    if tag == "head" and len(data) >= 12:
        return data[:8] + b"\0\0\0\0" + data[12:]
    return data


def setup():
    from fontTools.ttLib import ttFont as TF, sfnt as SF, woff2 as W2

    def pre_gtd(a, kw):
        font, tag = a[0], a[1]
        st = _reg.get(id(font))
        if st is None or st["font"] is not font:
            return None
        return (st, str(tag), font.isLoaded(tag))

    def post_gtd(state, a, kw, res, exc):
        if state is None:
            return
        st, tag, loaded = state
        if exc is not None:
            st["failed"] = st["failed"] or (tag, "compile" if loaded else "read")
            return
        path = "compiled" if loaded else "passthrough"
        st["paths"][tag] = path
        st["gtd"][tag] = bytes(res)
        _last.update(st=st, tag=tag, data=res)
        if not loaded:
            want = st["orig"].get(tag)
            st["pt_checked"] += 1
            if want is None or bytes(res) != want:
                hooks.report({"kind": "passthrough", "table": tag, "where": "getTableData"},
                             "%s: table %r was never loaded but getTableData returned bytes that differ from the source file's"
                             % (st["label"], tag),
                             {"want_sha": _sha(want or b""), "got_sha": _sha(bytes(res)), "want_len": len(want or b""),
                              "got_len": len(res), "first_diff": _first_diff(want or b"", bytes(res))})

    def post_read(state, a, kw, res, exc):
        font, tag = a[0], str(a[1])
        st = _reg.get(id(font))
        if st is None or st["font"] is not font:
            return
        if exc is not None:
            st["failed"] = st["failed"] or (tag, "decompile")
            return
        st["read"][tag] = type(res).__name__ + ("!ERROR" if hasattr(res, "ERROR") else "")

    def post_setitem(state, a, kw, res, exc):
        tag, data = str(a[1]), a[2]
        if exc is not None or not _last or _last.get("tag") != tag:
            return
        st = _last["st"]
        st["written"][tag] = bytes(data)
        if bytes(data) != bytes(_last["data"]):
            hooks.report({"kind": "writer-input", "table": tag},
                         "%s: bytes handed to the container writer for %r differ from getTableData's" % (st["label"], tag), None)
        _last.clear()

    hooks.attach(TF.TTFont, "getTableData", pre=pre_gtd, post=post_gtd, name="TTFont.getTableData")
    hooks.attach(TF.TTFont, "_readTable", post=post_read, name="TTFont._readTable")
    hooks.attach(SF.SFNTWriter, "__setitem__", post=post_setitem, name="SFNTWriter.__setitem__")
    hooks.attach(W2.WOFF2Writer, "__setitem__", post=post_setitem, name="WOFF2Writer.__setitem__")
    probes.add_site("getTableData:compiled", TF.TTFont.getTableData, r"\.compile\(self\)")
    probes.add_site("getTableData:passthrough", TF.TTFont.getTableData, r"return self\.reader\[tag\]")
    probes.add_site("_readTable:DefaultTable-fallback", TF.TTFont._readTable, r"table = DefaultTable\(tag\)")


def _first_diff(a, b):
    n = min(len(a), len(b))
    for i in range(n):
        if a[i] != b[i]:
            return i
    return n if len(a) != len(b) else None


def _register(font, label, orig, lazy):
    st = {"font": font, "label": label, "orig": orig, "lazy": lazy, "paths": {}, "gtd": {}, "read": {},
          "written": {}, "failed": None, "pt_checked": 0}
    _reg[id(font)] = st
    return st


# ------------------------------------------------------------------ raw tables / dumps
class _DictReader(dict):
    """Stand-in for SFNTReader fed with independently parsed table bytes."""
    file = None
    flavor = None
    flavorData = None

    def close(self):
        pass


def raw_tables(data, member=None):
    """-> (sfntVersion str, {tag: bytes}, kind).  sfnt/TTC: spec-written parser;
    WOFF/WOFF2: the library's reader (container is not this property)."""
    k = sd.kind(data)
    if k in ("sfnt", "ttc"):
        ver, ents = sd.directory(data, member or 0)
        return ver.decode("latin-1"), sd.tables(data, member or 0), k
    from fontTools.ttLib import TTFont

    f = TTFont(io.BytesIO(data), lazy=True, recalcTimestamp=False)
    return f.sfntVersion, {str(t): bytes(f.reader[t]) for t in f.reader.keys()}, k


def fresh_font(ver, tables, ide=False):
    from fontTools.ttLib import TTFont

    f = TTFont(sfntVersion=ver, recalcTimestamp=False, recalcBBoxes=False, ignoreDecompileErrors=ide)
    f.reader = _DictReader(tables)
    f._tableCache = None
    f.disassembleInstructions = True
    f.bitmapGlyphDataFormat = "raw"
    return f


def dump_tables(ver, tables, ide=False):
    """{tag: xml text | Exception} using one fresh TTFont over the given raw bytes."""
    from fontTools.misc.xmlWriter import XMLWriter

    f = fresh_font(ver, tables, ide)
    out = {}
    for tag in tables:
        buf = io.StringIO()
        w = XMLWriter(buf)
        try:
            with hooks.quiet():
                f._tableToXML(w, tag)
            out[tag] = buf.getvalue()
        except Exception as e:  # judged by the caller
            out[tag] = e
    return out


# ------------------------------------------------------------------ derived-field mask
def _drop(*names):
    rx = re.compile(r"^\s*<(%s) [^>]*/>\s*$" % "|".join(names))
    return lambda lines: [l for l in lines if not rx.match(l)]


def _head_rb(lines):
    """recalcBBoxes=True: head bbox, and head.flags bit 1 ('left sidebearing point at x=0'), which
    maxp.recalc sets from 'every glyph's xMin equals its lsb'."""
    out = []
    rx = re.compile(r'^(\s*<flags value=")([01 ]+)("/>\s*)$')
    for l in _drop("xMin", "yMin", "xMax", "yMax")(lines):
        m = rx.match(l)
        if m:
            bits = m.group(2).replace(" ", "")
            if len(bits) == 16:
                bits = bits[:14] + "x" + bits[15]
                l = m.group(1) + bits + m.group(3)
        out.append(l)
    return out


def _glyf_bbox(lines):
    rx = re.compile(r'(<TTGlyph name="[^"]*")( xMin="-?\d+" yMin="-?\d+" xMax="-?\d+" yMax="-?\d+")')
    return [rx.sub(r"\1", l) if "<TTGlyph " in l else l for l in lines]


def _cmap_hdr(lines):
    """length= / nGroups= on a <cmap_format_N> element describe the encoding (segment and group
    layout the compiler chooses), not the mapping."""
    rx = re.compile(r' (length|nGroups)="\d+"')
    return [rx.sub("", l) if "<cmap_format_" in l else l for l in lines]


_MASKS = {   # tag -> (always, only with recalcBBoxes=True)
    "cmap": (_cmap_hdr, None),
    "head": (_drop("checkSumAdjustment", "indexToLocFormat"), _head_rb),
    "OS/2": (_drop("usFirstCharIndex", "usLastCharIndex"), None),
    "hhea": (_drop("numberOfHMetrics"), _drop("advanceWidthMax", "minLeftSideBearing", "minRightSideBearing", "xMaxExtent")),
    "vhea": (_drop("numberOfVMetrics"), _drop("advanceHeightMax", "minTopSideBearing", "minBottomSideBearing", "yMaxExtent")),
    "maxp": (None, _drop("maxPoints", "maxContours", "maxCompositePoints", "maxCompositeContours",
                         "maxComponentElements", "maxComponentDepth")),
    "glyf": (None, _glyf_bbox),
    "CFF ": (None, _drop("FontBBox")),
}


def _post_extra(lines, std):
    """Drop <psName name=X/> inside <extraNames> when X is a standard Macintosh glyph name
    (the compiler never stores those as extra names)."""
    out, inside = [], False
    rx = re.compile(r'^\s*<psName name="([^"]*)"/>\s*$')
    for l in lines:
        if "<extraNames>" in l:
            inside = True
        elif "</extraNames>" in l:
            inside = False
        elif inside:
            m = rx.match(l)
            if m and m.group(1) in std:
                continue
        out.append(l)
    return out


def masked(tag, xml, rb):
    lines = xml.split("\n")
    m = _MASKS.get(tag)
    if m:
        if m[0]:
            lines = m[0](lines)
        if rb and m[1]:
            lines = m[1](lines)
    if tag == "post":
        from fontTools.ttLib.standardGlyphOrder import standardGlyphOrder

        lines = _post_extra(lines, set(standardGlyphOrder))
    return lines


def _field_of(line):
    m = re.search(r"<([A-Za-z_][\w.\-]*)", line or "")
    return m.group(1) if m else "text"


# ------------------------------------------------------------------ cases
def _h(s):
    return zlib.crc32(s.encode())


GLYPH_FREE = ["name", "OS/2", "gasp", "meta", "STAT", "DSIG", "FFTM", "cvt ", "fpgm", "prep", "CUST", "TSIV", "ltag"]
SAME_COUNT = ["GSUB", "GPOS", "GDEF", "BASE"]
GARBAGE_OK = ["GSUB", "GPOS", "GDEF", "OS/2", "gasp", "STAT", "BASE", "MATH", "meta", "DSIG", "COLR",
              "CPAL", "avar", "HVAR", "MVAR", "kern", "VORG"]


def _fid(rec):
    return rec["path"] + ("#%d" % rec["member"] if rec["member"] is not None else "")


def cases(tier, seed):
    T = tier == "thorough"
    recs = corpus.fonts()
    cs = []
    for rec in recs:
        r = (_h(rec["path"]) + seed) % 3
        base = {"path": rec["path"], "member": rec["member"], "seed": seed}
        if not T:
            cfg = [[i, (i + r) % 3, False] for i in range(3)] + [[(r + 1) % 3, 0, True]]
            cs.append(dict(base, id="font:" + _fid(rec), group="sfnt", configs=cfg))
        else:
            cfg = [[i, j, False] for i in range(3) for j in range(3)] + [[i, 0, True] for i in range(3)] \
                + [[r, 1, True], [(r + 1) % 3, 2, True]]
            cs.append(dict(base, id="font:" + _fid(rec), group="sfnt", configs=cfg))
            for fl in ("woff", "woff2", "plain"):
                if fl == "plain" and not rec["flavor"]:
                    continue
                if fl == rec["flavor"]:
                    continue
                if fl == "woff2" and not rec["head"]:
                    continue      # WOFF2 requires a head table (documented TTLibError)
                cfg = [[i, j, False] for i in range(3) for j in range(3)] + [[r, 0, True]]
                cs.append(dict(base, id="%s:%s" % (fl, _fid(rec)), group=fl, configs=cfg))
    # derived fonts: injected unknown tag, garbage-replaced known tag, transplants
    rnd = random.Random("c01-cases/%s/%s" % (tier, seed))
    pool = [rec for rec in recs if rec["flavor"] is None and rec["member"] is None]
    n_inj = len(pool) if T else 48
    for rec in (pool if T else rnd.sample(pool, n_inj)):
        r = (_h(rec["path"]) + seed) % 3
        cs.append({"id": "zzzz:" + _fid(rec), "group": "inject", "path": rec["path"], "member": None, "seed": seed,
                   "configs": [[r, 0, False], [(r + 1) % 3, 2, False], [(r + 2) % 3, 1, True]]})
    cand = [rec for rec in pool if any(t in rec["tables"] for t in GARBAGE_OK)]
    for rec in (cand if T else rnd.sample(cand, 48)):
        r = (_h(rec["path"]) + seed) % 3
        tag = rnd.choice([t for t in GARBAGE_OK if t in rec["tables"]])
        cs.append({"id": "garbage:%s:%s" % (tag.strip(), _fid(rec)), "group": "garbage", "tag": tag, "path": rec["path"],
                   "member": None, "seed": seed, "configs": [[r, 0, False], [(r + 1) % 3, 0, False]]})
    seen = set()
    n_tp = 260 if T else 48
    tries = 0
    while len(seen) < n_tp and tries < 20000:
        tries += 1
        host = rnd.choice(pool)
        if rnd.random() < 0.6:
            donor = rnd.choice(pool)
            tags = [t for t in GLYPH_FREE if t in donor["tables"]]
        else:
            donor = rnd.choice(pool)
            if donor["numGlyphs"] != host["numGlyphs"]:
                continue
            tags = [t for t in SAME_COUNT if t in donor["tables"]]
        if not tags or donor["path"] == host["path"]:
            continue
        tag = rnd.choice(tags)
        key = (host["path"], donor["path"], tag)
        if key in seen:
            continue
        seen.add(key)
        r = rnd.randrange(3)
        cs.append({"id": "transplant:%s:%s<-%s" % (tag.strip(), host["path"], donor["path"]), "group": "transplant",
                   "tag": tag, "path": host["path"], "donor": donor["path"], "member": None, "seed": seed,
                   "configs": [[r, 0, False], [(r + 1) % 3, 1, False]] + ([[(r + 2) % 3, 0, True]] if T else [])})
    # generated GPOS: pair-adjustment record arrays above the lazy-array threshold with different
    # ValueFormats inside one table (lazy=True reads them record by record)
    big = [rec for rec in pool if rec["complete"] and rec["numGlyphs"] >= 16]
    for rec in rnd.sample(big, min(len(big), 60 if T else 10)):
        cs.append({"id": "gpos:" + _fid(rec), "group": "gpos", "path": rec["path"], "member": None, "seed": seed,
                   "configs": [[1, 0, False], [0, 0, False], [2, 0, False], [1, 0, True]] + ([[1, 1, False], [1, 2, False]] if T else [])})
    # foreign-writer encodings: spec-legal encodings fontTools never emits, written by spec-level
    # writers and spliced in at the sfnt level (vmon/gen/c01_foreign.py)
    plain = [rec for rec in pool if rec["complete"] and rec["numGlyphs"] >= 3]
    ttplain = [rec for rec in plain if rec["outlines"] == "glyf"]
    for kind, hosts, nq, nt in (("cmap", plain, 14, 70), ("name", plain, 8, 30), ("hmtx", plain, 8, 40),
                                ("gpos", [r for r in plain if r["numGlyphs"] >= 16], 10, 40),
                                ("glyfpad", [r for r in ttplain if "VARC" not in r["tables"]], 6, 30),
                                ("post", ttplain, 6, 30)):
        for rec in rnd.sample(hosts, min(len(hosts), nt if T else nq)):
            r = rnd.randrange(3)
            cfg = [[0, 0, False], [1, 0, False], [2, 0, False], [r, 1, False], [(r + 1) % 3, 0, True]]
            if T:
                cfg += [[(r + 2) % 3, 2, False], [r, 1, True]]
            cs.append({"id": "foreign:%s:%s" % (kind, _fid(rec)), "group": "foreign", "kind": kind, "path": rec["path"],
                       "member": None, "seed": seed, "configs": cfg})
    # boundary-sized structures (vmon/gen/c01_boundary.py): CFF Subrs INDEX data sizes around 255 and
    # 65535, delta-set index maps over VarData with 100..1000 rows, cmap subtables that disagree so
    # that cmap-synthesised glyph names clash 3-4 ways
    cff = [rec for rec in plain if rec["outlines"] == "CFF "]
    # corpus CFF fonts whose local Subrs INDEX holds fewer than 253 bytes (a corpus fact, like the
    # inventory; a listed font that no longer qualifies is skipped at run time)
    few = {"subset/data/Lobster.subset.otf", "subset/data/Lobster.subset.ttx", "cffLib/data/CFFToCFF2-1.otf",
           "ttx/data/TestOTF.otf", "ttx/data/TestOTF.ttx", "cffLib/data/TestOTF.ttx", "subset/data/TestOTF-Regular.ttx",
           "subset/data/test_math_partial.ttx", "subset/data/test_cntrmask_CFF.ttx", "subset/data/test_hinted_subrs_CFF.ttx"}
    small = sorted([rec for rec in recs if rec["path"] in few and rec["outlines"] == "CFF " and rec["member"] is None],
                   key=lambda r: r["path"])
    var = [rec for rec in plain if rec["variable"]]
    bcfg = [[0, 0, False], [1, 0, False], [2, 0, False], [0, 0, True]] + ([[1, 0, True], [2, 1, False]] if T else [])
    for rec in rnd.sample(small, min(len(small), 10 if T else 3)):
        for target in (254, 255, 256, 257):
            cs.append({"id": "boundary:cffindex%d:%s" % (target, _fid(rec)), "group": "boundary", "kind": "cffindex",
                       "target": target, "path": rec["path"], "member": None, "seed": seed, "configs": bcfg})
    for rec in rnd.sample(cff, min(len(cff), 8 if T else 2)):
        for target in (65534, 65535, 65536, 65537):
            cs.append({"id": "boundary:cffindex%d:%s" % (target, _fid(rec)), "group": "boundary", "kind": "cffindex",
                       "target": target, "path": rec["path"], "member": None, "seed": seed, "configs": bcfg})
    hv_hosts = []
    for rec in rnd.sample(var, min(len(var), 15 if T else 5)) + rnd.sample(plain, 6 if T else 1):
        if rec["path"] not in [h["path"] for h in hv_hosts]:
            hv_hosts.append(rec)
    for rec in hv_hosts:
        for rows in ((100, 256, 257, 300, 1000) if T else (rnd.choice([100, 256]), 257, rnd.choice([300, 1000]))):
            cs.append({"id": "boundary:hvar%d:%s" % (rows, _fid(rec)), "group": "boundary", "kind": "hvar", "rows": rows,
                       "path": rec["path"], "member": None, "seed": seed, "configs": bcfg})
    tt8 = [rec for rec in ttplain if rec["numGlyphs"] >= 8 and "VARC" not in rec["tables"]]
    for rec in rnd.sample(tt8, min(len(tt8), 24 if T else 6)):
        cs.append({"id": "boundary:cmapclash:%s" % _fid(rec), "group": "boundary", "kind": "cmapclash", "path": rec["path"],
                   "member": None, "seed": seed, "configs": bcfg})
    # composite glyphs carrying every preservable component flag and every transform form, written
    # into the binary glyf table by struct-level surgery
    tt = [rec for rec in pool if rec["complete"] and rec["outlines"] == "glyf" and not rec["variable"]
          and rec["numGlyphs"] >= 4 and "VARC" not in rec["tables"]]
    for rec in (tt if T else rnd.sample(tt, min(len(tt), 12))):
        cs.append({"id": "compflags:" + _fid(rec), "group": "compflags", "path": rec["path"], "member": None, "seed": seed,
                   "configs": [[2, 0, False], [0, 0, True], [1, 0, False], [0, 0, False]] + ([[2, 0, True], [1, 0, True], [2, 1, False]] if T else [])})
    return cs


# ------------------------------------------------------------------ driver
class _Abort(Exception):
    pass


def _precondition_failure(e, env):
    """Exceptions that mean 'the input is outside the property's domain' (exact, narrow):
    * no 'maxp' in the file: the glyph order cannot be derived from the binary at all
      (table-fragment TTX files of the corpus compiled on their own);
    * the library's own rejection of a CFF2 charstring that carries a width operand
      (varLib/data/master_cff2_input/*.ttx are such inputs), reached through
      head.compile -> calcBounds when recalcBBoxes=True."""
    if isinstance(e, KeyError) and e.args and e.args[0] == "maxp" and env is not None and "maxp" not in env["orig"]:
        return "no maxp table: glyph order underivable"
    if isinstance(e, AssertionError) and "CFF2 CharStrings must not have an initial width value" in str(e):
        return "invalid CFF2 charstring (width operand) rejected by the library"
    return None


def _viol_exc(ctx, op, e, st=None, env=None, **extra):
    why = _precondition_failure(e, env)
    if why:
        ctx.skip(why)
        return
    table = None
    if st is not None and st.get("failed"):
        table, op2 = st["failed"]
        op = op2 if op2 != "read" else op
    info = {k: extra.pop(k) for k in ("lazy", "generation", "config") if k in extra}
    mech = exc_mech(op, e, **extra)
    if table is not None:
        mech["table"] = table
    import traceback

    ctx.violation(mech, "%s raised %s: %s" % (op, type(e).__name__, str(e)[:200]),
                  dict(info, traceback=traceback.format_exception(type(e), e, e.__traceback__)[-10:]))


def _std_names():
    from fontTools.ttLib.standardGlyphOrder import standardGlyphOrder      # a data table (258 names)

    return list(standardGlyphOrder)


def _foreign_source(case, ctx, src, rnd):
    """Host font with one table (group) re-encoded by a spec-level foreign writer, assembled by the
    spec-level sfnt writer - fontTools is not involved in producing this input."""
    import struct
    from vmon.gen import c01_foreign as FW

    ver, ents = sd.directory(src)
    tabs = sd.tables(src)
    kind = case["kind"]
    try:
        if kind == "cmap":
            n = struct.unpack(">H", tabs["maxp"][4:6])[0]
            base = {}
            try:
                subs = FW.read_cmap(tabs["cmap"])
                for key in sorted(subs, key=lambda k: (k[2] != 12, k[0] != 3)):
                    if subs[key]:
                        base = dict(subs[key])
                        break
            except Exception:
                base = {}
            data, desc = FW.cmap_foreign(rnd, base, n)
            new = {"cmap": data} if data else None
        elif kind == "name":
            data, desc = FW.name_foreign(rnd, tabs["name"])
            new = {"name": data} if data else None
        elif kind == "gpos":
            from vmon.gen import c01_gpos

            data, d = c01_gpos.build_foreign(rnd, struct.unpack(">H", tabs["maxp"][4:6])[0])
            c01_gpos.gpos_meaning(data)             # the writer's output must be readable by the spec-level reader
            new, desc = {"GPOS": data}, "GPOS: " + ", ".join(d)
        elif kind == "hmtx":
            new, desc = FW.hmtx_foreign(rnd, tabs)
        elif kind == "glyfpad":
            new, desc = FW.glyf_padded(rnd, tabs)
        else:
            new, desc = FW.post_foreign(rnd, tabs, _std_names())
    except (KeyError, struct.error, IndexError) as e:
        new, desc = None, "host lacks what the writer needs (%s)" % type(e).__name__
    if not new:
        ctx.skip("foreign writer not applicable: %s" % desc)
        raise LibRaised()
    tabs.update(new)
    ctx.note("foreign-encoding:" + kind)
    case["_desc"] = desc
    return sd.build(ver, tabs)


def _boundary_source(case, ctx, src, rnd):
    import struct
    from vmon.gen import c01_boundary as BD

    ver, _e = sd.directory(src)
    tabs = sd.tables(src)
    kind = case["kind"]
    try:
        n = struct.unpack(">H", tabs["maxp"][4:6])[0]
        if kind == "cffindex":
            tabs["CFF "], had = BD.cff_pad_subrs(tabs["CFF "], case["target"])
            desc = "local Subrs INDEX padded from %d to %d bytes of data" % (had, case["target"])
            BD.cff_indexes(tabs["CFF "])           # the edited input itself must be well-formed
        elif kind == "hvar":
            axes = struct.unpack(">H", tabs["fvar"][8:10])[0] if "fvar" in tabs else 1
            tabs["HVAR"], desc = BD.hvar_big(rnd, n, axes, case["rows"])
        else:
            tabs["cmap"], desc = BD.cmap_clash(rnd, n)
            tabs["post"] = BD.post3(tabs["post"])
    except (BD.NotApplicable, cs_NotComparable, KeyError, struct.error, IndexError) as e:
        ctx.skip("boundary input not applicable (%s): %s" % (kind, str(e)[:60] or type(e).__name__))
        raise LibRaised()
    ctx.note("boundary-structure:" + kind)
    case["_desc"] = desc
    return sd.build(ver, tabs)


def _source(case, ctx):
    """bytes of the input file F of this case (+ TTC member index)."""
    from fontTools.ttLib import TTFont
    from fontTools.ttLib.tables.DefaultTable import DefaultTable

    rel, member = case["path"], case["member"]
    g = case["group"]
    if member is not None:
        with open(corpus.abspath(rel), "rb") as fh:
            src = fh.read()
        if g == "sfnt":
            return src, member
    else:
        src = corpus.font_bytes(rel)
        if g == "sfnt":
            return src, None
    rnd = random.Random("%s/%s/src" % (case["id"], case["seed"]))
    if g == "foreign":
        return _foreign_source(case, ctx, src, rnd), None
    if g == "boundary":
        return _boundary_source(case, ctx, src, rnd), None
    f = TTFont(io.BytesIO(src), lazy=True, recalcTimestamp=False, recalcBBoxes=False,
               fontNumber=member if member is not None else -1)
    if g in ("woff", "woff2", "plain"):
        f.flavor = None if g == "plain" else g
    elif g == "inject":
        t = DefaultTable("zzzz")
        t.data = bytes(rnd.randrange(256) for _ in range(rnd.choice([1, 2, 3, 4, 5, 7, 64, 1001])))
        f["zzzz"] = t
    elif g == "garbage":
        t = DefaultTable(case["tag"])
        t.data = bytes(rnd.randrange(256) for _ in range(rnd.choice([1, 3, 5, 9, 37])))
        f[case["tag"]] = t
    elif g == "transplant":
        dver, dtabs, _k = raw_tables(corpus.font_bytes(case["donor"]))
        t = DefaultTable(case["tag"])
        t.data = dtabs[case["tag"]]
        f[case["tag"]] = t
    elif g == "gpos":
        from vmon.gen import c01_gpos

        _v, tabs, _k = raw_tables(src)
        import struct as _s

        t = DefaultTable("GPOS")
        t.data, desc = c01_gpos.build(rnd, _s.unpack(">H", tabs["maxp"][4:6])[0])
        f["GPOS"] = t
        ctx.note("generated-gpos")
    elif g == "compflags":
        from vmon.gen import c01_glyf as GL

        _v, tabs, _k = raw_tables(src)
        try:
            glyphs, fmt = GL.split(tabs)
        except (GL.Bad, KeyError, Exception):
            ctx.skip("compflags: glyf/loca of the host cannot be taken apart")
            raise LibRaised()
        simple = [i for i, gl in enumerate(glyphs) if len(gl) >= 10 and GL.ncontours(gl) > 0]
        if not simple:
            ctx.skip("compflags: host has no simple glyph to reference")
            raise LibRaised()
        targets = [i for i in range(1, len(glyphs)) if i not in simple[:1]]
        chosen = rnd.sample(targets, min(len(targets), rnd.choice([1, 2, 3])))
        refs = [j for j in simple if j not in chosen]      # only glyphs that stay simple: no cycles
        if not refs:
            ctx.skip("compflags: host has no simple glyph left to reference")
            raise LibRaised()
        for i in chosen:
            glyphs[i] = GL.make_composite(rnd, refs)
        joined = GL.join(glyphs, fmt)
        if joined is None:
            ctx.skip("compflags: short loca format overflows")
            raise LibRaised()
        for tag, data in (("glyf", joined[0]), ("loca", joined[1])):
            t = DefaultTable(tag)
            t.data = data
            f[tag] = t
        ctx.note("generated-composites")
    from fontTools.ttLib import TTLibError

    try:
        with hooks.quiet():
            out = corpus.save_bytes(f)
    except TTLibError as e:
        ctx.skip("derived font rejected by the library (%s): %s" % (g, str(e)[:60]))
        raise LibRaised()
    except Exception as e:
        _viol_exc(ctx, "save", e, None, deriving=g)
        raise LibRaised()
    return out, None


def run_case(case, ctx):
    rnd = random.Random("%s/%s" % (case["id"], case["seed"]))
    src, member = _source(case, ctx)
    try:
        ver, orig, kind = raw_tables(src, member)
    except Exception as e:
        _viol_exc(ctx, "open", e)
        return
    env = {"src": src, "member": member, "ver": ver, "orig": orig, "kind": kind, "dump": None, "case": case,
           "ide": case["group"] == "garbage"}
    if case["group"] == "foreign" and not _foreign_input_ok(ctx, env):
        return
    if case["group"] in ("transplant", "garbage"):
        # precondition: a file the loader accepts completely
        if not _loads_completely(env, ctx):
            return
    done = []
    for li, ti, rb in case["configs"]:
        lazy, touch = LAZIES[li], TOUCHES[ti]
        try:
            info = _roundtrip(ctx, env, lazy, touch, bool(rb), rnd)
            done.append(info)
        except _Abort:
            ctx.note("config-abandoned")
        finally:
            _reg.clear()
            _last.clear()
    if done:
        ctx.sample = {"case": case["id"], "group": case["group"], "tables": sorted(orig), "configs": done[:3]}


def _loads_completely(env, ctx):
    from fontTools.ttLib import TTFont

    try:
        with hooks.quiet():
            f = TTFont(io.BytesIO(env["src"]), lazy=False, recalcTimestamp=False, ignoreDecompileErrors=env["ide"])
            for t in f.keys():
                f[t]
            if env["ide"]:
                tag = env["case"]["tag"]
                if not hasattr(f[tag], "ERROR"):
                    ctx.skip("garbage bytes decoded without error")
                    return False
            else:
                dump = dump_tables(env["ver"], env["orig"])
                if any(isinstance(v, Exception) for v in dump.values()):
                    ctx.skip("transplant does not dump")
                    return False
                env["dump"] = dump
    except Exception:
        ctx.skip("derived font does not load completely (%s)" % env["case"]["group"])
        return False
    return True


def _orig_dump(env):
    if env["dump"] is None:
        env["dump"] = dump_tables(env["ver"], env["orig"], env["ide"])
    return env["dump"]


def _load(ctx, env, data, lazy, rb, label, orig, tags_to_touch, touch, rnd):
    """Open `data` the way the case says, touch tables, return (font, state, touched)."""
    from fontTools.ttLib import TTFont

    kw = dict(lazy=lazy, recalcBBoxes=rb, recalcTimestamp=False, ignoreDecompileErrors=env["ide"])
    if env["member"] is not None and sd.kind(data) == "ttc":
        kw["fontNumber"] = env["member"]
    try:
        f = TTFont(io.BytesIO(data), **kw)
    except Exception as e:
        _viol_exc(ctx, "open", e, None, env, lazy=repr(lazy), config=label)
        raise _Abort()
    st = _register(f, label, orig, lazy)
    tags = [t for t in f.keys() if t != "GlyphOrder"]
    if tags_to_touch is None:
        if touch == "all":
            tags_to_touch = list(tags)
        elif touch == "none":
            tags_to_touch = []
        else:
            k = rnd.randrange(1, max(2, len(tags)))
            tags_to_touch = sorted(rnd.sample(tags, min(k, len(tags))))
    for t in tags_to_touch:
        try:
            f[t]
        except Exception as e:
            st["failed"] = st["failed"] or (t, "decompile")
            _viol_exc(ctx, "decompile", e, st, env, lazy=repr(lazy), config=label)
            raise _Abort()
    return f, st, tags_to_touch


def _save(ctx, env, f, st, lazy, gen):
    try:
        return corpus.save_bytes(f)
    except Exception as e:
        _viol_exc(ctx, "save", e, st, env, lazy=repr(lazy), generation=gen, config=st["label"])
        raise _Abort()


def _roundtrip(ctx, env, lazy, touch, rb, rnd):
    case = env["case"]
    label = "%s lazy=%r touch=%s recalcBBoxes=%s" % (case["id"], lazy, touch, rb)
    orig, ver = env["orig"], env["ver"]
    f, st, touched = _load(ctx, env, env["src"], lazy, rb, label, orig, None, touch, rnd)
    if env["ide"]:
        gt = f.tables.get(case["tag"])
        if gt is None or not hasattr(gt, "ERROR"):
            # lazily decoded OpenType tables defer their errors past the load: the fallback to
            # DefaultTable never happens and the garbage is outside the property's domain
            ctx.skip("garbage table not detected at load under lazy=%r (deferred decoding)" % (lazy,))
            raise _Abort()
    loaded_by_lib = sorted(t for t in f.tables if t != "GlyphOrder" and t not in touched)
    F1 = _save(ctx, env, f, st, lazy, 1)
    paths = dict(st["paths"])
    ncomp = sum(1 for p in paths.values() if p == "compiled")
    npass = len(paths) - ncomp
    ctx.note("tables-compiled", ncomp)
    ctx.note("tables-passthrough", npass)
    ctx.note("passthrough-bytes-checked-in-getTableData", st["pt_checked"])
    for t, c in st["read"].items():
        if c.startswith("DefaultTable"):
            ctx.note("decoder:DefaultTable")
        if c.endswith("!ERROR"):
            ctx.note("decoder:fallback-after-decompile-error")
    # ---- the saved file, parsed independently ---------------------------------
    try:
        ver1, new, kind1 = raw_tables(F1, None)
    except Exception as e:
        ctx.violation({"kind": "unreadable-output", "type": type(e).__name__, "flavor": env["kind"]},
                      "%s: saved file cannot be parsed: %r" % (label, e), None)
        raise _Abort()
    bad = False
    ctx.judged()
    if sorted(new) != sorted(orig):
        bad = True
        ctx.violation({"kind": "tag-set", "missing": sorted(set(orig) - set(new)), "extra": sorted(set(new) - set(orig))},
                      "%s: saved file has a different set of tables" % label, None)
    woff2_out = kind1 == "woff2"
    # ---- (c) pass-through tables byte-identical; writer wrote what getTableData returned
    for tag in sorted(orig):
        if tag not in new:
            continue
        p = paths.get(tag)
        if p == "passthrough" and not (woff2_out and tag in ("glyf", "loca")):
            ctx.judged()
            if _headmask(tag, new[tag]) != _headmask(tag, orig[tag]):
                bad = True
                ctx.violation({"kind": "passthrough", "table": tag, "where": "saved-file"},
                              "%s: table %r was never loaded but differs in the saved file" % (label, tag),
                              {"orig_len": len(orig[tag]), "new_len": len(new[tag]),
                               "first_diff": _first_diff(orig[tag], new[tag])})
        if kind1 in ("sfnt",) and tag in st["written"]:
            ctx.judged()
            if _headmask(tag, st["written"][tag]) != _headmask(tag, new[tag]):
                bad = True
                ctx.violation({"kind": "writer-output", "table": tag},
                              "%s: table %r in the saved file differs from the bytes handed to the writer" % (label, tag), None)
    # tables without a decoder (DefaultTable) must pass through even when loaded
    for tag, cls in st["read"].items():
        if cls.startswith("DefaultTable") and tag in new and tag in orig:
            ctx.judged()
            ctx.note("undecoded-table-carried")
            if new[tag] != orig[tag]:
                bad = True
                ctx.violation({"kind": "passthrough", "table": tag, "where": "DefaultTable"},
                              "%s: undecodable table %r not carried through byte for byte" % (label, tag), None)
    # ---- (a) content equality --------------------------------------------------
    differing = [t for t in orig if t in new and _headmask(t, new[t]) != _headmask(t, orig[t])]
    ctx.note("tables-byte-identical-after-save", len(orig) - len(differing))
    ctx.note("tables-bytes-differ-after-save", len(differing))
    if differing:
        d0 = _orig_dump(env)
        d1 = dump_tables(ver1, new, env["ide"])
        for tag in sorted(orig):
            if tag not in new:
                continue
            a, b = d0[tag], d1[tag]
            if isinstance(a, Exception):
                if _precondition_failure(a, env):
                    ctx.skip(_precondition_failure(a, env) + " (dump)")
                    continue
                _viol_exc(ctx, "decompile", a, None, env, table=tag, side="original")
                raise _Abort()
            if isinstance(b, Exception):
                bad = True
                _viol_exc(ctx, "decompile", b, None, env, table=tag, side="recompiled")
                continue
            ctx.judged()
            la, lb = masked(tag, a, rb), masked(tag, b, rb)
            if la != lb:
                bad = True
                i = next((k for k, (x, y) in enumerate(zip(la, lb)) if x != y), min(len(la), len(lb)))
                ctx.violation({"kind": "content", "table": tag, "field": _field_of((la[i:i + 1] or lb[i:i + 1] or [""])[0]),
                               "path": paths.get(tag), "recalcBBoxes": rb},
                              "%s: table %r decodes to different content after load+save" % (label, tag),
                              {"original": la[max(0, i - 2):i + 3], "recompiled": lb[max(0, i - 2):i + 3],
                               "line": i, "touched_by_caller": tag in touched})
            elif new[tag] != orig[tag]:
                ctx.note("bytes-differ-content-equal:" + tag)
    else:
        ctx.judged(len(orig))
    # struct-level readers (independent of the library) for name / hmtx / vmtx
    if differing and _struct_diff(ctx, orig, new, label, case):
        bad = True
    # HarfBuzz before/after differential
    if touch == "all" and kind1 == "sfnt" and env["kind"] in ("sfnt", "ttc"):
        if _hb_diff(ctx, env, F1, label, rb, new):
            bad = True
    if case["group"] == "foreign" and case["kind"] in ("cmap", "post") and touch == "all" and kind1 == "sfnt":
        if _ft_meaning(ctx, env, F1, label):
            bad = True
    # ---- (b) second generation ---------------------------------------------------
    g, st2, _t = _load(ctx, env, F1, lazy, rb, label + " gen2", new, touched, touch, rnd)
    F2 = _save(ctx, env, g, st2, lazy, 2)
    ctx.judged()
    if F2 != F1:
        bad = True
        try:
            _v2, new2, _k2 = raw_tables(F2, None)
            dt = sorted(t for t in set(new) | set(new2)
                        if _headmask(t, new.get(t, b"")) != _headmask(t, new2.get(t, b"")) or (t in new) != (t in new2))
            if not dt and new.get("head") != new2.get("head"):
                dt = ["head"]
        except Exception:
            dt = ["?"]
        for tag in (dt or ["(container)"]):
            ctx.violation({"kind": "fixed-point", "table": tag, "flavor": kind1, "path": st2["paths"].get(tag)},
                          "%s: second-generation save differs from the first in %r" % (label, tag),
                          {"len1": len(new.get(tag, b"")), "len2": len(new2.get(tag, b"")) if dt != ["?"] else None,
                           "first_diff": _first_diff(new.get(tag, b""), new2.get(tag, b"")) if dt != ["?"] else None,
                           "file_len": [len(F1), len(F2)]})
    # ---- bookkeeping ---------------------------------------------------------------
    exercised = (ncomp > 0) if touch == "all" else (npass > 0 and st["pt_checked"] > 0) if touch == "none" else (ncomp + npass > 0)
    if exercised and not bad:
        ctx.nontrivial("%s|%s|%s|%s|%s" % (case["id"], lazy, touch, rb, env["kind"]))
    ctx.note("config:%s/%s/rb%d/%s" % (lazy, touch, rb, env["kind"]))
    if bad:
        raise _Abort()
    return {"lazy": repr(lazy), "touch": touch, "recalcBBoxes": rb, "compiled": ncomp, "passthrough": npass,
            "loaded_by_library_itself": loaded_by_lib[:8], "tables_bytes_differ": sorted(differing)[:12],
            "second_generation_identical": True, "file_sha": _sha(F1)}


def _metrics(tables, mtx, hea):
    """Expanded [(advance, side bearing)] per glyph from hmtx/vmtx + hhea/vhea + maxp (spec-written)."""
    import struct

    n = struct.unpack(">H", tables["maxp"][4:6])[0]
    k = struct.unpack(">H", tables[hea][34:36])[0]
    d = tables[mtx]
    if k > n or len(d) < 4 * k + 2 * (n - k) or k == 0:
        return None
    long = [struct.unpack(">Hh", d[4 * i:4 * i + 4]) for i in range(k)]
    rest = struct.unpack(">%dh" % (n - k), d[4 * k:4 * k + 2 * (n - k)])
    return long + [(long[-1][0], sb) for sb in rest]


def _struct_diff(ctx, orig, new, label, case=None):
    """Content equality by spec-written readers where the format is simple enough; a table the
    reader cannot take apart (malformed in the source) is not judged here."""
    from vmon.oracle import c03_strings as cs

    bad = False
    if "name" in orig and "name" in new and orig["name"] != new["name"]:
        try:
            fa, ra, la = cs.parse_name(orig["name"])
            fb, rb_, lb = cs.parse_name(new["name"])
        except Exception:
            ra = None
        if ra is not None:
            ctx.judged()
            ctx.note("struct-level:name")
            records_same = sorted(ra) == sorted(rb_)
            if fa == 1 and fb == 0 and la and not lb:
                # positively identified from the format field and langTagCount: a format 1 table came
                # back as format 0 without its language-tag records (known finding, matched on this mech)
                bad = True
                ctx.note("name-format1-langtags-dropped")
                ctx.violation({"kind": "name-format1", "what": "langtag-records-dropped"},
                              "%s: name table format 1 was saved as format 0; its %d language-tag record(s) are gone while "
                              "records with langID >= 0x8000 remain" % (label, len(la)),
                              {"langTags": [t.decode("utf-16-be", "replace") for t in la],
                               "records_using_them": sum(1 for k, _r in ra if k[2] >= 0x8000)})
                la = lb = None          # accounted for; anything else below keeps its usual mechanism
            if not records_same or la != lb:
                bad = True
                ctx.violation({"kind": "struct-content", "table": "name"},
                              "%s: spec-written reader finds different name records after load+save" % label,
                              {"only_original": [repr(r)[:120] for r in sorted(set(ra) - set(rb_))[:4]],
                               "only_recompiled": [repr(r)[:120] for r in sorted(set(rb_) - set(ra))[:4]]})
    for mtx, hea in (("hmtx", "hhea"), ("vmtx", "vhea")):
        if all(t in orig and t in new for t in (mtx, hea, "maxp")) and (orig[mtx] != new[mtx] or orig[hea] != new[hea]):
            try:
                a, b = _metrics(orig, mtx, hea), _metrics(new, mtx, hea)
            except Exception:
                a = None
            if a is None or b is None:
                continue
            ctx.judged()
            ctx.note("struct-level:" + mtx)
            if a != b:
                bad = True
                gid = next((i for i, (x, y) in enumerate(zip(a, b)) if x != y), min(len(a), len(b)))
                ctx.violation({"kind": "struct-content", "table": mtx},
                              "%s: spec-written reader finds different %s metrics after load+save" % (label, mtx),
                              {"glyph": gid, "original": a[gid:gid + 1], "recompiled": b[gid:gid + 1]})
    if "cmap" in orig and "cmap" in new and orig["cmap"] != new["cmap"] and not _cmap4_unterminated(orig["cmap"]):
        from vmon.gen import c01_foreign as FW

        try:
            ma, mb = FW.read_cmap(orig["cmap"]), FW.read_cmap(new["cmap"])
        except Exception:
            ma = None
        if ma is not None:
            ctx.judged()
            ctx.note("struct-level:cmap")
            keys_a = sorted(k[:2] + k[3:] for k in ma)
            keys_b = sorted(k[:2] + k[3:] for k in mb)
            diff = None
            if keys_a != keys_b:
                diff = ("subtable list", keys_a, keys_b)
            else:
                for k, m in ma.items():
                    m2 = mb.get(k)
                    if m is None or m2 is None:
                        continue
                    if m != m2:
                        c = next(c for c in sorted(set(m) | set(m2)) if m.get(c) != m2.get(c))
                        diff = ("subtable %r" % (k,), {"code": hex(c), "original_gid": m.get(c), "recompiled_gid": m2.get(c)}, None)
                        break
            if diff:
                bad = True
                ctx.violation({"kind": "struct-content", "table": "cmap", "what": "mapping" if diff[0] != "subtable list" else diff[0]},
                              "%s: spec-written reader finds a different character map (%s) after load+save" % (label, diff[0]),
                              {"detail": repr(diff[1:])[:400]})
    if case is not None and case.get("group") == "foreign" and case.get("kind") == "gpos" and orig.get("GPOS") != new.get("GPOS"):
        from vmon.gen import c01_gpos

        ga = c01_gpos.gpos_meaning(orig["GPOS"])
        ctx.judged()
        ctx.note("struct-level:GPOS-single/pair/device")
        try:
            gb = c01_gpos.gpos_meaning(new["GPOS"])
            k = next((k for k in sorted(set(ga) | set(gb), key=repr) if ga.get(k) != gb.get(k)), None)
            why = None if k is None else "%r: %r -> %r" % (k, ga.get(k), gb.get(k))
        except Exception as e:
            why = "recompiled GPOS cannot be taken apart: %s" % (str(e)[:100] or type(e).__name__)
        if why:
            bad = True
            ctx.violation({"kind": "struct-content", "table": "GPOS", "what": "positioning values / device tables"},
                          "%s: spec-written reader finds different positioning after load+save" % label, {"detail": why[:400]})
    if "CFF " in orig and "CFF " in new and orig["CFF "] != new["CFF "]:
        from vmon.gen import c01_boundary as BD

        try:
            ia = BD.cff_indexes(orig["CFF "])
        except Exception:
            ia = None                      # CID-keyed / font set / malformed source: not judged here
        if ia is not None:
            ctx.judged()
            ctx.note("struct-level:CFF-indexes")
            try:
                ib = BD.cff_indexes(new["CFF "])
                why = next(("%s INDEX has %d items, had %d" % (k, len(ib.get(k, [])), len(v)) for k, v in ia.items()
                            if k in ("CharStrings", "Subrs", "GlobalSubrs", "Name") and len(ib.get(k, [])) != len(v)), None)
            except Exception as e:
                why = "recompiled table cannot be taken apart: %s" % (str(e)[:120] or type(e).__name__)
            if why:
                bad = True
                ctx.violation({"kind": "struct-content", "table": "CFF ", "what": "INDEX structure"},
                              "%s: spec-written reader: %s" % (label, why), None)
    if "HVAR" in orig and "HVAR" in new and orig["HVAR"] != new["HVAR"] and "maxp" in orig:
        import struct
        from vmon.gen import c01_boundary as BD

        try:
            n = struct.unpack(">H", orig["maxp"][4:6])[0]
            ha, hb_ = BD.hvar_maps(orig["HVAR"], n), BD.hvar_maps(new["HVAR"], n)
        except Exception:
            ha = None
        if ha is not None:
            ctx.judged()
            ctx.note("struct-level:HVAR-index-maps")
            for k in ("adv", "lsb", "rsb"):
                if ha[k] != hb_[k]:
                    bad = True
                    a_, b_ = ha[k] or [], hb_[k] or []
                    gid = next((i for i, (x, y) in enumerate(zip(a_, b_)) if x != y), min(len(a_), len(b_)))
                    ctx.violation({"kind": "struct-content", "table": "HVAR", "what": "delta-set index map"},
                                  "%s: spec-written reader finds a different %s index map after load+save" % (label, k),
                                  {"glyph": gid, "original": a_[gid:gid + 1], "recompiled": b_[gid:gid + 1]})
                    break
    if "post" in orig and "post" in new and orig["post"] != new["post"]:
        from vmon.gen import c01_foreign as FW

        try:
            pa, pb = FW.read_post(orig["post"], _std_names()), FW.read_post(new["post"], _std_names())
        except Exception:
            pa = pb = None
        if pa is not None and pb is not None:
            ctx.judged()
            ctx.note("struct-level:post")
            if pa != pb:
                bad = True
                gid = next((i for i, (x, y) in enumerate(zip(pa, pb)) if x != y), min(len(pa), len(pb)))
                ctx.violation({"kind": "struct-content", "table": "post", "what": "glyph names"},
                              "%s: spec-written reader finds different PostScript glyph names after load+save" % label,
                              {"glyph": gid, "original": pa[gid:gid + 1], "recompiled": pb[gid:gid + 1]})
    if all(t in orig and t in new for t in ("glyf", "loca", "head", "maxp")) and \
            (orig["glyf"] != new["glyf"] or orig["loca"] != new["loca"]):
        from vmon.gen import c01_glyf as GL

        try:
            ga, _fa = GL.split(orig)
            gb, _fb = GL.split(new)
            ca = [GL.components(g) for g in ga]
            cb = [GL.components(g) for g in gb]
        except Exception:
            ca = None
        if ca is not None and any(c for c in ca):
            ctx.judged()
            ctx.note("struct-level:glyf-components")
            if ca != cb:
                bad = True
                gid = next((i for i, (x, y) in enumerate(zip(ca, cb)) if x != y), min(len(ca), len(cb)))
                x, y = ca[gid] if gid < len(ca) else None, cb[gid] if gid < len(cb) else None
                what = "component list"
                if x and y and len(x) == len(y):
                    k = next(i for i, (p, q) in enumerate(zip(x, y)) if p != q)
                    what = ["flags", "glyph index", "argument 1", "argument 2", "transform"][
                        next(i for i in range(5) if x[k][i] != y[k][i])]
                ctx.violation({"kind": "struct-content", "table": "glyf", "what": "component " + what},
                              "%s: spec-written reader finds a different composite glyph (%s) after load+save" % (label, what),
                              {"glyph": gid, "original": repr(x)[:400], "recompiled": repr(y)[:400]})
    return bad


def _ft_meaning(ctx, env, F1, label):
    """FreeType before/after: character map (every code any subtable covers) and glyph names."""
    from vmon.gen import c01_foreign as FW
    from vmon.oracle.hbft import FT

    kind = env["case"]["kind"]
    try:
        a, b = FT(env["src"]), FT(F1)
        if kind == "cmap":
            codes = sorted({c for m in FW.read_cmap(env["orig"]["cmap"]).values() if m for c in m})
            va = [(c, a.char_index(c)) for c in codes]
            vb = [(c, b.char_index(c)) for c in codes]
        else:
            n = a.face.num_glyphs
            va = [a.glyph_name(g) for g in range(n)]
            vb = [b.glyph_name(g) for g in range(b.face.num_glyphs)]
    except Exception as e:
        ctx.note("freetype-differential-unavailable:" + type(e).__name__)
        return False
    ctx.judged()
    ctx.note("freetype-differential:" + kind)
    if va != vb:
        i = next((k for k, (x, y) in enumerate(zip(va, vb)) if x != y), min(len(va), len(vb)))
        ctx.violation({"kind": "ft-differential", "what": "cmap" if kind == "cmap" else "glyph names"},
                      "%s: FreeType sees a different %s after load+save" % (label, "character map" if kind == "cmap" else "glyph name"),
                      {"original": repr(va[i:i + 2]), "recompiled": repr(vb[i:i + 2])})
        return True
    return False


def _foreign_input_ok(ctx, env):
    """The hand-written input must mean the same to the spec-level reader, HarfBuzz and FreeType;
    otherwise generator or oracles are at fault and the case is inconclusive, never a violation."""
    from vmon.gen import c01_foreign as FW

    kind = env["case"]["kind"]
    try:
        if kind == "cmap":
            import uharfbuzz as hb
            from vmon.oracle.hbft import FT

            subs = FW.read_cmap(env["orig"]["cmap"])
            m12 = next((m for k, m in subs.items() if k[2] == 12), None)
            font = hb.Font(hb.Face(hb.Blob(env["src"])))
            try:
                ft = FT(env["src"])
            except Exception:
                ft = None        # FreeType cannot open this host at all (e.g. CFF FDSelect format 4)
                ctx.note("freetype-cannot-open-host")
            for c, g in sorted(m12.items()):
                if font.get_nominal_glyph(c) != g or (ft is not None and ft.char_index(c) != g):
                    ctx.inconclusive("foreign cmap: oracles disagree on the input at U+%04X (reader %d, HarfBuzz %r, FreeType %r)"
                                     % (c, g, font.get_nominal_glyph(c), ft.char_index(c) if ft else None))
                    return False
            m4 = next((m for k, m in subs.items() if k[2] == 4), None)
            if m4 != {c: g for c, g in m12.items() if c < 0x10000}:
                ctx.inconclusive("foreign cmap: format 4 and format 12 subtables written with different BMP meaning")
                return False
        elif kind == "post":
            from vmon.oracle.hbft import FT

            names = FW.read_post(env["orig"]["post"], _std_names())
            ft = FT(env["src"])
            got = [ft.glyph_name(g) for g in range(len(names))]
            if got != names:
                ctx.inconclusive("foreign post: FreeType reads other glyph names from the input than the spec-level reader")
                return False
    except Exception as e:
        ctx.inconclusive("foreign input self-check failed: %r" % (e,))
        return False
    ctx.note("foreign-input-agreed-by-oracles:" + kind)
    return True


def _cmap4_unterminated(data):
    """True when some format-4 cmap subtable lacks the mandatory final 0xFFFF segment
    (malformed per the OpenType spec; the library's reader skips the last segment
    unconditionally, HarfBuzz does not)."""
    import struct

    try:
        _ver, n = struct.unpack(">HH", data[:4])
        for i in range(n):
            off = struct.unpack(">L", data[8 + 8 * i:12 + 8 * i])[0]
            fmt, _ln, _lang, segx2 = struct.unpack(">HHHH", data[off:off + 8])
            if fmt != 4:
                continue
            sc = segx2 // 2
            ends = struct.unpack(">%dH" % sc, data[off + 14:off + 14 + 2 * sc])
            if not ends or ends[-1] != 0xFFFF:
                return True
    except Exception:
        return False
    return False


def _hb_diff(ctx, env, F1, label, rb=False, new=None):
    import uharfbuzz as hb

    # HarfBuzz translates a top-level glyf outline horizontally by (lsb - xMin of the glyph header).
    # With recalcBBoxes=True the header bbox is a recomputed (masked, C04's) field; for a glyph whose
    # header xMin really changed (struct-level read) the two outlines may differ by exactly one
    # uniform horizontal translation and by nothing else.
    hdr = comps = None
    if rb and new is not None and "glyf" in env["orig"] and "glyf" in new:
        import struct
        from vmon.gen import c01_glyf as GL

        try:
            recs = [GL.split(t)[0] for t in (env["orig"], new)]
            hdr = [[struct.unpack(">h", g[2:4])[0] if len(g) >= 10 else None for g in r] for r in recs]
            comps = [[c[1] for c in (GL.components(g) or [])] for g in recs[0]]
        except Exception:
            hdr = comps = None

    def _only_header_shift(gid, pa, pb):
        """pb == pa moved horizontally by (old - new header xMin) of the glyph itself or of a glyph in
        its component closure (USE_MY_METRICS hands the phantom points down); float32 slack 2**-7."""
        if hdr is None or gid >= len(hdr[0]) or gid >= len(hdr[1]) or len(pa) != len(pb) or not pa or not pa[0][1]:
            return False
        closure, todo = set(), [gid]
        while todo:
            g = todo.pop()
            if g in closure or g >= len(comps):
                continue
            closure.add(g)
            todo.extend(comps[g])
        allowed = {hdr[0][g] - hdr[1][g] for g in closure
                   if g < len(hdr[1]) and hdr[0][g] is not None and hdr[1][g] is not None and hdr[0][g] != hdr[1][g]}
        dx = pb[0][1][0][0] - pa[0][1][0][0]
        if not any(abs(dx - d) <= 2 ** -7 for d in allowed):
            return False
        for (oa, qa), (ob, qb) in zip(pa, pb):
            if oa != ob or len(qa) != len(qb):
                return False
            for u, v in zip(qa, qb):
                if u[1] != v[1] or abs(v[0] - u[0] - dx) > 2 ** -7:
                    return False
        return True

    def snap(data, idx, side="a"):
        face = hb.Face(hb.Blob(data), idx)
        font = hb.Font(face)
        n = face.glyph_count
        out = {"n": n, "tags": sorted(face.table_tags), "cmap": None, "glyphs": []}
        out["cmap"] = sorted((u, font.get_nominal_glyph(u)) for u in face.unicodes)
        locs = [None]
        axes = face.axis_infos
        if axes:
            locs.append({a.tag: a.max_value for a in axes})
            locs.append({a.tag: (a.min_value + a.default_value) / 2 for a in axes})
        from vmon.oracle.hbft import RecPen

        for loc in locs:
            if loc:
                font.set_variations(loc)
            rows = []
            for gid in range(n):
                pen = RecPen()
                font.draw_glyph_with_pen(gid, pen)
                rows.append((pen.value, font.get_glyph_h_advance(gid), font.get_glyph_v_advance(gid)))
            out["glyphs"].append(rows)
        return out

    try:
        a = snap(env["src"], env["member"] or 0)
        b = snap(F1, 0, "b")
    except Exception as e:
        ctx.note("hb-differential-unavailable:" + type(e).__name__)
        return False
    ctx.judged()
    ctx.note("hb-differential")
    what, where = None, None
    if a["n"] != b["n"]:
        what = "glyph count"
    elif a["cmap"] != b["cmap"]:
        what = "cmap"
    elif a["tags"] != b["tags"]:
        what = "table tags"
    else:
        for li, (ra, rb_) in enumerate(zip(a["glyphs"], b["glyphs"])):
            for gid, (x, y) in enumerate(zip(ra, rb_)):
                if x != y and x[1:] == y[1:] and _only_header_shift(gid, x[0], y[0]):
                    ctx.note("hb-outline-equal-up-to-header-xMin-shift")
                    continue
                if x != y:
                    what = "outline" if x[0] != y[0] else "advance"
                    where = {"glyph": gid, "location": li, "original": repr(x)[:300], "recompiled": repr(y)[:300]}
                    break
            if what:
                break
    if what == "cmap" and _cmap4_unterminated(env["orig"].get("cmap", b"")):
        ctx.skip("HarfBuzz cmap differential: source cmap format 4 lacks the 0xFFFF terminator segment (malformed)")
        return False
    if what:
        ctx.violation({"kind": "hb-differential", "what": what},
                      "%s: HarfBuzz sees a different %s after load+save" % (label, what), where)
        return True
    return False
