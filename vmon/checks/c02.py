"""C02 — encoding any valid table content and decoding it returns that content; an
independent OpenType reader sees the same content in the compiled bytes.

Post-condition monitors sit on the library's real compile functions.  Every
compile that happens in a worker (called directly by a driver or indirectly through
FontBuilder / TTFont.save) is judged by
  (1) self-inverse: a fresh object decompiles the produced bytes and must carry the
      same plain-Python content;
  (2) the spec-written struct reader (vmon/oracle/tables.py) must read the same
      content from the bytes;
and records the *format decision* taken (segment kinds, numberOfHMetrics, flag repeat,
loca format, Coverage/ClassDef format ...).  The drivers generate the contents and add
  (3) HarfBuzz / FreeType on a minimal font around the compiled table.
The oracles are compared with each other first: a disagreement between independent
oracles makes the case inconclusive, never a violation.
"""
import io
import random
import re
import struct
from collections import Counter

from vmon import hooks, probes
from vmon.case import LibRaised
from vmon.oracle import tables as T
from vmon.oracle import geom

PROPERTY = "C02"
LEVEL = "exploration"
RULE = ("a case is a batch of generated contents of one table kind (cmap format x shape, hmtx tail pattern, glyf "
        "flag/delta pattern, loca size around 0x20000, name platform/encoding, kern, post, OS/2 version, "
        "Coverage/ClassDef/SingleSubst around the format decision, an oversized GPOS PairPos class matrix that must be split, gvar point-set/run-length pattern, fvar/avar, "
        "COLR v0/v1); each content is compiled by the real compile function whose post-condition monitor decodes "
        "the bytes with a fresh library object and with the spec-written reader; HarfBuzz/FreeType then read a "
        "minimal font around the bytes. A content is non-trivial/distinct by (table kind, format decision "
        "signature observed in the bytes, size class)")
ASSUMPTIONS = [
    "valid content is the generators' contract (vmon/gen/c02_*.py): cmap 4 keys <= 0xFFFF, cmap 0 codes and gids < 256, "
    "cmap 2 lead bytes outside the one-byte span, cmap 6 at most 32762 entries (uint16 length), name strings encodable in the "
    "record's encoding and without NUL, glyf point-to-point deltas and composed coordinates fit int16, F2Dot14 transform "
    "entries in [-2, 2), kern <= 65535 pairs, glyph names <= 63 characters, glyph ids < numGlyphs <= 65535, integer gvar deltas",
    "a cmap entry for glyph 0 (.notdef) means 'unmapped' in every format (HarfBuzz agrees): maps are compared modulo glyph-0 entries",
    "representation freedom (cmap segmentation, number of long metrics, flag packing, glyph padding, Coverage/ClassDef/SingleSubst format, "
    "shared points/tuples, layer reuse) is observed and reported, never asserted; only content is",
    "a Coverage glyph list that is not sorted by glyph id is not conforming content; the library documents that it preserves the list order "
    "(coverage index = position): judged on order preservation with the reader in lenient mode",
    "an all-None TupleVariation has no effect and is dropped by the compiler by design",
    "trusted base: vmon/oracle/tables.py (struct readers written from the OpenType spec), HarfBuzz 12.1, FreeType 2.13.2, Python's codecs",
    "engines are cross-checked against the struct reader's parse of the same bytes; one engine contradicting the reader is inconclusive and "
    "withholds reader-only verdicts for that table; self-inverse verdicts and exceptions always stand",
    "HarfBuzz wraps advances >= 32768 (int16) and clamps negative ones, FreeType answers glyph 0 for ids >= numGlyphs, skips empty name "
    "strings, rejects glyph names > 63 bytes and wraps coordinates outside int16: comparisons are restricted accordingly",
    "outline tolerance 0.02 units against HarfBuzz (float32), exact against FreeType for integer outlines, 1 unit for composed/varied ones",
    "avar through the engines: both evaluate the segment map in 16.16 (<= 1/8 of a 2^-14 unit off the exact rational value), HarfBuzz then "
    "rounds to 2.14: |HarfBuzz - exact| <= 3/4, |FreeType - exact| <= 1/2 unit",
    "gvar through FreeType: 16.16 scalars, tolerance 1.01 + sum(max |delta| per tuple) * axes / 32768 units; HarfBuzz (float32) 0.05 units",
    "COLR v1 has no struct reader: HarfBuzz's paint trace (accumulated transforms, fills, clips, composite groups) is the independent reader, "
    "with float32 tolerance 2e-4 relative + 2e-6 of the intermediate magnitudes; HarfBuzz alone never decides, it confirms the library's "
    "own decode or makes the case inconclusive",
]
CASE_TIMEOUT = 300
MANIFEST = {
    "text": "Exploration with generated table contents. Post-condition monitors on the real compile functions (cmap formats 0/2/4/6/12/13/14, hmtx/vmtx, Glyph/glyf/loca, name, kern, post, OS/2, Coverage/ClassDef/SingleSubst preWrite and GSUB/GDEF compile, TupleVariation/gvar, fvar, avar, COLR) decode every produced byte string with a fresh library object (self-inverse, compared on plain Python values) and with a struct-level reader written from the OpenType spec; HarfBuzz and FreeType then query a minimal font assembled around the bytes (nominal/variation glyphs, advances, outlines at default and variation locations, names, kerning, glyph names, OS/2 metrics, GSUB shaping, GDEF classes, normalised coordinates, COLR layers). A pair-adjustment (GPOS PairPos) class matrix larger than 64 KiB is compiled with the library's own offset-overflow resolution and judged on the effective adjustment of every glyph pair. Generators oversample the format-decision boundaries (idDelta vs idRangeOffset, long-metric trimming, flag repeat 255/256, short vectors 255/256, loca 0x20000, Coverage/ClassDef 3:1 rule, SingleSubst delta modulo 65536, delta runs 63/64/65, shared points/tuples). Tests cannot settle this because they compile a few hand-written values per table.",
    "note": "Trusted base: vmon/oracle/tables.py, HarfBuzz, FreeType. Content is compared modulo glyph-0 cmap entries and representation choices. Oracle disagreement is inconclusive. name table format 1 (langTag records) is not produced by the library and is out of reach.",
    "technique": "post-condition monitors on the real encoders; spec-written struct readers; HarfBuzz/FreeType differential on a minimal font; sys.monitoring decision-site coverage",
    "design_ref": "DESIGN.md §4 C02",
}
EXHAUSTIVE = {"quick": False, "thorough": False}

_cur = {"keys": set(), "n": 0, "notes": Counter(), "cap": {}, "disagree": []}


def _judged(n=1):
    _cur["n"] += n


def _key(k):
    _cur["keys"].add(k)


def _note(k, n=1):
    _cur["notes"][k] += n


def _short(v, n=300):
    s = repr(v)
    return s if len(s) <= n else s[:n] + "..."


def _report(table, oracle, what, detail, **extra):
    """A monitor's verdict: `oracle` is 'self-inverse' or 'reader'."""
    mech = {"kind": "content", "table": table, "oracle": oracle, "what": what}
    mech.update(extra)
    hooks.report(mech, "%s: %s: %s — %s" % (table, oracle, what, _short(detail)), {"detail": _short(detail, 2000)})


def _dictdiff(want, got, n=4):
    ks = sorted(set(want) | set(got), key=repr)
    return [(k, want.get(k, "<absent>"), got.get(k, "<absent>")) for k in ks if want.get(k, "<absent>") != got.get(k, "<absent>")][:n]


_rev_cache = {}


def _rev(font):
    """glyph name -> id from the glyph order the harness supplied (plain data)."""
    order = font.getGlyphOrder()
    k = id(order)
    ent = _rev_cache.get(k)
    if ent is None or ent[0] is not order or ent[1] != len(order):
        if len(_rev_cache) > 8:
            _rev_cache.clear()
        ent = (order, len(order), {g: i for i, g in enumerate(order)})
        _rev_cache[k] = ent
    return ent[2]


def _size_class(n):
    return "0" if n == 0 else "1" if n == 1 else "s" if n < 64 else "m" if n < 4096 else "l" if n < 65536 else "xl"


def _site(name, func, regex):
    probes.add_site(name, func, regex)


# =====================================================================================
# monitors
# =====================================================================================
def setup():
    _setup_cmap()
    for mod in _SETUPS:
        mod()


_SETUPS = []


# ------------------------------------------------------------------ cmap
def _cmap_label(fmt, content):
    """Shape class of a cmap content (mechanism feature for exceptions / mismatches)."""
    if not content:
        return "empty"
    if fmt == 14:
        for vs, d in content.items():
            run, prev = 0, None
            for uv in sorted(u for u, g in d.items() if g is None):
                run = run + 1 if prev is not None and uv == prev + 1 else 1
                prev = uv
                if run > 256:
                    return "default-run>256"
        return "entries"
    if not any(content.values()):
        return "notdef-only"
    if fmt == 2:
        if all(c < 256 for c, g in content.items() if g):
            return "one-byte-only"
        rows = {}
        for c, g in content.items():
            if g:
                rows.setdefault(c >> 8, []).append(g)
        if any(min(v) > 0x7FFF for v in rows.values()):
            return "row-min-gid>0x7FFF"
    return "entries"


def _diff_class(want, got):
    lost = any(k not in got for k in want)
    extra = any(k not in want for k in got)
    changed = any(k in got and got[k] != v for k, v in want.items())
    return "+".join(n for n, f in (("lost", lost), ("extra", extra), ("changed", changed)) if f) or "none"


def _setup_cmap():
    from fontTools.ttLib.tables import _c_m_a_p as M

    def pre(a, kw):
        return {"raw": bool(a[0].__dict__.get("data"))}

    def post(state, a, kw, res, exc):
        if exc is not None or state is None or state["raw"]:
            return
        st, font = a[0], a[1]
        fmt = st.format
        rev = _rev(font)
        res = bytes(res)
        cap = {"bytes": res, "format": fmt, "reader": None}
        _cur["cap"].setdefault("cmap", []).append(cap)
        if fmt == 14:
            return _post_cmap14(st, font, rev, res, cap)
        want = {}
        for code, name in st.cmap.items():
            gid = rev[name]
            if gid:
                want[code] = gid
        # (2) independent reader
        try:
            got = T.cmap_subtable(res)
        except (T.Bad, struct.error, IndexError) as e:
            _judged()
            _report("cmap", "reader", "spec reader rejects the subtable", "%r (%d entries)" % (e, len(want)), format=fmt)
            return
        mine = {c: g for c, g in got["map"].items() if g}
        cap["reader"] = mine
        _judged()
        if mine != want:
            _report("cmap", "reader", "spec reader sees another mapping", _dictdiff(want, mine), format=fmt,
                    diff=_diff_class(want, mine), content=_cmap_label(fmt, want))
        if got["format"] != fmt or got["language"] != st.language or got["length"] != len(res):
            _report("cmap", "reader", "subtable header differs", (got["format"], got["language"], got["length"], len(res)),
                    format=fmt, field="header")
        if fmt == 4 and not got["info"]["search_ok"]:
            _report("cmap", "reader", "format 4 searchRange fields differ from the spec formula", got["info"], format=4, field="searchRange")
        # (1) self-inverse
        st2 = M.CmapSubtable.newSubtable(fmt)
        st2.platformID, st2.platEncID = st.platformID, st.platEncID
        try:
            st2.decompile(res, font)
            back = st2.cmap
        except Exception as e:
            _judged()
            _report("cmap", "self-inverse", "decompile of compile output raised %s" % type(e).__name__, repr(e), format=fmt)
            return
        expect = {c: nm for c, nm in st.cmap.items() if rev[nm]}
        _judged()
        if back != expect:
            _report("cmap", "self-inverse", "decompile(compile(x)) != x", _dictdiff(expect, back), format=fmt,
                    diff=_diff_class(expect, back), content=_cmap_label(fmt, want))
        if st2.language != st.language:
            _report("cmap", "self-inverse", "language differs", (st.language, st2.language), format=fmt, field="language")
        # decisions
        info = got["info"]
        if fmt == 4:
            k = info["kinds"]
            sig = "%s%s%s" % ("d" if k["delta"] else "", "r" if k["range"] else "", "w" if k["wrap"] else "")
            _note("cmap4.segments.idDelta", k["delta"])
            _note("cmap4.segments.idRangeOffset", k["range"])
            _note("cmap4.segments.idDelta-wraps-mod-65536", k["wrap"])
            _key("cmap4/%s/seg%s/n%s" % (sig or "-", _size_class(info["segments"] - 1), _size_class(len(want))))
        elif fmt in (12, 13):
            _note("cmap%d.groups" % fmt, info["groups"])
            _key("cmap%d/g%s/n%s/%s" % (fmt, _size_class(info["groups"]), _size_class(len(want)),
                                        "smp" if any(c > 0xFFFF for c in want) else "bmp"))
        elif fmt == 2:
            _note("cmap2.subheaders", info["subheaders"])
            _note("cmap2.shared-glyph-arrays", info["shared_arrays"])
            _note("cmap2.negative-idDelta", info["neg_delta"])
            _key("cmap2/sh%s/share%d/neg%d/n%s" % (_size_class(info["subheaders"]), bool(info["shared_arrays"]),
                                                  bool(info["neg_delta"]), _size_class(len(want))))
        elif fmt == 6:
            _key("cmap6/first%s/n%s/holes%d" % ("0" if not info["first"] else "+", _size_class(info["count"]),
                                                 info["count"] != len(st.cmap)))
        else:
            _key("cmap0/n%s" % _size_class(len(want)))
        if len(want) != len(st.cmap):
            _note("cmap.entries-for-glyph-0-dropped", len(st.cmap) - len(want))

    for cls, nm in (("cmap_format_0", "cmap0.compile"), ("cmap_format_2", "cmap2.compile"),
                    ("cmap_format_4", "cmap4.compile"), ("cmap_format_6", "cmap6.compile"),
                    ("cmap_format_12_or_13", "cmap12_13.compile"), ("cmap_format_14", "cmap14.compile")):
        hooks.attach(M, cls + ".compile", pre=pre, post=post, name=nm)

    def post_table(state, a, kw, res, exc):
        if exc is not None:
            return
        tab = a[0]
        try:
            recs = T.cmap_table(bytes(res))
        except (T.Bad, struct.error, IndexError) as e:
            _judged()
            _report("cmap", "reader", "spec reader rejects the cmap table", repr(e), field="directory")
            return
        _judged()
        want = sorted((t.platformID, t.platEncID) for t in tab.tables)
        got = [(p, e) for p, e, off, st in recs]
        if got != want:
            _report("cmap", "reader", "encoding records differ / unsorted", (want, got), field="directory")
        _note("cmap.table.subtables", len(recs))
        _note("cmap.table.shared-offsets", len(recs) - len({off for p, e, off, st in recs}))

    hooks.attach(M, "table__c_m_a_p.compile", post=post_table, name="cmap.compile")

    c4 = M.cmap_format_4.compile
    _site("cmap4.segment-idDelta", c4, r"idDelta\.append\(\(indices\[0\]")
    _site("cmap4.segment-idRangeOffset", c4, r"idRangeOffset\.append\(2 \*")
    _site("cmap4.empty-map", c4, r"startCode = \[0xFFFF\]")
    _site("cmap4.splitRange-subranges", M.splitRange, r"subRanges\.insert\(0")
    _site("cmap4.splitRange-holes", M.splitRange, r"subRanges\.insert\(i,")
    c12 = M.cmap_format_12_or_13.compile
    _site("cmap12_13.new-group", c12, r"startGlyphID = glyphID")
    c2 = M.cmap_format_2.compile
    _site("cmap2.shared-subarray", c2, r"subHeader\.glyphIndexArray = \[\]")
    _site("cmap2.empty-first-subheader", c2, r"subHeader\.idRangeOffset = 0$")
    _site("cmap2.idDelta-wraps-negative", M.cmap_format_2.setIDDelta, r"subHeader\.idDelta = .*0x10000")
    c14 = M.cmap_format_14.compile
    _site("cmap14.default-uvs", c14, r"defOVSOffset = offset")
    _site("cmap14.default-range-break", c14, r"defRecs\.append\(rec\)")
    _site("cmap14.nondefault-uvs", c14, r"nonDefUVSOffset = offset")
    _site("cmap6.empty-map", M.cmap_format_6.compile, r'data = b""')


def _post_cmap14(st, font, rev, res, cap):
    from fontTools.ttLib.tables import _c_m_a_p as M

    want = {}
    for vs, lst in st.uvsDict.items():
        for uv, name in lst:
            want.setdefault(vs, {})[uv] = None if name is None else rev[name]
    want = {vs: d for vs, d in want.items() if d}
    try:
        got = T.cmap_subtable(res)
    except (T.Bad, struct.error, IndexError) as e:
        _judged()
        _report("cmap", "reader", "spec reader rejects the subtable", repr(e), format=14)
        return
    mine = {}
    for vs, s in got["default"].items():
        for uv in s:
            mine.setdefault(vs, {})[uv] = None
    for vs, d in got["nondefault"].items():
        for uv, g in d.items():
            if uv in mine.get(vs, {}):
                _report("cmap", "reader", "sequence is both default and non-default", (hex(vs), hex(uv)), format=14)
            mine.setdefault(vs, {})[uv] = g
    cap["reader"] = mine
    _judged()
    if mine != want:
        _report("cmap", "reader", "spec reader sees other variation sequences",
                [(hex(vs), _dictdiff(want.get(vs, {}), mine.get(vs, {}))) for vs in sorted(set(want) | set(mine))
                 if want.get(vs) != mine.get(vs)][:3], format=14)
    if got["length"] != len(res):
        _report("cmap", "reader", "subtable header differs", (got["length"], len(res)), format=14, field="header")
    st2 = M.CmapSubtable.newSubtable(14)
    try:
        st2.decompile(res, font)
        back = {}
        for vs, lst in st2.uvsDict.items():
            for uv, name in lst:
                if uv in back.get(vs, {}):
                    _report("cmap", "self-inverse", "duplicate sequence after decompile", (hex(vs), hex(uv)), format=14)
                back.setdefault(vs, {})[uv] = None if name is None else rev[name]
    except Exception as e:
        _judged()
        _report("cmap", "self-inverse", "decompile of compile output raised %s" % type(e).__name__, repr(e), format=14)
        return
    _judged()
    if back != want:
        _report("cmap", "self-inverse", "decompile(compile(x)) != x",
                [(hex(vs), _dictdiff(want.get(vs, {}), back.get(vs, {}))) for vs in sorted(set(want) | set(back))
                 if want.get(vs) != back.get(vs)][:3], format=14)
    nd = sum(1 for d in want.values() for g in d.values() if g is None)
    nn = sum(1 for d in want.values() for g in d.values() if g is not None)
    _note("cmap14.default-sequences", nd)
    _note("cmap14.nondefault-sequences", nn)
    _key("cmap14/sel%s/d%s/n%s" % (_size_class(len(want)), _size_class(nd), _size_class(nn)))



# =====================================================================================
# drivers
# =====================================================================================
def _lib(ctx, op, fn, *a, **extra):
    """Library call on valid input: an exception is a violation (recorded by ctx.lib);
    the batch goes on with the next content."""
    try:
        with ctx.lib(op, **extra):
            return True, fn(*a)
    except LibRaised:
        return False, None


_fonts = {}


def _names(n):
    return [".notdef"] + ["g%05d" % i for i in range(1, n)]


def _order_font(n):
    """A TTFont that only carries a glyph order (what subtable compilers need)."""
    from fontTools.ttLib import TTFont

    f = _fonts.get(n)
    if f is None:
        if len(_fonts) > 6:
            _fonts.clear()
        f = TTFont(recalcTimestamp=False)
        f.setGlyphOrder(_names(n))
        _fonts[n] = f
    return f


_GROUP = {"cmap": "cmap", "cmap14": "cmap", "cmap10": "cmap", "hmtx": "hmtx", "vmtx": "vmtx", "glyf": "glyf", "loca": "glyf", "name": "name",
          "kern": "kern", "post": "post", "OS/2": "OS/2", "layout": "layout", "gvar": "gvar", "fvar": "fvar", "avar": "avar", "COLR": "COLR"}
_TABLE_GROUP = {"HVAR": "HVAR", "VVAR": "VVAR", "DeltaSetIndexMap": "idxmap", "GPOS": "layout", "cmap": "cmap", "hmtx": "hmtx", "vmtx": "vmtx", "glyf": "glyf", "loca": "glyf", "name": "name", "kern": "kern", "post": "post",
                "OS/2": "OS/2", "GSUB": "layout", "GDEF": "layout", "Coverage": "layout", "ClassDef": "layout", "SingleSubst": "layout",
                "gvar": "gvar", "fvar": "fvar", "avar": "avar", "COLR": "COLR"}


def _disagree(ctx, what, detail):
    """An independent engine contradicts the struct reader on the same bytes: the case is inconclusive for that
    table group and the monitors' verdicts on it are withheld (never a violation)."""
    word = re.split(r"[ :]", what, 1)[0]
    word = re.sub(r"\d+$", "", word) if word.startswith("cmap") else word
    _cur["disagree"].append(_GROUP.get(word, word))
    ctx.inconclusive("oracles disagree (%s): %s" % (what, _short(detail, 400)))


def _pending_reports():
    reps = hooks.take_reports()
    for r in reps:
        hooks.report(r["mech"], r["what"], r["witness"])
    return reps


def _semantic(ctx, table, oracle, what, detail, **extra):
    mech = {"kind": "semantic", "table": table, "oracle": oracle, "what": what}
    mech.update(extra)
    ctx.violation(mech, "%s: %s: %s — %s" % (table, oracle, what, _short(detail)), {"detail": _short(detail, 2000)})


def _hb(data, **kw):
    from vmon.oracle.hbft import HB

    return HB(data, **kw)


def _ft(data):
    from vmon.oracle.hbft import FT

    return FT(data)


# ------------------------------------------------------------------ cmap driver
def _probe_codes(rnd, want, limit=2500):
    codes = sorted(want)
    if len(codes) > limit:
        codes = sorted(set(rnd.sample(codes, limit) + codes[:50] + codes[-50:]))
    extra = set()
    for c in codes[:400] + codes[-100:]:
        for d in (-1, 1):
            if 0 <= c + d <= 0x10FFFF and c + d not in want:
                extra.add(c + d)
    return codes, sorted(extra)[:600]


def drv_cmap(case, rnd, ctx):
    from fontTools.ttLib.tables._c_m_a_p import CmapSubtable
    from vmon.gen import c02_cmap as G

    fmt, shape = case["fmt"], case["shape"]
    for rep in range(case["reps"]):
        if case.get("n"):
            n = case["n"]
        elif fmt == 0:
            n = rnd.choice([2, 40, 256, 300])
        else:
            n = rnd.choice([3, 300, 300, 5000, 65535])
        font = _order_font(n)
        names = font.getGlyphOrder()
        st = CmapSubtable.newSubtable(fmt)
        plat = (3, 10) if fmt in (12, 13) else (3, 1)
        if fmt == 14:
            plat = (0, 5)
        st.platformID, st.platEncID = plat
        st.language = 0 if fmt != 14 else 0xFF
        base = None
        if fmt == 14:
            base = G.gen_map(rnd, 12, rnd.choice(["runs", "sparse", "planes"]), n)
            uvs = G.gen_uvs(rnd, shape, n, sorted(c for c, g in base.items() if g))
            st.cmap = {}
            st.uvsDict = {}
            for vs, d in uvs.items():
                items = list(d.items())
                rnd.shuffle(items)
                st.uvsDict[vs] = [(uv, None if g is None else names[g]) for uv, g in items]
            content = uvs
        else:
            m = G.gen_map(rnd, fmt, shape, n)
            items = list(m.items())
            rnd.shuffle(items)          # dict order must not matter
            st.cmap = {c: names[g] for c, g in items}
            content = m
            if fmt in (0, 2, 4, 6) and rnd.random() < 0.2:
                st.language = rnd.choice([1, 7, 0xFFFF])   # Macintosh language field
        _cur["cap"].pop("cmap", None)
        ok, data = _lib(ctx, "cmap_format_%d.compile" % fmt, st.compile, font, table="cmap", format=fmt,
                        content=_cmap_label(fmt, content))
        if ctx.sample is None:
            ctx.sample = {"kind": "cmap", "format": fmt, "shape": shape, "numGlyphs": n, "entries": len(content),
                          "compiled_bytes": len(data) if ok else None,
                          "first_entries": [(hex(c), g) for c, g in sorted(content.items())[:4]] if fmt != 14 else
                          [(hex(vs), len(d)) for vs, d in sorted(content.items())[:4]]}
        if not ok:
            continue
        cap = (_cur["cap"].get("cmap") or [None])[-1]
        if cap is None or cap["reader"] is None:
            continue
        mine = cap["reader"]
        if n > 65535:
            continue
        # (3) HarfBuzz / FreeType on a host font built from the spec around the compiled bytes
        if fmt == 14:
            bst = CmapSubtable.newSubtable(12)
            bst.platformID, bst.platEncID, bst.language = 3, 10, 0
            bst.cmap = {c: names[g] for c, g in base.items()}
            ok, bdata = _lib(ctx, "cmap_format_12.compile", bst.compile, font, table="cmap", format=12)
            if not ok:
                continue
            host = T.host_font(n, {"cmap": T.cmap_wrap([(3, 10, bytes(bdata)), (0, 5, bytes(data))])})
            hb = _hb(host)
            nominal = {c: g for c, g in base.items() if g}
            bad = []
            cnt = 0
            for vs, d in mine.items():
                items = sorted(d.items())
                if len(items) > 600:
                    items = rnd.sample(items, 600)
                for uv, g in items:
                    got = hb.variation_glyph(uv, vs)
                    exp = nominal.get(uv) if g is None else g
                    cnt += 1
                    if (got or None) != (exp or None):
                        bad.append((hex(uv), hex(vs), exp, got))
                # a base that is not listed must not resolve
                for uv in (0x10FFFD, 0x7):
                    if uv not in d and hb.variation_glyph(uv, vs) not in (None, 0):
                        bad.append((hex(uv), hex(vs), None, hb.variation_glyph(uv, vs)))
            ctx.judged(1)
            _note("cmap14.harfbuzz-sequences-checked", cnt)
            if bad:
                _disagree(ctx, "cmap14 harfbuzz vs struct reader", bad[:4])
            continue
        enc = plat
        host = T.host_font(n, {"cmap": T.cmap_wrap([(enc[0], enc[1], bytes(data))])})
        present, absent = _probe_codes(rnd, mine)
        ft = _ft(host)
        # FreeType answers 0 for glyph indices >= numGlyphs
        bad_ft = [(hex(c), mine.get(c, 0), ft.char_index(c)) for c in present + absent
                  if ft.char_index(c) != (mine.get(c, 0) if mine.get(c, 0) < n else 0)]
        bad_hb = []
        if fmt != 2:   # HarfBuzz has no format 2 reader
            hb = _hb(host)
            bad_hb = [(hex(c), mine.get(c), hb.nominal(c)) for c in present + absent if (hb.nominal(c) or None) != mine.get(c)]
            _note("cmap.harfbuzz-codes-checked", len(present) + len(absent))
        _note("cmap.freetype-codes-checked", len(present) + len(absent))
        ctx.judged(1)
        if bad_ft or bad_hb:
            _disagree(ctx, "cmap%d harfbuzz/freetype vs struct reader" % fmt, {"freetype": bad_ft[:3], "harfbuzz": bad_hb[:3]})


def drv_pairpos(case, rnd, ctx):
    """A pair-adjustment lookup given as ONE subtable whose records exceed 64 KiB: the compiler has to split it
    (offset overflow resolution).  Content = the effective adjustment of every (first, second) glyph pair."""
    from fontTools.ttLib import newTable
    from fontTools.ttLib.tables import otTables as ot
    from fontTools.otlLib import builder as B
    from vmon.gen import c02_otl as G

    shape = case["shape"]
    c = G.gen_pairpos(rnd, shape)
    n = c["n"]
    names = _names(n)
    descs = [{"kind": "simple", "contours": [], "instructions": b""} for _ in names]
    fb = _build(names, descs, cmap=_pua(names), recalc=False)
    font = fb.font
    gm = font.getReverseGlyphMap()

    def value(v):
        d = {k: x for k, x in zip(("XPlacement", "YPlacement", "XAdvance", "YAdvance"), v) if x}
        return B.buildValue(d) if d else None
    want = {}
    if c["kind"] == "classes":
        pairs = {}
        for (i, j), (v1, v2) in c["values"].items():
            pairs[(tuple(names[g] for g in c["left"][i]), tuple(names[g] for g in c["right"][j]))] = (value(v1), value(v2))
            for g1 in c["left"][i]:
                for g2 in c["right"][j]:
                    want[(g1, g2)] = (v1, v2)
        ok, st = _lib(ctx, "buildPairPosClassesSubtable", B.buildPairPosClassesSubtable, pairs, gm, table="GPOS", shape=shape)
    else:
        pairs = {}
        for (i, j), (v1, v2) in c["values"].items():
            g1, g2 = c["left"][i][0], c["right"][j][0]
            pairs[(names[g1], names[g2])] = (value(v1), value(v2))
            want[(g1, g2)] = (v1, v2)
        ok, st = _lib(ctx, "buildPairPosGlyphsSubtable", B.buildPairPosGlyphsSubtable, pairs, gm, table="GPOS", shape=shape)
    if not ok:
        return
    gp = _mk_gsub([B.buildLookup([st])], [("kern", [0])])
    gpos = newTable("GPOS")
    t = gpos.table = ot.GPOS()
    for k, v in gp.table.__dict__.items():
        setattr(t, k, v)
    font["GPOS"] = gpos
    repacker = bool(case.get("hb_repacker"))
    font.cfg["fontTools.ttLib.tables.otBase:USE_HARFBUZZ_REPACKER"] = repacker     # False: the library's own overflow resolution
    ctx.sample = {"kind": "GPOS PairPos", "shape": shape, "numGlyphs": n, "first_classes": len(c["left"]), "second_classes": len(c["right"]),
                  "pairs": len(want), "harfbuzz_repacker": repacker, "first_values": sorted(c["values"].items())[:3]}
    _cur["cap"].pop("GPOS", None)
    ok, data = _save(ctx, fb, table="GPOS", shape=shape)
    if not ok:
        return
    cap = _cur["cap"].get("GPOS")
    if cap is None:
        ctx.inconclusive("GPOS monitor saw no compile")
        return
    got = cap["reader"][0] or {}
    ctx.judged()
    if got != want:
        bad = [k for k in set(want) | set(got) if want.get(k) != got.get(k)]
        _semantic(ctx, "GPOS", "reader", "compiled pair adjustments differ from the generated content",
                  {"pairs_differing": len(bad), "first_glyphs_affected": sorted({k[0] for k in bad})[:8], "first": _dictdiff(want, got)},
                  field="PairPos", diff=_diff_class(want, got), subtables=len(cap["raw"][0] or []) > 1)
    # HarfBuzz against the struct reader's effective values: every first glyph with a few second glyphs
    hb = _hb(data)
    firsts = sorted({k[0] for k in got} | {g for cl in c["left"] for g in cl})
    seconds = sorted({g for cl in c["right"] for g in cl}) + [n - 1]
    bad = []
    cnt = 0
    zero = ((0, 0, 0, 0), (0, 0, 0, 0))
    for g1 in firsts:
        for g2 in rnd.sample(seconds, 3):
            v1, v2 = got.get((g1, g2), zero)
            sh = hb.shape([0xF0000 + g1, 0xF0000 + g2], {"kern": True})
            cnt += 1
            if len(sh) != 2:
                bad.append((g1, g2, "glyph count", len(sh)))
                continue
            obs = ((sh[0][4], sh[0][5], sh[0][2] - 500, 0), (sh[1][4], sh[1][5], sh[1][2] - 500, 0))
            if obs != ((v1[0], v1[1], v1[2], 0), (v2[0], v2[1], v2[2], 0)):
                bad.append((g1, g2, (v1, v2), obs))
    ctx.judged()
    _note("GPOS.pairs-shaped-by-harfbuzz", cnt)
    if bad:
        _disagree(ctx, "layout PairPos: harfbuzz vs struct reader", bad[:4])


def drv_cmap10(case, rnd, ctx):
    """Format 10 (trimmed array, 32-bit) has no encoder in the library: a cmap table that contains one is decompiled
    and compiled again; the subtable must come through byte for byte next to the re-encoded known subtables."""
    from fontTools.ttLib import newTable
    from fontTools.ttLib.tables._c_m_a_p import CmapSubtable
    from vmon.gen import c02_cmap as G

    for rep in range(case["reps"]):
        n = rnd.choice([300, 5000])
        font = _order_font(n)
        names = font.getGlyphOrder()
        first = rnd.choice([0, 0x20, 0x10000, 0x1F600, 0x10FF00])
        cnt = rnd.choice([0, 1, 2, 100, 255])
        gids = [rnd.choice([0, rnd.randrange(1, n)]) if rnd.random() < 0.9 else 0 for _ in range(cnt)]
        sub10 = struct.pack(">HHLLLL", 10, 0, 20 + 2 * cnt, 0, first, cnt) + struct.pack(">%dH" % cnt, *gids)
        st = CmapSubtable.newSubtable(4)
        st.platformID, st.platEncID, st.language = 3, 1, 0
        m4 = G.gen_map(rnd, 4, rnd.choice(["runs", "sparse", "mixed"]), n)
        st.cmap = {c: names[g] for c, g in m4.items()}
        ok, b4 = _lib(ctx, "cmap_format_4.compile", st.compile, font, table="cmap", format=4)
        if not ok:
            continue
        data = T.cmap_wrap([(3, 1, bytes(b4)), (3, 10, sub10)])
        if ctx.sample is None:
            ctx.sample = {"kind": "cmap", "format": 10, "firstCode": hex(first), "entries": cnt, "numGlyphs": n}
        tab = newTable("cmap")
        ok, _x = _lib(ctx, "cmap.decompile", tab.decompile, data, font, table="cmap", format=10)
        if not ok:
            continue
        ok, out = _lib(ctx, "cmap.compile", tab.compile, font, table="cmap", format=10)
        if not ok:
            continue
        ctx.judged()
        try:
            recs = T.cmap_table(bytes(out))
        except T.Bad as e:
            _semantic(ctx, "cmap", "reader", "recompiled table with a format 10 subtable rejected by the spec reader", repr(e), format=10)
            continue
        want10 = {first + i: g for i, g in enumerate(gids)}
        got10 = [stt for p, e, off, stt in recs if stt["format"] == 10]
        got4 = [stt for p, e, off, stt in recs if stt["format"] == 4]
        if len(got10) != 1 or got10[0]["map"] != want10:
            _semantic(ctx, "cmap", "reader", "format 10 subtable changed in a decompile/compile cycle", _dictdiff(want10, got10[0]["map"]) if got10 else "missing", format=10)
        if len(got4) != 1 or {c: g for c, g in got4[0]["map"].items() if g} != {c: g for c, g in m4.items() if g}:
            _semantic(ctx, "cmap", "reader", "format 4 subtable next to a format 10 subtable changed", None, format=4)
        _key("cmap10/n%s/%s" % (_size_class(cnt), "smp" if first > 0xFFFF else "bmp"))
        host = T.host_font(n, {"cmap": bytes(out)})
        hb = _hb(host)
        bad = [(hex(c), g, hb.nominal(c)) for c, g in want10.items() if (hb.nominal(c) or None) != (g or None)]
        ctx.judged()
        if bad:
            _disagree(ctx, "cmap10 harfbuzz vs struct reader", bad[:3])


# =====================================================================================
# cases / run_case
# =====================================================================================
def cases(tier, seed):
    from vmon.gen import c02_cmap as GC, c02_misc as GM, c02_glyf as GG, c02_otl as GO, c02_var as GV, c02_colr as GCo

    T_ = tier == "thorough"
    P = 12 if T_ else 2          # parts (independent random streams) per shape
    R = 3 if T_ else 2           # multiplier on contents per part
    cs = []

    def add(kind, **kw):
        kw["kind"] = kind
        kw["id"] = "%s:%s" % (kind, ",".join("%s=%s" % (k, v) for k, v in sorted(kw.items()) if k not in ("kind",)))
        kw["seed"] = seed
        cs.append(kw)

    # ---- cmap
    for fmt, shapes in GC.SHAPES.items():
        for shape in shapes:
            trivial = shape in ("empty", "notdef_only", "single")
            for part in range(1 if trivial else P):
                add("cmap", fmt=fmt, shape=shape, part=part, reps=3 if trivial else 6 * R)
    for fmt, shapes in GC.BIG_SHAPES.items():
        for shape in shapes:
            if shape in ("big", "big_bmp", "big_window") and not T_ and fmt != 12:
                continue
            for part in range(3 if T_ else 1):
                add("cmap", fmt=fmt, shape=shape, part=part, reps=1, n=65536 if shape == "highgid" and fmt == 4 else 65535)
    add("cmap10", reps=4 * R)
    # ---- hmtx / vmtx
    for shape in GM.HMTX_SHAPES:
        for vertical in (0, 1):
            for part in range(P):
                add("hmtx", shape=shape, vertical=vertical, part=part, reps=4 * R)
    add("hmtx", shape="extremes", vertical=0, part=0, reps=3, no_header=1)
    add("hmtx", shape="tail", vertical=1, part=0, reps=3, no_header=1)
    # ---- glyf
    for shape in GG.SIMPLE_SHAPES:
        for part in range(P):
            add("glyf", mode="simple", shape=shape, part=part, reps=6 * R, speed=0)
        add("glyf", mode="simple", shape=shape, part=99, reps=6 * R, speed=1)
    for shape in GG.COMPOSITE_SHAPES:
        for part in range(P):
            add("glyf", mode="composite", shape=shape, part=part, reps=6 * R, speed=0)
    # ---- glyf sizes around the 0x20000 loca switch (and small tables with odd glyph lengths)
    locs = [(0x20000 - 2, 0, 1), (0x20000, 0, 1), (0x20000 - 1, 1, 1), (0x20000 - 3, 1, 1), (0x20000 - 4, 2, 1),
            (0x20000 - 6, 3, 1), (0x20000 + 2, 0, 1), (0x20000 - 2, 0, 0), (0x20000 - 3, 1, 0), (0x20000 - 4, 0, 2),
            (0x20000 - 4, 0, 4), (0x20000, 0, 4), (3001, 3, 1), (3000, 0, 0), (3003, 1, 0), (3002, 2, 4),
            # unpadded odd-length glyphs with an even total: odd offsets inside, even last offset
            (3002, 2, 0), (3004, 4, 0), (0x20000 - 2, 2, 0), (0x20000 - 2, 2, 1), (0x20000 - 4, 4, 1)]
    if T_:
        locs += [(0x20000 + d, o, p) for d in (-12, -10, -8, -7, -5, 1, 3, 4, 6, 0x1000, 0x20000) for o in (0, 1, 2, 5) for p in (0, 1, 2, 4)]
    seen = set()
    for tgt, odd, pad in locs:
        if (tgt - odd) % 2:      # parity: `odd` glyphs of odd size, the rest even
            odd += 1
        if (tgt, odd, pad) in seen:
            continue
        seen.add((tgt, odd, pad))
        add("loca", target=tgt, odd=odd, padding=pad, glyphs=40 if tgt > 10000 else 7)
    # ---- name / kern / post / OS/2
    for shape in GM.NAME_SHAPES:
        for part in range(P):
            add("name", shape=shape, part=part, reps=3 * R if shape not in ("many", "long") else 2)
    for shape in GM.KERN_SHAPES:
        for part in range(1 if shape == "many" and not T_ else P):
            add("kern", shape=shape, part=part, reps=1 if shape == "many" else 3 * R)
    for shape in GM.POST_SHAPES:
        for part in range((2 if T_ else 1) if shape == "many" else P):
            add("post", shape=shape, part=part, reps=1 if shape == "many" else 3 * R)
    for version in range(6):
        for part in range(P):
            add("os2", version=version, part=part, reps=6 * R)
    # ---- Coverage / ClassDef / SingleSubst
    for shape in GO.SINGLE_SHAPES:
        for part in range(P):
            add("otl", what="single", shape=shape, part=part, reps=5 * R)
        add("otl", what="single", shape=shape, part=99, reps=4, extension=1)
    for shape in GO.COVERAGE_SHAPES:
        for part in range(P):
            add("otl", what="coverage", shape=shape, part=part, reps=5 * R)
    for shape in GO.CLASSDEF_SHAPES:
        for part in range(3 * P):
            add("otl", what="classdef", shape=shape, part=part, reps=1)
    # ---- pair adjustment lookups that overflow 16-bit offsets (subtable splitting by the pure-Python packer)
    add("pairpos", shape="classes_2split", part=0)
    add("pairpos", shape="classes_small", part=0)
    if T_:
        for shape in GO.PAIRPOS_SHAPES:
            for part in range(1, 3):
                add("pairpos", shape=shape, part=part)
        add("pairpos", shape="classes_2split", part=9, hb_repacker=1)
    # glyph ids up to 65534: struct reader and self-inverse only
    for what, shape in (("single", "wrap_delta"), ("single", "const_delta"), ("single", "random"), ("coverage", "boundary"),
                        ("coverage", "last_glyph"), ("classdef", "end_at_last"), ("classdef", "scattered")):
        for part in range(3 if T_ else 1):
            add("otl", what=what, shape=shape, part=part, reps=3, n=65535)
    # ---- variations
    for shape in GV.GVAR_SHAPES:
        for part in range(P):
            add("gvar", shape=shape, part=part, reps=2 * R, speed=0)
    for shape in ("mixed_runs", "word_runs", "some_points", "shared_points"):
        add("gvar", shape=shape, part=99, reps=2 * R, speed=1)
    if T_:
        for part in range(2):
            add("gvar", shape="long_offsets", part=part, reps=1, speed=0)
    # number of shareable peak tuples around the 12-bit shared-tuple index limit
    for k in ((4095, 4096, 4097, 5000, 9000) if T_ else (4097,)):
        add("gvar", shape="shared_tuple_count", k=k, part=0, reps=1, speed=0)
    # delta-set index maps: OR of inner / outer indices at 2^k-1, 2^k, 2^k+1, entry sizes 1..4, entry counts
    for shape in GV.IDXMAP_SHAPES:
        for host in ("HVAR", "VVAR", "COLR"):
            for part in range(P if host == "HVAR" else max(1, P // 2)):
                add("idxmap", shape=shape, host=host, part=part, reps=4 * R)
        add("idxmap", shape=shape, host="HVAR", part=90, reps=2, big=1)
    for count in ((65535, 65536, 65537) if T_ else (65536,)):
        add("idxmap", shape="random", host="COLR", part=91, reps=1, count=count)
    for part in range(P):
        add("dicttables", part=part, reps=6 * R)
    for shape in GV.FVAR_SHAPES:
        for part in range(P):
            add("fvar", shape=shape, part=part, reps=4 * R)
    for shape in GV.AVAR_SHAPES:
        for part in range(P):
            add("avar", shape=shape, part=part, reps=3 * R)
    # ---- COLR
    for shape in GCo.V0_SHAPES:
        for part in range(P):
            add("colr", version=0, shape=shape, part=part, reps=3 * R)
    for shape in GCo.V1_SHAPES:
        for part in range(1 if shape == "many_layers_256" and not T_ else P):
            add("colr", version=1, shape=shape, part=part, reps=1 if shape == "many_layers_256" else 4 if shape == "reuse_many" else 3 * R)
    return cs


def run_case(case, ctx):
    _cur["keys"] = set()
    _cur["n"] = 0
    _cur["notes"] = Counter()
    _cur["cap"] = {}
    _cur["disagree"] = []
    rnd = random.Random("%s/%s" % (case["id"], case["seed"]))
    try:
        globals()["drv_" + case["kind"]](case, rnd, ctx)
    finally:
        ctx.judged(_cur["n"])
        for k in _cur["keys"]:
            ctx.nontrivial(k)
        for k, v in _cur["notes"].items():
            if v:
                ctx.note(k, v)
        # Verdict discipline.  A report whose only basis is the struct reader ("reader sees other content") is withheld
        # (inconclusive) when an independent engine contradicted the reader on the same bytes and the library's own
        # decoder did not also report a difference for that table group: the reader may be the one that is wrong.
        # A self-inverse report (decompile(compile(x)) != x) refutes the property by itself and always stands.
        withheld = set(_cur["disagree"])
        reps = ctx.violations + hooks.take_reports()
        group = lambda r: _TABLE_GROUP.get(r["mech"].get("table"), r["mech"].get("table"))
        confirmed = {group(r) for r in reps if r["mech"].get("oracle") == "self-inverse" or r["mech"].get("kind") == "exception"}
        ctx.violations = []
        for r in reps:
            if r["mech"].get("oracle") == "reader" and group(r) in withheld and group(r) not in confirmed:
                ctx.inconclusive("reader-based verdict withheld, an independent engine contradicts the struct reader: " + r["what"][:300])
            else:
                ctx.violations.append(r)


def coverage_extra(results):
    """One written-out case per table kind (the runner's `samples` are the first finished cases only) and case counts."""
    by_kind, counts = {}, Counter()
    for r in results:
        kind = str(r.get("id", "")).split(":", 1)[0]
        counts[kind] += 1
        if r.get("sample") and kind not in by_kind:
            by_kind[kind] = r["sample"]
    return {"samples_by_kind": by_kind, "cases_by_kind": dict(sorted(counts.items()))}


REQUIRED_MONITORS = ["cmap0.compile", "cmap2.compile", "cmap4.compile", "cmap6.compile", "cmap12_13.compile",
                     "cmap14.compile", "cmap.compile", "hmtx.compile", "Glyph.compile", "glyf.compile", "loca.compile",
                     "name.compile", "kern0.compile", "kern.compile", "post.compile", "OS/2.compile",
                     "Coverage.preWrite", "ClassDef.preWrite", "SingleSubst.preWrite", "otTable.compile",
                     "TupleVariation.compile", "gvar.compile", "fvar.compile", "avar.compile", "COLR.compile", "buildCOLR",
                     "DeltaSetIndexMap.getEntryFormat", "xVAR.compile", "VORG.compile", "gasp.compile", "hdmx.compile"]
REQUIRED_SITES = [
    "cmap4.segment-idDelta", "cmap4.segment-idRangeOffset", "cmap4.splitRange-subranges", "cmap12_13.new-group", "cmap2.shared-subarray",
    "cmap14.default-uvs", "cmap14.nondefault-uvs", "hmtx.trim-step", "hmtx.all-advances-equal", "hmtx.trailing-side-bearings",
    "glyf.flag-repeat-extended", "glyf.x-short-vector", "glyf.x-long-vector", "glyf.y-short-vector", "glyf.y-long-vector",
    "glyf.pad-odd-glyphs-for-short-loca", "loca.short-format", "loca.long-format", "glyf.component.two-by-two",
    "glyf.component.offset-bytes", "glyf.component.offset-words", "name.shared-string", "post.standard-name-index",
    "post.new-extra-name", "Coverage.format2-chosen", "ClassDef.format1-chosen", "ClassDef.format2-chosen",
    "SingleSubst.format1-chosen", "TupleVariation.private-point-numbers", "TupleVariation.intermediate-region",
    "gvar.shared-point-numbers", "TupleVariation.zero-run-of-64", "TupleVariation.byte-run-of-64", "TupleVariation.word-run-of-64",
    "COLR.layer-reuse-slice", "PairPos.format2-overflow-split",
]


# =====================================================================================
# monitors, part 2: hmtx/vmtx, glyf/loca, name, kern, post, OS/2
# =====================================================================================
import math
import types


def _otr(x):
    """OpenType rounding written independently: floor(x + 1/2)."""
    return x if isinstance(x, int) else int(math.floor(x + 0.5))


def _rev_of(order):
    k = id(order)
    ent = _rev_cache.get(k)
    if ent is None or ent[0] is not order or ent[1] != len(order):
        if len(_rev_cache) > 8:
            _rev_cache.clear()
        ent = (order, len(order), {g: i for i, g in enumerate(order)})
        _rev_cache[k] = ent
    return ent[2]


class _Shim:
    """A stand-in font for decompiling one table: glyph order plus the few header
    values a decoder asks for."""
    lazy = None
    recalcBBoxes = False

    def __init__(self, order, **tables):
        self._order = order
        self._t = tables

    def getGlyphOrder(self):
        return self._order

    def getGlyphName(self, i):
        return self._order[i]

    def getGlyphID(self, n):
        return _rev_of(self._order)[n]

    def getReverseGlyphMap(self, rebuild=False):
        return _rev_of(self._order)

    def getGlyphNameMany(self, l):
        return [self._order[i] for i in l]

    def getGlyphIDMany(self, l):
        r = _rev_of(self._order)
        return [r[g] for g in l]

    def __getitem__(self, k):
        return self._t[k]

    def get(self, k, d=None):
        return self._t.get(k, d)

    def __contains__(self, k):
        return k in self._t

    def isLoaded(self, k):
        return k in self._t

    def keys(self):
        return list(self._t)


# ------------------------------------------------------------------ hmtx / vmtx
def _setup_hmtx():
    from fontTools.ttLib.tables import _h_m_t_x as M

    def post(state, a, kw, res, exc):
        if exc is not None:
            return
        tab, font = a[0], a[1]
        tag = tab.tableTag
        order = font.getGlyphOrder()
        n = len(order)
        header = font.get(tab.headerTag)
        nm = getattr(header, tab.numberOfMetricsName) if header is not None else n
        res = bytes(res)
        want = [(_otr(tab.metrics[g][0]), _otr(tab.metrics[g][1])) for g in order]
        _cur["cap"].setdefault(tag, []).append({"bytes": res, "nm": nm, "want": want})
        _judged()
        try:
            got = T.hmtx(res, nm, n)
        except T.Bad as e:
            _report(tag, "reader", "spec reader rejects the table", "%r numberOfMetrics=%d numGlyphs=%d len=%d" % (e, nm, n, len(res)))
            return
        if got != want:
            bad = [(i, w, g) for i, (w, g) in enumerate(zip(want, got)) if w != g][:4]
            _report(tag, "reader", "spec reader sees other metrics", {"numberOfMetrics": nm, "numGlyphs": n, "diff(index,want,got)": bad},
                    field="advance" if any(w[0] != g[0] for i, w, g in bad) else "sideBearing")
        if len(res) != 4 * nm + 2 * (n - nm):
            _report(tag, "reader", "table length is not 4*numberOfMetrics + 2*(numGlyphs-numberOfMetrics)", (len(res), nm, n), field="length")
        # self-inverse
        t2 = type(tab)()
        hdr = types.SimpleNamespace(**{tab.numberOfMetricsName: nm})
        shim = _Shim(order, maxp=types.SimpleNamespace(numGlyphs=n), **({tab.headerTag: hdr} if header is not None else {}))
        _judged()
        try:
            t2.decompile(res, shim)
        except Exception as e:
            _report(tag, "self-inverse", "decompile of compile output raised %s" % type(e).__name__, repr(e))
            return
        back = [tuple(t2.metrics[g]) for g in order]
        if back != want:
            _report(tag, "self-inverse", "decompile(compile(x)) != x", [(i, w, g) for i, (w, g) in enumerate(zip(want, back)) if w != g][:4])
        trimmed = n - nm
        _note("%s.glyphs-without-long-metric" % tag, trimmed)
        _note("%s.tables" % tag)
        maxadv = max(w[0] for w in want) if want else 0
        # is the trimming maximal? (not asserted, only observed)
        k = n
        while k > 1 and want[k - 2][0] == want[-1][0]:
            k -= 1
        _note("%s.trim-is-maximal" % tag, int(k == nm))
        _key("%s/trim%s/n%s/adv%s/hdr%d" % (tag, "all" if nm == 1 and n > 1 else _size_class(trimmed), _size_class(n),
                                           "hi" if maxadv > 32767 else "lo", header is not None))

    hooks.attach(M, "table__h_m_t_x.compile", post=post, name="hmtx.compile")
    f = M.table__h_m_t_x.compile
    _site("hmtx.trim-step", f, r"lastIndex -= 1")
    _site("hmtx.all-advances-equal", f, r"lastIndex = 1$")
    _site("hmtx.no-header-table", f, r'numberOfMetrics = ttFont\["maxp"\]')
    _site("hmtx.trailing-side-bearings", f, r"additionalMetrics = \[otRound")


_SETUPS.append(_setup_hmtx)

# ------------------------------------------------------------------ glyf / loca
_KEEP = 0x01 | 0x40 | 0x80
_CKEEP = T.COMPONENT_KEPT_FLAGS


def _q14(v):
    return int(math.floor(v * 16384 + 0.5))


def _want_glyph(glyph, rev):
    """Plain content of a library Glyph object (after expand)."""
    nc = glyph.numberOfContours
    if nc == 0:
        return {"kind": "empty"}
    if nc > 0:
        pts = [(_otr(x), _otr(y)) for x, y in glyph.coordinates]
        return {"kind": "simple", "points": pts, "flags": [f & _KEEP for f in glyph.flags], "endPts": list(glyph.endPtsOfContours),
                "instructions": bytes(glyph.program.getBytecode())}
    comps = []
    for c in glyph.components:
        d = {"gid": rev[c.glyphName], "kept_flags": c.flags & _CKEEP}
        if hasattr(c, "firstPt"):
            d["xy"], d["args"] = False, (c.firstPt, c.secondPt)
        else:
            d["xy"], d["args"] = True, (_otr(c.x), _otr(c.y))
        if hasattr(c, "transform"):
            (xx, xy), (yx, yy) = c.transform
            d["transform"] = (_q14(xx), _q14(xy), _q14(yx), _q14(yy))
        else:
            d["transform"] = None
        comps.append(d)
    return {"kind": "composite", "components": comps,
            "instructions": bytes(glyph.program.getBytecode()) if hasattr(glyph, "program") else None}


def _got_glyph(g):
    if g["kind"] != "composite":
        return {k: v for k, v in g.items() if k in ("kind", "points", "flags", "endPts", "instructions")}
    return {"kind": "composite", "instructions": g["instructions"],
            "components": [{k: c[k] for k in ("gid", "kept_flags", "xy", "args", "transform")} for c in g["components"]]}


def _glyph_diff(want, got):
    if want["kind"] != got["kind"]:
        return "kind", (want["kind"], got["kind"])
    for k in want:
        if want[k] != got.get(k):
            w, g = want[k], got.get(k)
            if isinstance(w, list) and isinstance(g, list):
                if len(w) != len(g):
                    return k, ("length", len(w), len(g))
                for i, (a, b) in enumerate(zip(w, g)):
                    if a != b:
                        return k, (i, a, b)
            return k, (w, g)
    return None


def _setup_glyf():
    from fontTools.ttLib.tables import _g_l_y_f as M, _l_o_c_a as L

    def pre_glyph(a, kw):
        return {"raw": hasattr(a[0], "data")}

    def post_glyph(state, a, kw, res, exc):
        if exc is not None or state is None:
            return
        glyph, glyf, recalc, optimize = a[0], a[1], a[2], a[4]
        if state["raw"] and not recalc:
            return
        res = bytes(res)
        _cur["cap"].setdefault("glyph_bytes", {})[id(glyph)] = res
        order = getattr(glyf, "glyphOrder", None)
        rev = _rev_of(order) if order is not None else {}
        want = _want_glyph(glyph, rev)
        _judged()
        try:
            g = T.glyph(res)
        except (T.Bad, struct.error, IndexError) as e:
            _report("glyf", "reader", "spec reader rejects the glyph", repr(e), field=want["kind"])
            return
        d = _glyph_diff(want, _got_glyph(g))
        if d:
            _report("glyf", "reader", "spec reader sees another glyph", {"field": d[0], "diff": d[1]}, field="%s.%s" % (want["kind"], d[0]))
        if want["kind"] == "empty":
            _key("glyf/empty")
            return
        if g.get("raw", g).get("used") != len(res):
            _report("glyf", "reader", "glyph data has trailing/missing bytes", (g.get("raw", g).get("used"), len(res)), field="length")
        hdr = (glyph.xMin, glyph.yMin, glyph.xMax, glyph.yMax) if hasattr(glyph, "xMin") else None
        if want["kind"] == "simple":
            pts = want["points"]
            if recalc and pts:
                bb = (min(p[0] for p in pts), min(p[1] for p in pts), max(p[0] for p in pts), max(p[1] for p in pts))
                if g["bbox"] != bb:
                    _report("glyf", "reader", "recalculated bounding box differs from the points' bounds", (g["bbox"], bb), field="bbox")
            elif hdr is not None and g["bbox"] != hdr:
                _report("glyf", "reader", "bounding box differs", (g["bbox"], hdr), field="bbox")
        # self-inverse
        _judged()
        try:
            g2 = M.Glyph(res)
            g2.expand(glyf)
            back = _want_glyph(g2, rev)
        except Exception as e:
            _report("glyf", "self-inverse", "decompile of compile output raised %s" % type(e).__name__, repr(e), field=want["kind"])
            return
        d = _glyph_diff(want, back)
        if d:
            _report("glyf", "self-inverse", "decompile(compile(x)) != x", {"field": d[0], "diff": d[1]}, field="%s.%s" % (want["kind"], d[0]))
        if want["kind"] == "simple":
            r = g["raw"]
            _note("glyf.simple-glyphs")
            _note("glyf.flag-repeat-runs", r["n_repeat"])
            if r["max_repeat"] == 255:
                _note("glyf.flag-repeat-count-255")
            for k in ("x_short", "x_same", "x_long", "y_short", "y_same", "y_long"):
                _note("glyf.%s" % k.replace("_", "-"), r[k])
            _key("glyf/s/r%s/x%s%s%s/y%s%s%s/n%s/o%d" % (
                "255" if r["max_repeat"] == 255 else "1" if r["n_repeat"] else "0",
                "s" if r["x_short"] else "", "z" if r["x_same"] else "", "l" if r["x_long"] else "",
                "s" if r["y_short"] else "", "z" if r["y_same"] else "", "l" if r["y_long"] else "",
                _size_class(len(want["points"])), bool(optimize)))
        else:
            _note("glyf.composite-glyphs")
            for c in g["components"]:
                tr = c["transform"]
                form = "none" if tr is None else "2x2" if c["flags"] & T.HAVE_2X2 else "xy" if c["flags"] & T.HAVE_XY_SCALE else "scale"
                _note("glyf.component.transform-%s" % form)
                _note("glyf.component.args-%s-%s" % ("xy" if c["xy"] else "points", "words" if c["words"] else "bytes"))
                _key("glyf/c/%s/%s%s/i%d" % (form, "xy" if c["xy"] else "pt", "w" if c["words"] else "b", want["instructions"] is not None))

    hooks.attach(M, "Glyph.compile", pre=pre_glyph, post=post_glyph, name="Glyph.compile")

    def post_glyf(state, a, kw, res, exc):
        if exc is not None:
            return
        tab, font = a[0], a[1]
        res = bytes(res)
        if "loca" not in font:
            return
        locs = list(font["loca"].locations)
        order = tab.glyphOrder
        _judged()
        if len(locs) != len(order) + 1:
            _report("glyf", "reader", "loca entry count != numGlyphs + 1", (len(locs), len(order)), field="loca")
            return
        total = locs[-1]
        if total != len(res) and not (total == 0 and res == b"\0"):
            _report("glyf", "reader", "last loca offset != glyf length", (total, len(res)), field="loca")
        gb = _cur["cap"].get("glyph_bytes", {})
        padded = 0
        bad = []
        for i, name in enumerate(order):
            sl = res[locs[i]:locs[i + 1]]
            own = gb.get(id(tab.glyphs[name]))
            if own is None:
                continue
            if sl[:len(own)] != own or any(sl[len(own):]) or len(sl) - len(own) > 3:
                bad.append((i, len(own), len(sl)))
            elif len(sl) != len(own):
                padded += 1
        if bad:
            _report("glyf", "reader", "glyph slice delimited by loca is not the glyph's data plus zero padding", bad[:4], field="loca")
        _cur["cap"]["glyf"] = {"bytes": res, "locs": locs}
        odd = any(l % 2 for l in locs)
        _note("glyf.tables")
        _note("glyf.glyphs-padded", padded)
        _key("glyf/t/%s/pad%d/odd%d/p%d" % ("ge20000" if total >= 0x20000 else "ge1fff0" if total >= 0x1FFF0 else "lt", bool(padded), odd, tab.padding))

    hooks.attach(M, "table__g_l_y_f.compile", post=post_glyf, name="glyf.compile")

    def post_loca(state, a, kw, res, exc):
        if exc is not None:
            return
        tab, font = a[0], a[1]
        res = bytes(res)
        fmt = font["head"].indexToLocFormat
        want = list(tab.locations)
        _judged()
        try:
            got = T.loca(res, fmt)
        except T.Bad as e:
            _report("loca", "reader", "spec reader rejects the table", repr(e), format=fmt)
            return
        if got != want:
            _report("loca", "reader", "spec reader sees other offsets",
                    [(i, w, g) for i, (w, g) in enumerate(zip(want, got)) if w != g][:4] or (len(want), len(got)), format=fmt)
        t2 = L.table__l_o_c_a()
        shim = _Shim([], head=types.SimpleNamespace(indexToLocFormat=fmt), maxp=types.SimpleNamespace(numGlyphs=len(want) - 1))
        _judged()
        try:
            t2.decompile(res, shim)
            back = list(t2.locations)
        except Exception as e:
            _report("loca", "self-inverse", "decompile of compile output raised %s" % type(e).__name__, repr(e), format=fmt)
            return
        if back != want:
            _report("loca", "self-inverse", "decompile(compile(x)) != x", [(i, w, g) for i, (w, g) in enumerate(zip(want, back)) if w != g][:4], format=fmt)
        mx = max(want) if want else 0
        _note("loca.%s" % ("long" if fmt else "short"))
        _cur["cap"]["loca"] = {"format": fmt, "max": mx}
        _key("loca/%s/%s/odd%d" % ("long" if fmt else "short",
                                   "ge20000" if mx >= 0x20000 else "1fffe" if mx == 0x1FFFE else "ge1ff00" if mx >= 0x1FF00 else "lt",
                                   any(l % 2 for l in want)))

    hooks.attach(L, "table__l_o_c_a.compile", post=post_loca, name="loca.compile")

    g = M.Glyph.compileDeltasGreedy
    _site("glyf.flag-repeat-extended", g, r"compressedFlags\[-2\] = flag \| flagRepeat")
    _site("glyf.flag-repeat-started", g, r"compressedFlags\.append\(flag\)$")
    _site("glyf.x-short-vector", g, r"compressedXs\.append\(x\)")
    _site("glyf.x-long-vector", g, r"compressedXs\.extend")
    _site("glyf.y-short-vector", g, r"compressedYs\.append\(y\)")
    _site("glyf.y-long-vector", g, r"compressedYs\.extend")
    _site("glyf.x-negative-short", g, r"x = -x")
    _site("glyf.speed-encoder", M.Glyph.compileDeltasForSpeed, r"xZero = ")
    t = M.table__g_l_y_f.compile
    _site("glyf.pad-odd-glyphs-for-short-loca", t, r'dataList\[i\] \+= b"\\0"')
    _site("glyf.all-glyphs-empty", t, r'data = b"\\0"')
    _site("glyf.explicit-padding", t, r"glyphData = pad\(glyphData")
    lc = L.table__l_o_c_a.compile
    _site("loca.short-format", lc, r"indexToLocFormat = 0")
    _site("loca.long-format", lc, r"indexToLocFormat = 1")
    c = M.GlyphComponent.compile
    _site("glyf.component.anchor-points-bytes", c, r'">BB", self\.firstPt')
    _site("glyf.component.anchor-points-words", c, r'">HH", self\.firstPt')
    _site("glyf.component.offset-bytes", c, r'">bb", x, y')
    _site("glyf.component.offset-words", c, r'">hh", x, y')
    _site("glyf.component.two-by-two", c, r"flags \| WE_HAVE_A_TWO_BY_TWO")
    _site("glyf.component.xy-scale", c, r"flags \| WE_HAVE_AN_X_AND_Y_SCALE")
    _site("glyf.component.scale", c, r"flags \| WE_HAVE_A_SCALE")


_SETUPS.append(_setup_glyf)

# ------------------------------------------------------------------ name
# OpenType 'name' platform/encoding -> decoder, written from the spec's encoding tables
# (independent of fontTools.misc.encodingTools); None = UTF-16BE decoded by oracle/tables.py
_MAC_LANG_CODEC = {15: "mac_iceland", 17: "mac_turkish", 18: "mac_croatian", 37: "mac_romanian"}
_MAC_LANG_CODEC.update({l: "mac_latin2" for l in (24, 25, 26, 27, 28, 36, 38, 39, 40)})


def _name_decoder(p, e, l):
    if p == 0 or (p == 3 and e in (0, 1, 10)) or (p == 2 and e == 1):
        return "utf-16"
    if p == 1:
        if e == 0:
            return _MAC_LANG_CODEC.get(l, "mac_roman")
        return {6: "mac_greek", 7: "mac_cyrillic", 29: "mac_latin2", 35: "mac_turkish", 37: "mac_iceland"}.get(e)
    if p == 3:
        return {2: "shift_jis", 3: "gb2312", 4: "big5", 5: "euc_kr", 6: "johab"}.get(e)
    if p == 2:
        return {0: "ascii", 2: "latin-1"}.get(e)
    return None


def _decode_name(b, codec):
    if codec == "utf-16":
        return "".join(map(chr, T.utf16be_decode(b)))
    return b.decode(codec)


def _setup_name():
    from fontTools.ttLib.tables import _n_a_m_e as M

    def post(state, a, kw, res, exc):
        if exc is not None:
            return
        tab, font = a[0], a[1]
        res = bytes(res)
        _judged()
        try:
            got = T.name(res)
        except (T.Bad, struct.error) as e:
            _report("name", "reader", "spec reader rejects the table", repr(e))
            return
        _cur["cap"]["name"] = {"bytes": res, "reader": got}
        recs = got["records"]
        keys = [(p, e, l, n) for p, e, l, n, s in recs]
        want_keys = sorted((r.platformID, r.platEncID, r.langID, r.nameID) for r in tab.names)
        if keys != want_keys:
            _report("name", "reader", "name records differ or are not sorted (platform, encoding, language, name id)",
                    [k for k in want_keys if k not in keys][:3] + [k for k in keys if k not in want_keys][:3], field="records")
            return
        bykey = {}
        for k, rec in zip(keys, recs):
            bykey.setdefault(k, []).append(rec[4])
        astral = False
        bad = []
        for r in tab.names:
            k = (r.platformID, r.platEncID, r.langID, r.nameID)
            raw = bykey[k][0]
            if isinstance(r.string, bytes):
                if r.string not in bykey[k]:
                    bad.append((k, r.string[:20], raw[:20]))
                continue
            codec = _name_decoder(*k[:3])
            if codec is None:
                continue
            try:
                cands = [_decode_name(b, codec) for b in bykey[k]]
            except (T.Bad, UnicodeDecodeError) as e:
                bad.append((k, r.string[:20], "undecodable: %r" % e))
                continue
            if r.string not in cands:
                bad.append((k, r.string[:20], cands[0][:20]))
            astral = astral or any(ord(c) > 0xFFFF for c in r.string)
        if bad:
            _report("name", "reader", "spec reader decodes another string", bad[:3], field="string")
        # self-inverse
        t2 = M.table__n_a_m_e()
        _judged()
        try:
            t2.decompile(res, font)
            back = sorted(((r.platformID, r.platEncID, r.langID, r.nameID), r.toUnicode()) for r in t2.names)
        except Exception as e:
            _report("name", "self-inverse", "decompile of compile output raised %s" % type(e).__name__, repr(e))
            return
        mine = sorted(((r.platformID, r.platEncID, r.langID, r.nameID),
                       r.string if isinstance(r.string, str) else r.toUnicode()) for r in tab.names)
        if back != mine:
            _report("name", "self-inverse", "decompile(compile(x)) != x", [(w, g) for w, g in zip(mine, back) if w != g][:3] or (len(mine), len(back)),
                    field="string")
        spans = got["spans"]
        shared = len(spans) - len(set(spans))
        _note("name.tables")
        _note("name.records", len(recs))
        _note("name.records-sharing-string-storage", shared)
        plats = "".join(sorted({str(k[0]) for k in keys}))
        _key("name/p%s/share%d/astral%d/n%s" % (plats, bool(shared), astral, _size_class(len(recs))))

    hooks.attach(M, "table__n_a_m_e.compile", post=post, name="name.compile")
    _site("name.shared-string", M.table__n_a_m_e.compile, r"name\.offset, name\.length = done\[string\]$")
    _site("name.new-string", M.table__n_a_m_e.compile, r"stringData = bytesjoin")


_SETUPS.append(_setup_name)


# ------------------------------------------------------------------ kern
def _setup_kern():
    from fontTools.ttLib.tables import _k_e_r_n as M

    def post_sub(state, a, kw, res, exc):
        if exc is not None:
            return
        st, font = a[0], a[1]
        res = bytes(res)
        rev = _rev(font)
        want = sorted((rev[l], rev[r], v) for (l, r), v in st.kernTable.items())
        wrap = (struct.pack(">LL", 0x00010000, 1) if st.apple else struct.pack(">HH", 0, 1)) + res
        _judged()
        try:
            k = T.kern(wrap)["subtables"][0]
        except (T.Bad, struct.error, IndexError) as e:
            _report("kern", "reader", "spec reader rejects the subtable", repr(e), format=0)
            return
        _cur["cap"].setdefault("kern", []).append({"bytes": res, "reader": k})
        if k["pairs"] != want:
            _report("kern", "reader", "spec reader sees other pairs (or unsorted)",
                    [(w, g) for w, g in zip(want, k["pairs"]) if w != g][:3] or (len(want), len(k["pairs"])), format=0, field="pairs")
        if k["coverage"] != st.coverage or k["format"] != 0 or (st.apple and k["tupleIndex"] != (st.tupleIndex or 0)):
            _report("kern", "reader", "subtable header differs", (k["coverage"], k["format"], k["tupleIndex"]), format=0, field="header")
        if not k.get("length_overflow") and k["length"] != len(res):
            _report("kern", "reader", "subtable length field differs", (k["length"], len(res)), format=0, field="length")
        s2 = M.KernTable_format_0(st.apple)
        _judged()
        try:
            if not st.apple and k.get("length_overflow"):
                # the library recovers the real length at table level (single subtable rule)
                t2 = M.table__k_e_r_n()
                t2.decompile(struct.pack(">HH", 0, 1) + res, font)
                s2 = t2.kernTables[0]
            else:
                s2.decompile(res, font)
        except Exception as e:
            _report("kern", "self-inverse", "decompile of compile output raised %s" % type(e).__name__, repr(e), format=0)
            return
        if s2.kernTable != st.kernTable or s2.coverage != st.coverage or (st.apple and s2.tupleIndex != (st.tupleIndex or 0)):
            _report("kern", "self-inverse", "decompile(compile(x)) != x", _dictdiff(st.kernTable, s2.kernTable) or (s2.coverage, s2.tupleIndex), format=0)
        _note("kern.subtables")
        _note("kern.pairs", len(want))
        if k.get("length_overflow"):
            _note("kern.length-field-overflow")
        _key("kern/%s/n%s/ovf%d/cov%d" % ("apple" if st.apple else "ot", _size_class(len(want)), bool(k.get("length_overflow")), st.coverage))

    hooks.attach(M, "KernTable_format_0.compile", post=post_sub, name="kern0.compile")

    def post_tab(state, a, kw, res, exc):
        if exc is not None:
            return
        tab = a[0]
        _judged()
        try:
            k = T.kern(bytes(res))
        except (T.Bad, struct.error, IndexError) as e:
            _report("kern", "reader", "spec reader rejects the table", repr(e))
            return
        nt = len(getattr(tab, "kernTables", []))
        if len(k["subtables"]) != nt or k["version"] != tab.version:
            _report("kern", "reader", "table header differs", (k["version"], len(k["subtables"]), tab.version, nt), field="header")
        _cur["cap"]["kern_table"] = k

    hooks.attach(M, "table__k_e_r_n.compile", post=post_tab, name="kern.compile")
    _site("kern.apple-header", M.KernTable_format_0.compile, r'">LBBH", length')
    _site("kern.length-overflow", M.KernTable_format_0.compile, r"length &= 0xFFFF")


_SETUPS.append(_setup_kern)


# ------------------------------------------------------------------ post
def _setup_post():
    from fontTools.ttLib.tables import _p_o_s_t as M

    hdr_fields = ("underlinePosition", "underlineThickness", "isFixedPitch", "minMemType42", "maxMemType42", "minMemType1", "maxMemType1")

    def post(state, a, kw, res, exc):
        if exc is not None:
            return
        tab, font = a[0], a[1]
        res = bytes(res)
        _judged()
        try:
            got = T.post(res)
        except (T.Bad, struct.error, IndexError) as e:
            _report("post", "reader", "spec reader rejects the table", repr(e))
            return
        _cur["cap"]["post"] = {"bytes": res, "reader": got}
        fmt = tab.formatType
        if got["version"] != int(math.floor(fmt * 65536 + 0.5)):
            _report("post", "reader", "version differs", (hex(got["version"]), fmt), field="version")
        bad = [(k, getattr(tab, k), got[k]) for k in hdr_fields if got[k] != getattr(tab, k)]
        ia = int(math.floor(tab.italicAngle * 65536 + 0.5))
        if got["italicAngle"] != ia:
            bad.append(("italicAngle", ia, got["italicAngle"]))
        if bad:
            _report("post", "reader", "header field differs", bad[:3], field=bad[0][0])
        order = font.getGlyphOrder()
        if fmt == 2.0:
            want = [tab.mapping.get(g, g) for g in order]
            if got["names"] != want:
                _report("post", "reader", "spec reader sees other glyph names",
                        [(i, w, g) for i, (w, g) in enumerate(zip(want, got["names"])) if w != g][:3] or (len(want), len(got["names"])), field="names")
            _note("post.names-from-standard-list", got["numStandard"])
            _note("post.names-stored-as-strings", got["numStrings"])
        t2 = M.table__p_o_s_t()
        shim = _Shim(order, maxp=types.SimpleNamespace(numGlyphs=len(order)))
        _judged()
        try:
            t2.decompile(res, shim)
        except Exception as e:
            _report("post", "self-inverse", "decompile of compile output raised %s" % type(e).__name__, repr(e))
            return
        bad = [(k, getattr(tab, k), getattr(t2, k)) for k in hdr_fields + ("formatType",) if getattr(tab, k) != getattr(t2, k)]
        if abs(t2.italicAngle - ia / 65536) > 0:
            bad.append(("italicAngle", ia / 65536, t2.italicAngle))
        if fmt == 2.0:
            ps = [t2.mapping.get(g, g) for g in t2.glyphOrder]
            if ps != [tab.mapping.get(g, g) for g in order]:
                bad.append(("names", None, [(i, w, g) for i, (w, g) in enumerate(zip(order, ps)) if w != g][:3]))
            if len(set(order)) == len(order) and all(order) and not tab.mapping and list(t2.glyphOrder) != list(order):
                bad.append(("glyphOrder", None, [(i, w, g) for i, (w, g) in enumerate(zip(order, t2.glyphOrder)) if w != g][:3]))
        if bad:
            _report("post", "self-inverse", "decompile(compile(x)) != x", bad[:3], field=bad[0][0])
        _note("post.tables")
        _key("post/f%s/std%d/str%s" % (fmt, bool(got.get("numStandard")), _size_class(got.get("numStrings", 0))))

    hooks.attach(M, "table__p_o_s_t.compile", post=post, name="post.compile")
    e = M.table__p_o_s_t.encode_format_2_0
    _site("post.standard-name-index", e, r"index = standardGlyphOrder\.index")
    _site("post.new-extra-name", e, r"extraNames\.append\(psName\)")
    _site("post.mapped-ps-name", e, r"psName = self\.mapping\[glyphName\]")


_SETUPS.append(_setup_post)


# ------------------------------------------------------------------ OS/2
def _setup_os2():
    from fontTools.ttLib.tables import O_S_2f_2 as M

    pan = ("bFamilyType", "bSerifStyle", "bWeight", "bProportion", "bContrast", "bStrokeVariation", "bArmStyle",
           "bLetterForm", "bMidline", "bXHeight")

    def want_of(tab, reader):
        w = {}
        for k in reader:
            if k.startswith("_"):
                continue
            if k == "panose":
                w[k] = bytes(getattr(tab.panose, f) for f in pan)
            elif k == "achVendID":
                v = tab.achVendID
                w[k] = v.encode("latin-1") if isinstance(v, str) else bytes(v)
            elif k.endswith("OpticalPointSize"):
                w[k] = int(math.floor(getattr(tab, k) * 20 + 0.5))
            else:
                w[k] = getattr(tab, k)
        return w

    def post(state, a, kw, res, exc):
        if exc is not None:
            return
        tab, font = a[0], a[1]
        res = bytes(res)
        _judged()
        try:
            got = T.os2(res)
        except (T.Bad, struct.error) as e:
            _report("OS/2", "reader", "spec reader rejects the table", repr(e), format=getattr(tab, "version", None))
            return
        _cur["cap"]["OS/2"] = {"bytes": res, "reader": got}
        if got["_size"] != len(res):
            _report("OS/2", "reader", "table length does not match its version", (got["version"], got["_size"], len(res)), field="length")
        want = want_of(tab, got)
        bad = [(k, want[k], got[k]) for k in want if want[k] != got[k]]
        if bad:
            _report("OS/2", "reader", "spec reader sees other field values", bad[:4], format=tab.version, field=bad[0][0])
        t2 = M.table_O_S_2f_2()
        _judged()
        try:
            t2.decompile(res, font)
            back = want_of(t2, got)
        except Exception as e:
            _report("OS/2", "self-inverse", "decompile of compile output raised %s" % type(e).__name__, repr(e), format=tab.version)
            return
        bad = [(k, want[k], back[k]) for k in want if want[k] != back[k]]
        if bad:
            _report("OS/2", "self-inverse", "decompile(compile(x)) != x", bad[:4], format=tab.version, field=bad[0][0])
        _note("OS/2.tables")
        _key("OS/2/v%d/cmap%d" % (tab.version, "cmap" in font))

    hooks.attach(M, "table_O_S_2f_2.compile", post=post, name="OS/2.compile")
    c = M.table_O_S_2f_2.compile
    _site("OS/2.version-0", c, r"sstruct\.pack\(OS2_format_0, self\)")
    _site("OS/2.version-1", c, r"sstruct\.pack\(OS2_format_1, self\)")
    _site("OS/2.version-2-4", c, r"sstruct\.pack\(OS2_format_2, self\)")
    _site("OS/2.version-5", c, r"sstruct\.pack\(OS2_format_5, d\)")
    _site("OS/2.char-index-from-cmap", M.table_O_S_2f_2.updateFirstAndLastCharIndex, r"self\.usFirstCharIndex = min")


_SETUPS.append(_setup_os2)


# =====================================================================================
# drivers, part 2
# =====================================================================================
def _mk_glyph(desc, names):
    """Library Glyph object from a plain description (vmon/gen/c02_glyf.py)."""
    from fontTools.ttLib.tables._g_l_y_f import Glyph, GlyphComponent, GlyphCoordinates
    from fontTools.ttLib.tables import ttProgram

    g = Glyph()
    if desc["kind"] == "simple":
        cs = [c for c in desc["contours"] if c]
        g.numberOfContours = len(cs)
        if not cs:
            return g
        pts, flags, ends = [], bytearray(), []
        for c in cs:
            for x, y, on in c:
                pts.append((x, y))
                flags.append((1 if on else 0) | (0x80 if desc.get("cubic") and not on else 0))
            ends.append(len(pts) - 1)
        if desc.get("overlap"):
            flags[0] |= 0x40
        g.coordinates = GlyphCoordinates(pts)
        g.flags = flags
        g.endPtsOfContours = ends
        g.program = ttProgram.Program()
        g.program.fromBytecode(desc.get("instructions", b""))
        return g
    g.numberOfContours = -1
    g.components = []
    for c in desc["components"]:
        gc = GlyphComponent()
        gc.glyphName = names[c["glyph"]]
        if "firstPt" in c:
            gc.firstPt, gc.secondPt = c["firstPt"], c["secondPt"]
        else:
            gc.x, gc.y = c["x"], c["y"]
        if c["transform"] is not None:
            gc.transform = [list(c["transform"][0]), list(c["transform"][1])]
        gc.flags = c["flags"]
        g.components.append(gc)
    if desc.get("instructions") is not None:
        g.program = ttProgram.Program()
        g.program.fromBytecode(desc["instructions"])
    return g


_TRI = {"kind": "simple", "contours": [[(10, 0, True), (60, 0, True), (30, 50, True)]], "instructions": b""}


def _build(names, descs, metrics=None, vmetrics=None, cmap=None, recalc=True, speed=False, post=True, upem=1000,
           glyph_data_format=0):
    """FontBuilder font around generated glyph descriptions."""
    from fontTools.fontBuilder import FontBuilder
    from fontTools import ttLib

    fb = FontBuilder(upem, isTTF=True, glyphDataFormat=glyph_data_format)
    fb.setupGlyphOrder(list(names))
    fb.setupCharacterMap(dict(cmap or {}))
    glyphs = {n: _mk_glyph(d, names) for n, d in zip(names, descs)}
    fb.setupGlyf(glyphs, validateGlyphFormat=False)
    # lsb = xMin: rasterisers shift a glyph by (lsb - xMin), so outlines are only comparable when they agree
    fb.setupHorizontalMetrics(metrics or {n: (500, getattr(glyphs[n], "xMin", 0)) for n in names})
    fb.setupHorizontalHeader(ascent=800, descent=-200)
    if vmetrics:
        fb.setupVerticalMetrics(vmetrics)
        fb.setupVerticalHeader()
    fb.setupNameTable({"familyName": "C02", "styleName": "Regular"}, mac=False)
    fb.setupPost(keepGlyphNames=post)
    fb.font.recalcBBoxes = recalc
    if speed:
        fb.font.cfg[ttLib.OPTIMIZE_FONT_SPEED] = True
    return fb


def _save(ctx, fb, op="TTFont.save", **extra):
    def go():
        b = io.BytesIO()
        fb.font.save(b)
        return b.getvalue()
    return _lib(ctx, op, go, **extra)


def _pua(names):
    return {0xF0000 + i: n for i, n in enumerate(names)}


# ------------------------------------------------------------------ hmtx / vmtx driver
def drv_hmtx(case, rnd, ctx):
    from fontTools.ttLib import newTable
    from vmon.gen import c02_misc as G
    import freetype

    shape, vertical = case["shape"], case["vertical"]
    tag = "vmtx" if vertical else "hmtx"
    for rep in range(case["reps"]):
        n = rnd.choice([1, 2, 3, 5, 17, 40]) if rnd.random() < 0.9 else 300
        mets = G.gen_metrics(rnd, shape, n)
        n = len(mets)
        names = _names(n)
        if ctx.sample is None:
            ctx.sample = {"kind": tag, "shape": shape, "numGlyphs": n, "metrics_head": mets[:3], "metrics_tail": mets[-3:]}
        if case.get("no_header"):
            # documented fallback: without hhea/vhea every glyph gets a long metric
            tab = newTable(tag)
            tab.metrics = {nm: m for nm, m in zip(names, mets)}
            shim = _Shim(names, maxp=types.SimpleNamespace(numGlyphs=n))
            _lib(ctx, "%s.compile" % tag, tab.compile, shim, table=tag)
            continue
        other = [(500 + i, i) for i in range(n)]
        descs = [dict(_TRI) for _ in names]
        fb = _build(names, descs, metrics={nm: (m if not vertical else o) for nm, m, o in zip(names, mets, other)},
                    vmetrics=({nm: m for nm, m in zip(names, mets)} if vertical else None), recalc=False)
        # set the generated values verbatim (setupMetrics applies Python round())
        fb.font[tag].metrics = {nm: m for nm, m in zip(names, mets)}
        _cur["cap"].pop(tag, None)
        ok, data = _save(ctx, fb, table=tag)
        if not ok:
            continue
        cap = (_cur["cap"].get(tag) or [None])[-1]
        if cap is None:
            ctx.inconclusive("%s monitor saw no compile" % tag)
            continue
        tabs = T.sfnt_tables(data)
        if tabs[tag] != cap["bytes"]:
            ctx.inconclusive("saved %s bytes differ from what the monitor saw" % tag)
            continue
        # header count as written into the file (independent read of hhea/vhea)
        nm_file = T.hhea(tabs["vhea" if vertical else "hhea"])["numberOfMetrics"]
        ctx.judged()
        if nm_file != cap["nm"]:
            _semantic(ctx, tag, "reader", "numberOfMetrics in the saved header differs from the one used for the table", (nm_file, cap["nm"]))
            continue
        # engines are cross-checked with the struct reader's parse of the saved bytes (the bytes are judged
        # against the content by the monitor)
        try:
            want = T.hmtx(tabs[tag], nm_file, n)
        except T.Bad:
            continue
        ft = _ft(data)
        hb = _hb(data)
        bad_ft, bad_hb = [], []
        for gid in range(n):
            ft.face.load_glyph(gid, freetype.FT_LOAD_NO_SCALE | freetype.FT_LOAD_NO_HINTING)
            m = ft.face.glyph.metrics
            got = (m.vertAdvance, m.vertBearingY) if vertical else (m.horiAdvance, m.horiBearingX)
            if got != want[gid]:
                bad_ft.append((gid, want[gid], got))
            if want[gid][0] <= 32767:
                adv = -hb.v_advance(gid) if vertical else hb.h_advance(gid)
                if adv != want[gid][0]:
                    bad_hb.append((gid, want[gid][0], adv))
                if not vertical:
                    ex = hb.font.get_glyph_extents(gid)
                    if ex is not None and ex.x_bearing != want[gid][1]:
                        bad_hb.append((gid, "lsb", want[gid][1], ex.x_bearing))
        ctx.judged()
        _note("%s.freetype-glyphs-checked" % tag, n)
        if bad_ft and bad_hb and {b[0] for b in bad_ft} & {b[0] for b in bad_hb}:
            _semantic(ctx, tag, "harfbuzz+freetype", "both engines read other metrics than the struct reader", {"freetype": bad_ft[:3], "harfbuzz": bad_hb[:3]})
        elif bad_ft or bad_hb:
            _disagree(ctx, "%s engines vs struct reader" % tag, {"freetype": bad_ft[:3], "harfbuzz": bad_hb[:3]})


# ------------------------------------------------------------------ glyf drivers
def _expected_points(descs, idx, cache):
    """Independent TrueType composition model: -> (contours [[(x, y, on)]]) of glyph idx with
    float coordinates (components: x' = xx*x + yx*y + dx, y' = xy*x + yy*y + dy with F2Dot14-quantised
    matrix; anchor components: translate so that child point `secondPt` lands on parent point `firstPt`)."""
    if idx in cache:
        return cache[idx]
    d = descs[idx]
    if d["kind"] == "simple":
        out = [[(float(_otr(x)), float(_otr(y)), on) for x, y, on in c] for c in d["contours"] if c]
        cache[idx] = out
        return out
    out = []
    for c in d["components"]:
        child = _expected_points(descs, c["glyph"], cache)
        if c["transform"] is not None:
            (xx, xy), (yx, yy) = c["transform"]
            xx, xy, yx, yy = (_q14(v) / 16384.0 for v in (xx, xy, yx, yy))
        else:
            xx, xy, yx, yy = 1.0, 0.0, 0.0, 1.0
        tr = [[(xx * x + yx * y, xy * x + yy * y, on) for x, y, on in cont] for cont in child]
        if "firstPt" in c:
            parent = [p for cont in out for p in cont]
            kid = [p for cont in tr for p in cont]
            dx = parent[c["firstPt"]][0] - kid[c["secondPt"]][0]
            dy = parent[c["firstPt"]][1] - kid[c["secondPt"]][1]
        else:
            dx, dy = float(_otr(c["x"])), float(_otr(c["y"]))
        out.extend([[(x + dx, y + dy, on) for x, y, on in cont] for cont in tr])
    cache[idx] = out
    return out


def _descs_from_reader(gl):
    """Glyph descriptions (same shape as the generators') rebuilt from the struct reader's parse of glyf:
    the engines are compared with what the *bytes* say, the bytes with the content (monitors)."""
    out = []
    for g in gl:
        if g["kind"] == "empty":
            out.append({"kind": "simple", "contours": [], "instructions": b""})
        elif g["kind"] == "simple":
            cs, lo = [], 0
            for e in g["endPts"]:
                cs.append([(g["points"][i][0], g["points"][i][1], bool(g["flags"][i] & 1)) for i in range(lo, e + 1)])
                lo = e + 1
            out.append({"kind": "simple", "contours": cs, "instructions": g["instructions"]})
        else:
            comps = []
            for c in g["components"]:
                d = {"glyph": c["gid"], "flags": c["kept_flags"],
                     "transform": None if c["transform"] is None else ((c["transform"][0] / 16384.0, c["transform"][1] / 16384.0),
                                                                      (c["transform"][2] / 16384.0, c["transform"][3] / 16384.0))}
                if c["xy"]:
                    d["x"], d["y"] = c["args"]
                else:
                    d["firstPt"], d["secondPt"] = c["args"]
                comps.append(d)
            out.append({"kind": "composite", "components": comps, "instructions": g["instructions"]})
    return out


def _read_glyf(data):
    tabs = T.sfnt_tables(data)
    ng = T.maxp(tabs["maxp"])["numGlyphs"]
    offs = T.loca(tabs["loca"], T.head(tabs["head"])["indexToLocFormat"], ng)
    return T.glyf(tabs["glyf"], offs)


def _rec_of(contours):
    from vmon.oracle.hbft import _ft_contour_to_rec

    rec = []
    for c in contours:
        rec.extend(_ft_contour_to_rec([(x, y, on, False) for x, y, on in c]))
    return rec


def _check_outlines(ctx, data, gids, table="glyf", tol_hb=0.02, what="outline"):
    """Oracle cross-check: HarfBuzz and FreeType outlines against the independent composition model applied to
    the struct reader's parse of the saved glyf table."""
    hb = _hb(data)
    ft = _ft(data)
    try:
        descs = _descs_from_reader(_read_glyf(data))
    except T.Bad:
        return      # already reported
    expected = None
    cache = {}
    n_ok = 0
    for gid in gids:
        cont = expected[gid] if expected is not None else _expected_points(descs, gid, cache)
        rec = _rec_of(cont)
        ok_hb, stage, why = geom.outlines_match(hb.outline(gid), rec, tol_hb)
        simple_int = all(float(x).is_integer() and float(y).is_integer() for c in cont for x, y, on in c)
        try:
            fc, _adv = ft.outline_points(gid)
            ok_ft = None
            if simple_int:
                ok_ft = [[(x, y, on) for x, y, on, cub in c] for c in fc] == [[(int(x), int(y), on) for x, y, on in c] for c in cont]
            else:
                a = [(x, y, on) for c in fc for x, y, on, cub in c]
                b = [(x, y, on) for c in cont for x, y, on in c]
                ok_ft = len(a) == len(b) and all(p[2] == q[2] and abs(p[0] - q[0]) <= 1.0 and abs(p[1] - q[1]) <= 1.0 for p, q in zip(a, b))
        except Exception as e:   # FreeType refuses the glyph
            ok_ft = None
            why_ft = repr(e)
        ctx.judged()
        if ok_hb and ok_ft is not False:
            n_ok += 1
            continue
        detail = {"gid": gid, "harfbuzz": (ok_hb, why), "freetype": ok_ft, "expected_head": [c[:3] for c in cont[:2]]}
        if not ok_hb and ok_ft is False:
            _semantic(ctx, table, "harfbuzz+freetype", "both engines draw another %s than the struct reader sees in the bytes" % what, detail)
        else:
            _disagree(ctx, "%s %s: harfbuzz %s, freetype %s" % ("glyf" if table == "loca" else table, what, ok_hb, ok_ft), detail)
    _note("%s.outlines-confirmed-by-engines" % table, n_ok)


def drv_glyf(case, rnd, ctx):
    from vmon.gen import c02_glyf as G

    mode, shape = case["mode"], case["shape"]
    descs = [{"kind": "simple", "contours": [], "instructions": b""}]     # .notdef: empty
    if mode == "simple":
        for _ in range(case["reps"]):
            descs.append(G.gen_simple(rnd, shape))
        check = list(range(1, len(descs)))
    else:
        nb = 4
        for s in ("small", "small", "all_off", "many_contours" if shape == "anchor_words" else "small"):
            descs.append(G.gen_simple(rnd, s))
        pc = [sum(len(c) for c in d["contours"]) for d in descs]
        for _ in range(case["reps"]):
            nbase = len(descs) - 1 if shape == "nested" and len(descs) > nb + 1 else nb
            d = G.gen_composite(rnd, shape, nbase, pc)
            descs.append(d)
            # point count of a composite = sum of its components' point counts
            pc.append(sum(pc[c["glyph"]] for c in d["components"]))
        check = list(range(nb + 1, len(descs)))
    names = _names(len(descs))
    cubic = shape == "cubic"
    extreme = shape in ("extremes", "long_vectors", "offset_words", "scale", "xy_scale", "two_by_two")
    if ctx.sample is None:
        d = descs[check[0]]
        ctx.sample = {"kind": "glyf", "mode": mode, "shape": shape, "glyphs": len(descs),
                      "first": _short(d["contours"][0][:4] if mode == "simple" and d["contours"] else d.get("components", [])[:1], 300)}
    fb = _build(names, descs, recalc=not extreme, speed=bool(case.get("speed")), glyph_data_format=1 if cubic else 0)
    ok, data = _save(ctx, fb, table="glyf", shape=shape)
    if not ok:
        return
    cap = _cur["cap"].get("glyf")
    tabs = T.sfnt_tables(data)
    if cap is None or tabs["glyf"] != cap["bytes"]:
        ctx.inconclusive("glyf monitor saw no compile / other bytes")
        return
    # independent read of the *saved* loca+glyf against the content
    ctx.judged()
    try:
        offs = T.loca(tabs["loca"], T.head(tabs["head"])["indexToLocFormat"], len(names))
        gl = T.glyf(tabs["glyf"], offs)
    except T.Bad as e:
        _semantic(ctx, "glyf", "reader", "saved loca/glyf rejected by the spec reader", repr(e))
        return
    for gid in check:
        d, g = descs[gid], gl[gid]
        if d["kind"] == "simple":
            want = [(_otr(x), _otr(y)) for c in d["contours"] for x, y, on in c]
            if g["kind"] != "simple" or g["points"] != want or [f & 1 for f in g["flags"]] != [int(on) for c in d["contours"] for x, y, on in c]:
                _semantic(ctx, "glyf", "reader", "saved glyph differs from the generated content", {"gid": gid})
    if cubic:
        return
    skip_engines = mode == "composite" and shape == "flags"
    if not skip_engines:
        _check_outlines(ctx, data, check)


def drv_loca(case, rnd, ctx):
    """glyf tables whose total size sits around the 0x20000 short/long loca switch."""
    target, odd, padding = case["target"], case["odd"], case["padding"]
    from fontTools.ttLib import newTable
    # filler glyph: a triangle plus L instruction bytes; its compiled size is base + L
    probe = _mk_glyph(dict(_TRI), None)
    probe.xMin = probe.yMin = 0
    probe.xMax = probe.yMax = 60
    glyf0 = newTable("glyf")
    glyf0.glyphOrder, glyf0.glyphs = ["a"], {"a": probe}
    base = len(probe.compile(glyf0, recalcBBoxes=False))
    k = case["glyphs"]
    sizes = []
    remaining = target
    for i in range(k):
        left = k - i
        if left == 1:
            s = remaining
        else:
            s = remaining // left + rnd.choice([-6, -2, 0, 2, 4])
            s -= s % 2
            if i < odd:
                s += 1
        sizes.append(s)
        remaining -= s
    descs = [{"kind": "simple", "contours": [], "instructions": b""}]
    for s in sizes:
        d = dict(_TRI)
        d["instructions"] = bytes([0x4F]) * (s - base)
        descs.append(d)
    names = _names(len(descs))
    fb = _build(names, descs, recalc=False)
    fb.font["glyf"].padding = padding
    if ctx.sample is None:
        ctx.sample = {"kind": "loca", "target_glyf_size": hex(target), "glyphs": k, "odd_sized_glyphs": sum(1 for s in sizes if s % 2),
                      "padding": padding, "sizes_head": sizes[:4]}
    ok, data = _save(ctx, fb, table="loca")
    if not ok:
        return
    tabs = T.sfnt_tables(data)
    fmt = T.head(tabs["head"])["indexToLocFormat"]
    ctx.judged()
    try:
        offs = T.loca(tabs["loca"], fmt, len(names))
        gl = T.glyf(tabs["glyf"], offs)
    except T.Bad as e:
        _semantic(ctx, "loca", "reader", "saved loca/glyf rejected by the spec reader", repr(e), format=fmt)
        return
    bad = [i for i, (d, g) in enumerate(zip(descs, gl)) if d["contours"] and (g["kind"] != "simple" or g["instructions"] != d["instructions"]
                                                                           or g["points"] != [(10, 0), (60, 0), (30, 50)])]
    if bad:
        _semantic(ctx, "loca", "reader", "glyphs addressed through the saved loca differ from the content", {"format": fmt, "bad_gids": bad[:5]}, format=fmt)
    _note("loca.saved-format-%s" % ("long" if fmt else "short"))
    _note("loca.glyf-size-minus-0x20000=%+d" % (len(tabs["glyf"]) - 0x20000) if abs(len(tabs["glyf"]) - 0x20000) <= 4 else "loca.glyf-size-other")
    _check_outlines(ctx, data, [1, len(descs) // 2, len(descs) - 1], table="loca")


# ------------------------------------------------------------------ name driver
def drv_name(case, rnd, ctx):
    from fontTools.ttLib import newTable
    from fontTools.ttLib.tables._n_a_m_e import makeName
    from vmon.gen import c02_misc as G

    shape = case["shape"]
    for rep in range(case["reps"]):
        recs = G.gen_names(rnd, shape)
        tab = newTable("name")
        tab.names = []
        kept = []
        for p, e, l, nid, s, codec in recs:
            # precondition: the string is encodable in the record's encoding (Python's codec, not the library's)
            try:
                enc = s.encode("utf-16-be" if codec == "utf-16" else codec)
            except UnicodeEncodeError:
                s = "".join(c for c in s if _encodable(c, codec))
                enc = s.encode("utf-16-be" if codec == "utf-16" else codec)
            as_bytes = rnd.random() < 0.15
            tab.names.append(makeName(enc if as_bytes else s, nid, p, e, l))
            kept.append((p, e, l, nid, s, codec, enc))
        if ctx.sample is None:
            ctx.sample = {"kind": "name", "shape": shape, "records": len(kept),
                          "first": [(p, e, hex(l), nid, s[:12]) for p, e, l, nid, s, c, b in kept[:3]]}
        _cur["cap"].pop("name", None)
        ok, data = _lib(ctx, "name.compile", tab.compile, _order_font(3), table="name")
        if not ok:
            continue
        cap = _cur["cap"].get("name")
        if cap is None:
            continue
        # the generator's own expectation (bytes produced by Python's codecs) against the reader
        got = {(p, e, l, n): b for p, e, l, n, b in cap["reader"]["records"]}
        ctx.judged()
        bad = [(p, e, l, nid, s[:12]) for p, e, l, nid, s, codec, enc in kept if got.get((p, e, l, nid)) != enc]
        if bad:
            _semantic(ctx, "name", "reader", "stored bytes differ from the independent encoding of the string", bad[:3])
        # FreeType: raw sfnt name records; HarfBuzz: decoded English Windows names
        host = T.host_font(3, {"name": bytes(data)})
        ft = _ft(host)
        ftrecs = []
        for i in range(ft.face.sfnt_name_count):
            nmr = ft.face.get_sfnt_name(i)
            ftrecs.append((nmr.platform_id, nmr.encoding_id, nmr.language_id, nmr.name_id, bytes(nmr.string)))
        ctx.judged()
        nonempty = [r for r in cap["reader"]["records"] if r[4]]      # FreeType skips zero-length name strings
        if ftrecs != nonempty:
            _disagree(ctx, "name freetype vs struct reader", [(a, b) for a, b in zip(ftrecs, nonempty) if a != b][:2] or (len(ftrecs), len(nonempty)))
        _note("name.freetype-records-checked", len(ftrecs))
        hb = _hb(host)
        byid = {}
        for p, e, l, nid, raw in cap["reader"]["records"]:
            try:
                s = _decode_name(raw, _name_decoder(p, e, l) or "latin-1")
            except (T.Bad, UnicodeDecodeError):
                s = None
            byid.setdefault(nid, []).append((p, e, l, s))
        cnt = 0
        badhb = []
        for nid, lst in byid.items():
            if len(lst) == 1 and lst[0][0] == 3 and lst[0][1] in (1, 10) and lst[0][2] == 0x409 and lst[0][3]:
                g = hb.face.get_name(nid, "en")
                cnt += 1
                if g != lst[0][3]:
                    badhb.append((nid, lst[0][3][:20], g))
        if cnt:
            ctx.judged()
            _note("name.harfbuzz-strings-checked", cnt)
            if badhb:
                _disagree(ctx, "name harfbuzz vs struct reader", badhb[:3])


def _encodable(c, codec):
    try:
        c.encode("utf-16-be" if codec == "utf-16" else codec)
        return True
    except UnicodeEncodeError:
        return False


# ------------------------------------------------------------------ kern driver
def drv_kern(case, rnd, ctx):
    from fontTools.ttLib import newTable
    from fontTools.ttLib.tables._k_e_r_n import KernTable_format_0
    from vmon.gen import c02_misc as G
    import freetype

    shape = case["shape"]
    for rep in range(case["reps"]):
        n = rnd.choice([2, 5, 40, 200])
        if shape == "many":
            n = 300
        names = _names(n)
        k = G.gen_kern(rnd, shape, n)
        tab = newTable("kern")
        tab.version = k["version"]
        tab.kernTables = []
        for s in k["subtables"]:
            st = KernTable_format_0(apple=k["version"] == 1.0)
            st.coverage, st.tupleIndex = s["coverage"], s["tupleIndex"]
            items = list(s["pairs"].items())
            rnd.shuffle(items)
            st.kernTable = {(names[l], names[r]): v for (l, r), v in items}
            tab.kernTables.append(st)
        if ctx.sample is None:
            ctx.sample = {"kind": "kern", "shape": shape, "numGlyphs": n, "version": k["version"],
                          "subtables": [(s["coverage"], len(s["pairs"])) for s in k["subtables"]]}
        engines = k["version"] == 0 and all(s["coverage"] == 1 for s in k["subtables"]) and n <= 200
        if not engines:
            ok, data = _lib(ctx, "kern.compile", tab.compile, _order_font(n), table="kern")
            continue
        descs = [dict(_TRI) for _ in names]
        fb = _build(names, descs, cmap=_pua(names), recalc=True)
        fb.font["kern"] = tab
        ok, data = _save(ctx, fb, table="kern")
        if not ok:
            continue
        kt = _cur["cap"].get("kern_table")
        if kt is None:
            continue
        want = {}       # what the struct reader sees in the saved bytes (horizontal kerning subtables accumulate)
        for st_ in kt["subtables"]:
            if st_["format"] == 0 and st_["coverage"] == 1:
                for l, r, v in st_["pairs"]:
                    want[(l, r)] = want.get((l, r), 0) + v
        ft = _ft(data)
        hb = _hb(data)
        pairs = sorted(want)
        if len(pairs) > 300:
            pairs = rnd.sample(pairs, 300)
        probes_ = pairs + [(rnd.randrange(n), rnd.randrange(n)) for _ in range(20)]
        bad_ft, bad_hb = [], []
        for l, r in probes_:
            w = want.get((l, r), 0)
            # freetype-py's get_kerning() takes character codes and maps them through the cmap itself
            gft = ft.face.get_kerning(0xF0000 + l, 0xF0000 + r, freetype.FT_KERNING_UNSCALED).x
            if gft != w:
                bad_ft.append(((l, r), w, gft))
            sh = hb.shape([0xF0000 + l, 0xF0000 + r], {"kern": True})
            # HarfBuzz splits a kern value over the two glyphs' advances: the pair's total advance carries it
            ghb = sh[0][2] + sh[1][2] - 1000 if len(sh) == 2 else None
            if ghb != w:
                bad_hb.append(((l, r), w, ghb))
        ctx.judged()
        _note("kern.pairs-checked-by-engines", len(probes_))
        if bad_ft and bad_hb:
            _semantic(ctx, "kern", "harfbuzz+freetype", "both engines kern differently from what the struct reader sees", {"freetype": bad_ft[:3], "harfbuzz": bad_hb[:3]})
        elif bad_ft or bad_hb:
            _disagree(ctx, "kern engines vs struct reader", {"freetype": bad_ft[:3], "harfbuzz": bad_hb[:3]})


# ------------------------------------------------------------------ post driver
def drv_post(case, rnd, ctx):
    from vmon.gen import c02_misc as G

    shape = case["shape"]
    for rep in range(case["reps"]):
        n = rnd.choice([1, 2, 12, 60])
        p = G.gen_post(rnd, shape, n)
        names = p["names"]
        descs = [dict(_TRI) for _ in names]
        fb = _build(names, descs, post=p["formatType"] == 2.0, recalc=len(names) < 500)
        for k, v in p["header"].items():
            setattr(fb.font["post"], k, v)
        if p.get("mapping"):
            fb.font["post"].mapping = dict(p["mapping"])     # glyph name -> PostScript name stored in the table
        if ctx.sample is None:
            ctx.sample = {"kind": "post", "shape": shape, "formatType": p["formatType"], "numGlyphs": len(names), "names": names[:6],
                          "header": p["header"]}
        ok, data = _save(ctx, fb, table="post")
        if not ok:
            continue
        if p["formatType"] != 2.0:
            continue
        hb = _hb(data)
        ft = _ft(data)
        gids = list(range(len(names))) if len(names) <= 400 else rnd.sample(range(len(names)), 400)
        # both bindings return at most 63 characters (64-byte buffer)
        cap = _cur["cap"].get("post")
        if cap is None or cap["reader"]["names"] is None:
            continue
        ps = cap["reader"]["names"]          # engines vs struct reader; reader vs content is the monitor's verdict
        if len(ps) != len(names):
            continue
        bad_hb = [(g, ps[g], hb.font.get_glyph_name(g)) for g in gids if hb.font.get_glyph_name(g) != ps[g][:63]]
        bad_ft = [(g, ps[g], ft.glyph_name(g)) for g in gids if ft.glyph_name(g) != ps[g][:63]]
        ctx.judged()
        _note("post.names-checked-by-engines", len(gids))
        if bad_hb and bad_ft:
            _semantic(ctx, "post", "harfbuzz+freetype", "both engines read other glyph names", {"harfbuzz": bad_hb[:3], "freetype": bad_ft[:3]})
        elif bad_hb or bad_ft:
            _disagree(ctx, "post engines vs struct reader", {"harfbuzz": bad_hb[:3], "freetype": bad_ft[:3]})


# ------------------------------------------------------------------ OS/2 driver
_HB_OS2 = {"X_HEIGHT": "sxHeight", "CAP_HEIGHT": "sCapHeight", "SUBSCRIPT_EM_X_SIZE": "ySubscriptXSize",
           "SUBSCRIPT_EM_Y_SIZE": "ySubscriptYSize", "SUBSCRIPT_EM_X_OFFSET": "ySubscriptXOffset",
           "SUPERSCRIPT_EM_X_SIZE": "ySuperscriptXSize", "SUPERSCRIPT_EM_Y_SIZE": "ySuperscriptYSize",
           "SUPERSCRIPT_EM_X_OFFSET": "ySuperscriptXOffset", "SUPERSCRIPT_EM_Y_OFFSET": "ySuperscriptYOffset",
           "STRIKEOUT_SIZE": "yStrikeoutSize", "STRIKEOUT_OFFSET": "yStrikeoutPosition"}


def drv_os2(case, rnd, ctx):
    from fontTools.ttLib import newTable
    from fontTools.ttLib.tables.O_S_2f_2 import Panose
    from vmon.gen import c02_misc as G
    import uharfbuzz

    version = case["version"]
    pan = ("bFamilyType", "bSerifStyle", "bWeight", "bProportion", "bContrast", "bStrokeVariation", "bArmStyle",
           "bLetterForm", "bMidline", "bXHeight")
    for rep in range(case["reps"]):
        d = G.gen_os2(rnd, version)
        tab = newTable("OS/2")
        for k, v in d.items():
            if k == "panose":
                tab.panose = Panose(**dict(zip(pan, v)))
            elif k.endswith("OpticalPointSize"):
                setattr(tab, k, v / 20)
            else:
                setattr(tab, k, v)
        if ctx.sample is None:
            ctx.sample = {"kind": "OS/2", "version": version, "fields": {k: d[k] for k in list(d)[:8]}}
        with_font = rep % 2 == 1
        _cur["cap"].pop("OS/2", None)
        if not with_font:
            ok, data = _lib(ctx, "OS/2.compile", tab.compile, _Shim(_names(3)), table="OS/2", format=version)
            cap = _cur["cap"].get("OS/2")
            if ok and cap:
                ctx.judged()
                bad = [(k, d[k], cap["reader"][k]) for k in d if k not in ("panose", "achVendID") and cap["reader"][k] != d[k]]
                if bytes(d["panose"]) != cap["reader"]["panose"] or d["achVendID"].encode("latin-1") != cap["reader"]["achVendID"]:
                    bad.append(("panose/achVendID", d["panose"], cap["reader"]["panose"]))
                if bad:
                    _semantic(ctx, "OS/2", "reader", "compiled fields differ from the generated content", bad[:3], format=version)
            continue
        # inside a font with a Unicode cmap: usFirst/LastCharIndex are documented as recalculated from the cmap
        names = _names(4)
        codes = sorted(rnd.sample([0x20, 0x41, 0x7E, 0x3042, 0xFFFD, 0x1F600, 0x10FFFF, 0xE000], 3))
        fb = _build(names, [dict(_TRI) for _ in names], cmap={c: names[1 + i] for i, c in enumerate(codes)})
        fb.font["OS/2"] = tab
        ok, data = _save(ctx, fb, table="OS/2", format=version)
        cap = _cur["cap"].get("OS/2")
        if not ok or not cap:
            continue
        r = cap["reader"]
        ctx.judged()
        wantfl = (min(0xFFFF, codes[0]), min(0xFFFF, codes[-1]))
        bad = [(k, d[k], r[k]) for k in d if k not in ("panose", "achVendID", "usFirstCharIndex", "usLastCharIndex") and r[k] != d[k]]
        if (r["usFirstCharIndex"], r["usLastCharIndex"]) != wantfl:
            bad.append(("usFirst/LastCharIndex", wantfl, (r["usFirstCharIndex"], r["usLastCharIndex"])))
        if bad:
            _semantic(ctx, "OS/2", "reader", "compiled fields differ from the generated content", bad[:3], format=version)
        hb = _hb(data)
        badhb = []
        cnt = 0
        for tagname, field in _HB_OS2.items():
            if field not in d:
                continue
            v = hb.font.get_metric_position(getattr(uharfbuzz.OTMetricsTag, tagname))
            if v is None:
                continue
            cnt += 1
            if v != r[field]:
                badhb.append((field, r[field], v))
        ctx.judged()
        _note("OS/2.harfbuzz-metrics-checked", cnt)
        if badhb:
            _disagree(ctx, "OS/2 harfbuzz metrics vs struct reader", badhb[:4])


# =====================================================================================
# OpenType Layout: Coverage / ClassDef / SingleSubst (preWrite decisions) and GSUB / GDEF compile
# =====================================================================================
def _expand_coverage(raw, fmt, rev):
    """Independent expansion of what Coverage.preWrite hands to the writer: glyph ids ordered by
    coverage index (None if the indices are not a permutation of 0..n-1)."""
    if fmt == 1:
        return [rev[g] for g in raw["GlyphArray"]]
    idx = {}
    for r in raw["RangeRecord"]:
        for k, g in enumerate(range(rev[r.Start], rev[r.End] + 1)):
            idx[g] = r.StartCoverageIndex + k
    if sorted(idx.values()) != list(range(len(idx))):
        return None
    return sorted(idx, key=idx.__getitem__)


def _nranges(gids):
    g = sorted(gids)
    return (1 + sum(1 for a, b in zip(g, g[1:]) if b != a + 1)) if g else 0


def _gsub_content(table, rev):
    """Plain content of a GSUB object tree: per lookup the union of SingleSubst maps /
    context-format-3 coverages."""
    out = []
    ll = table.LookupList.Lookup if table.LookupList else []
    for lk in ll:
        ent = {"single": {}, "context3": [], "other": 0}
        for st in lk.SubTable:
            st = getattr(st, "ExtSubTable", st)
            if type(st).__name__ == "SingleSubst":
                for a, b in st.mapping.items():
                    ent["single"][rev[a]] = rev[b]
            elif type(st).__name__ == "ContextSubst" and getattr(st, "Format", None) == 3:
                ent["context3"].append(([[rev[g] for g in c.glyphs] for c in st.Coverage],
                                        [(r.SequenceIndex, r.LookupListIndex) for r in st.SubstLookupRecord]))
            else:
                ent["other"] += 1
        out.append(ent)
    return out


def _gsub_read(data, strict=True):
    out = []
    for lk in T.gsub_lookups(data, strict):
        ent = {"single": {}, "context3": [], "other": 0}
        for st in lk["subtables"]:
            if st["kind"] == "single":
                ent["single"].update(st["map"])
            elif st["kind"] == "context3":
                ent["context3"].append(([c[1] for c in st["coverages"]], st["records"]))
            else:
                ent["other"] += 1
        out.append(ent)
    return out


def _gdef_content(table, rev):
    g = lambda cd: {rev[k]: v for k, v in cd.classDefs.items() if v} if cd is not None else None
    mgs = getattr(table, "MarkGlyphSetsDef", None)
    return {"glyphClassDef": g(table.GlyphClassDef), "markAttachClassDef": g(table.MarkAttachClassDef),
            "markGlyphSets": [[rev[x] for x in c.glyphs] for c in mgs.Coverage] if mgs is not None else None}


def _gdef_read(data, strict=True):
    g = T.gdef(data, strict)
    return {"glyphClassDef": g["glyphClassDef"][1] if g["glyphClassDef"] else None,
            "markAttachClassDef": g["markAttachClassDef"][1] if g["markAttachClassDef"] else None,
            "markGlyphSets": [c[1] for c in g["markGlyphSets"]] if g["markGlyphSets"] is not None else None}


def _val(v):
    return (0, 0, 0, 0) if v is None else tuple(int(getattr(v, k, 0) or 0) for k in ("XPlacement", "YPlacement", "XAdvance", "YAdvance"))


def _gpos_content(table, rev):
    """Per lookup: the effective pair adjustments {(gid1, gid2): (value1, value2)} of its PairPos subtables
    (None for lookups of other types), evaluated by the reader's rule on plain values taken from the objects."""
    out = []
    n = len(rev)
    for lk in (table.LookupList.Lookup if table.LookupList else []):
        plain = []
        for st in lk.SubTable:
            st = getattr(st, "ExtSubTable", st)
            if type(st).__name__ != "PairPos":
                plain = None
                break
            cov = [rev[g] for g in st.Coverage.glyphs]
            if st.Format == 1:
                pairs = {}
                for g1, ps in zip(cov, st.PairSet):
                    pairs[g1] = {rev[r.SecondGlyph]: (_val(r.Value1), _val(r.Value2)) for r in ps.PairValueRecord}
                plain.append({"format": 1, "coverage": cov, "pairs": pairs})
            else:
                plain.append({"format": 2, "coverage": cov,
                              "classDef1": {rev[g]: c for g, c in st.ClassDef1.classDefs.items() if c},
                              "classDef2": {rev[g]: c for g, c in st.ClassDef2.classDefs.items() if c},
                              "matrix": [[(_val(r2.Value1), _val(r2.Value2)) for r2 in r1.Class2Record] for r1 in st.Class1Record]})
        out.append(None if plain is None else T.pairpos_effective(plain, n))
    return out


def _gpos_read(data, strict=True, n=0):
    return [None if sts is None else T.pairpos_effective(sts, n) for sts in T.gpos_pairpos(data)]


def _setup_otl():
    from fontTools.ttLib.tables import otTables as ot, otBase
    from fontTools.ttLib import newTable

    def post_cov(state, a, kw, res, exc):
        if exc is not None:
            return
        cov, font = a[0], a[1]
        rev = _rev(font)
        fmt = cov.Format
        gids = [rev[g] for g in cov.glyphs]
        _judged()
        got = _expand_coverage(res, fmt, rev)
        broken = gids != sorted(gids)
        if got is None:
            _report("Coverage", "reader", "coverage indices are not a permutation of 0..n-1", fmt, format=fmt)
            return
        # a glyph list that is not sorted by glyph id is kept in its order (the library documents that it
        # preserves such tables): the coverage index of every glyph is its position in the list
        if got != gids:
            _report("Coverage", "reader", "raw table gives glyphs other coverage indices", (gids[:8], got[:8]), format=fmt, unsorted=broken)
        if fmt == 1 and broken:
            _report("Coverage", "reader", "format 1 glyph array not sorted by glyph id", gids[:8], format=1)
        if fmt == 2:
            starts = [rev[r.Start] for r in res["RangeRecord"]]
            if starts != sorted(starts):
                _report("Coverage", "reader", "format 2 ranges not sorted by start glyph", starts[:8], format=2)
        n, r = len(gids), _nranges(gids)
        rel = "lt" if 3 * r < n else "eq" if 3 * r == n else "gt"
        _note("Coverage.format%d" % fmt)
        if broken:
            _note("Coverage.unsorted-input")
        _key("Cov/f%d/3r%sn/n%s/u%d" % (fmt, rel, _size_class(n), broken))

    hooks.attach(ot, "Coverage.preWrite", post=post_cov, name="Coverage.preWrite")

    def post_cd(state, a, kw, res, exc):
        if exc is not None:
            return
        cd, font = a[0], a[1]
        rev = _rev(font)
        fmt = cd.Format
        want = {rev[g]: c for g, c in cd.classDefs.items() if c}
        got = {}
        _judged()
        if fmt == 1:
            s = rev[res["StartGlyph"]]
            for i, c in enumerate(res["ClassValueArray"]):
                if c:
                    got[s + i] = c
        else:
            for r in res["ClassRangeRecord"]:
                for g in range(rev[r.Start], rev[r.End] + 1):
                    if r.Class:
                        got[g] = r.Class
        if got != want:
            _report("ClassDef", "reader", "raw table expands to another class map", _dictdiff(want, got), format=fmt)
        if want:
            items = sorted(want.items())
            r = 1 + sum(1 for (g1, c1), (g2, c2) in zip(items, items[1:]) if g2 != g1 + 1 or c1 != c2)
            span = items[-1][0] - items[0][0] + 1
            rel = "lt" if 3 * r < span + 1 else "eq" if 3 * r == span + 1 else "gt"
        else:
            rel = "empty"
        _note("ClassDef.format%d" % fmt)
        _key("CD/f%d/3r%ss/n%s" % (fmt, rel, _size_class(len(want))))

    hooks.attach(ot, "ClassDef.preWrite", post=post_cd, name="ClassDef.preWrite")

    def post_ss(state, a, kw, res, exc):
        if exc is not None:
            return
        ss, font = a[0], a[1]
        rev = _rev(font)
        fmt = ss.Format
        want = {rev[x]: rev[y] for x, y in ss.mapping.items()}
        cov = [rev[g] for g in res["Coverage"].glyphs]
        _judged()
        if fmt == 1:
            d = res["DeltaGlyphID"]
            got = {g: (g + d) % 65536 for g in cov}
            wraps = any(g + d > 65535 for g in cov) or d > 32767
            _note("SingleSubst.format1-delta")
            if wraps:
                _note("SingleSubst.format1-delta-modulo-65536")
        else:
            got = dict(zip(cov, [rev[g] for g in res["Substitute"]]))
            wraps = False
            _note("SingleSubst.format2-list")
        if got != want:
            _report("SingleSubst", "reader", "raw table expands to another mapping", _dictdiff(want, got), format=fmt)
        if cov != sorted(cov):
            _report("SingleSubst", "reader", "coverage not sorted by glyph id", cov[:8], format=fmt)
        _key("SS/f%d/w%d/n%s" % (fmt, wraps, _size_class(len(want))))

    hooks.attach(ot, "SingleSubst.preWrite", post=post_ss, name="SingleSubst.preWrite")

    _content = {"GSUB": _gsub_content, "GDEF": _gdef_content, "GPOS": _gpos_content}

    def pre_table(a, kw):
        # the content is taken *before* compile: overflow resolution rewrites the object tree (subtable splits)
        tab, font = a[0], a[1]
        if tab.tableTag not in _content:
            return None
        return {"want": _content[tab.tableTag](tab.table, _rev(font))}

    def post_table(state, a, kw, res, exc):
        if exc is not None or state is None:
            return
        tab, font = a[0], a[1]
        tag = tab.tableTag
        res = bytes(res)
        rev = _rev(font)
        content = _content[tag]
        read = {"GSUB": _gsub_read, "GDEF": _gdef_read, "GPOS": lambda d, strict: _gpos_read(d, strict, len(rev))}[tag]
        want = state["want"]
        if tag == "GPOS":
            return _post_gpos(tab, font, rev, res, want, content)
        # only glyph lists sorted by glyph id are conforming Coverage content; others are read leniently
        covs = ([c for e in want for cs, recs in e["context3"] for c in cs] if tag == "GSUB" else (want["markGlyphSets"] or []))
        strict = all(c == sorted(c) for c in covs)
        if not strict:
            _note("%s.tables-with-unsorted-coverage" % tag)
        _judged()
        try:
            got = read(res, strict)
        except (T.Bad, struct.error, IndexError) as e:
            _report(tag, "reader", "spec reader rejects the table", repr(e))
            return
        _cur["cap"][tag] = {"bytes": res, "reader": got}
        if got != want:
            if tag == "GSUB":
                d = [(i, k, _dictdiff(w[k], g[k]) if k == "single" else (w[k], g[k])) for i, (w, g) in enumerate(zip(want, got))
                     for k in w if w[k] != g[k]][:3] or (len(want), len(got))
            else:
                d = [(k, _dictdiff(want[k], got[k]) if isinstance(want[k], dict) and isinstance(got[k], dict) else (want[k], got[k]))
                     for k in want if want[k] != got[k]][:3]
            _report(tag, "reader", "spec reader sees other content", d, field=str(d[0][1]) if isinstance(d, list) and d else None)
        t2 = newTable(tag)
        _judged()
        try:
            t2.decompile(res, font)
            back = content(t2.table, rev)
        except Exception as e:
            _report(tag, "self-inverse", "decompile of compile output raised %s" % type(e).__name__, repr(e))
            return
        if back != want:
            _report(tag, "self-inverse", "decompile(compile(x)) != x", _short((want, back), 600))
        _note("%s.tables" % tag)

    def _post_gpos(tab, font, rev, res, want, content):
        if not any(w is not None for w in want):
            return
        _judged()
        try:
            got = _gpos_read(res, True, len(rev))
            raw = T.gpos_pairpos(res)
        except (T.Bad, struct.error, IndexError) as e:
            _report("GPOS", "reader", "spec reader rejects the table", repr(e))
            return
        _cur["cap"]["GPOS"] = {"bytes": res, "reader": got, "raw": raw}
        if len(got) != len(want):
            _report("GPOS", "reader", "lookup count differs", (len(want), len(got)), field="lookups")
            return
        for i, (w, g) in enumerate(zip(want, got)):
            if w is not None and g != w:
                d = _dictdiff(w, g or {})
                _report("GPOS", "reader", "spec reader sees other effective pair adjustments",
                        {"lookup": i, "pairs_differing": sum(1 for k in set(w) | set(g or {}) if w.get(k) != (g or {}).get(k)), "first": d},
                        field="PairPos", diff=_diff_class(w, g or {}))
        t2 = newTable("GPOS")
        _judged()
        try:
            t2.decompile(res, font)
            back = content(t2.table, rev)
        except Exception as e:
            _report("GPOS", "self-inverse", "decompile of compile output raised %s" % type(e).__name__, repr(e))
            return
        for i, (w, b) in enumerate(zip(want, back)):
            if w is not None and b != w:
                _report("GPOS", "self-inverse", "decompile(compile(x)) != x (effective pair adjustments)",
                        {"lookup": i, "pairs_differing": sum(1 for k in set(w) | set(b or {}) if w.get(k) != (b or {}).get(k)),
                         "first": _dictdiff(w, b or {})}, field="PairPos", diff=_diff_class(w, b or {}))
        nst = [len(x) for x in raw if x is not None]
        _note("GPOS.tables")
        _note("GPOS.pairpos-subtables-written", sum(nst))
        for x in raw:
            for st in x or []:
                _note("GPOS.pairpos-format%d" % st["format"])
        _key("GPOS/pp/st%s/n%s" % (_size_class(max(nst or [0])), _size_class(max([len(w) for w in want if w is not None] or [0]))))

    hooks.attach(otBase, "BaseTTXConverter.compile", pre=pre_table, post=post_table, name="otTable.compile")
    _site("PairPos.format2-overflow-split", ot.splitPairPos, r"oldCount = len\(oldSubTable\.Class1Record\) // 2")
    _site("PairPos.format1-overflow-split", ot.splitPairPos, r"oldCount = len\(oldSubTable\.PairSet\) // 2")

    _site("Coverage.format2-chosen", ot.Coverage.preWrite, r"format = 2$")
    _site("Coverage.unsorted-ranges-sorted", ot.Coverage.preWrite, r"ranges\.sort\(key")
    _site("ClassDef.format1-chosen", ot.ClassDef.preWrite, r"format = 1$")
    _site("ClassDef.format2-chosen", ot.ClassDef.preWrite, r"rec = ClassRangeRecord\(\)")
    _site("SingleSubst.format1-chosen", ot.SingleSubst.preWrite, r"format = 1$")
    _site("SingleSubst.delta-mismatch-break", ot.SingleSubst.preWrite, r"^\s+break$")


_SETUPS.append(_setup_otl)


def _mk_gsub(lookups, features):
    """GSUB table object: `features` = [(tag, [lookup indices])] under script DFLT."""
    from fontTools.ttLib import newTable
    from fontTools.ttLib.tables import otTables as ot

    gsub = newTable("GSUB")
    t = gsub.table = ot.GSUB()
    t.Version = 0x00010000
    t.ScriptList = ot.ScriptList()
    sr = ot.ScriptRecord()
    sr.ScriptTag = "DFLT"
    sr.Script = ot.Script()
    ls = sr.Script.DefaultLangSys = ot.DefaultLangSys()
    ls.LookupOrder = None
    ls.ReqFeatureIndex = 0xFFFF
    ls.FeatureIndex = list(range(len(features)))
    ls.FeatureCount = len(features)
    sr.Script.LangSysRecord = []
    sr.Script.LangSysCount = 0
    t.ScriptList.ScriptRecord = [sr]
    t.ScriptList.ScriptCount = 1
    t.FeatureList = ot.FeatureList()
    t.FeatureList.FeatureRecord = []
    for tag, idx in features:
        fr = ot.FeatureRecord()
        fr.FeatureTag = tag
        fr.Feature = ot.Feature()
        fr.Feature.FeatureParams = None
        fr.Feature.LookupListIndex = list(idx)
        fr.Feature.LookupCount = len(idx)
        t.FeatureList.FeatureRecord.append(fr)
    t.FeatureList.FeatureCount = len(features)
    t.LookupList = ot.LookupList()
    t.LookupList.Lookup = list(lookups)
    t.LookupList.LookupCount = len(lookups)
    return gsub


def drv_otl(case, rnd, ctx):
    from fontTools.ttLib import newTable
    from fontTools.ttLib.tables import otTables as ot
    from fontTools.otlLib import builder as B
    from vmon.gen import c02_otl as G

    what, shape = case["what"], case["shape"]
    n = case.get("n") or rnd.choice([6, 60, 600])
    names = _names(n)
    engines = n <= 3000
    lookups, features, single_maps, cov_sets = [], [], {}, {}
    gdef_want = None
    reps = case["reps"]
    if what == "single":
        for i in range(reps):
            m = G.gen_single(rnd, shape, n)
            st = ot.SingleSubst()
            items = list(m.items())
            rnd.shuffle(items)
            st.mapping = {names[a]: names[b] for a, b in items}
            lookups.append(B.buildLookup([st], extension=bool(case.get("extension")), table="GSUB"))
            single_maps[len(lookups) - 1] = m
            features.append(("s%03d" % i, [len(lookups) - 1]))
    elif what == "coverage":
        # lookup 0 (no feature of its own): every glyph g -> successor; context lookups call it where the Coverage matches
        succ = {g: (g + 1) % n for g in (range(n) if engines else range(0, n, 257))}
        st = ot.SingleSubst()
        st.mapping = {names[a]: names[b] for a, b in succ.items()}
        lookups.append(B.buildLookup([st]))
        single_maps[0] = succ
        for i in range(reps):
            gl = G.gen_coverage(rnd, shape, n)
            cs = ot.ContextSubst()
            cs.Format = 3
            cov = ot.Coverage()
            cov.glyphs = [names[g] for g in gl]        # possibly not sorted: the writer has to cope
            cs.Coverage = [cov]
            cs.GlyphCount = 1
            rec = ot.SubstLookupRecord()
            rec.SequenceIndex, rec.LookupListIndex = 0, 0
            cs.SubstLookupRecord = [rec]
            cs.SubstCount = 1
            lookups.append(B.buildLookup([cs]))
            cov_sets[len(lookups) - 1] = gl
            features.append(("c%03d" % i, [len(lookups) - 1]))
    elif what == "classdef":
        gd = newTable("GDEF")
        t = gd.table = ot.GDEF()
        t.Version = 0x00010002
        gc = G.gen_classdef(rnd, "scattered" if shape == "big_classes" else shape, n, classes=(1, 2, 3, 4))   # GDEF classes 1..4
        ma = G.gen_classdef(rnd, shape, n, classes=(1, 2, 7, 255, 65535))
        sets = [G.gen_coverage(rnd, rnd.choice(G.COVERAGE_SHAPES), n) for _ in range(rnd.randint(0, 3))]
        t.GlyphClassDef = ot.GlyphClassDef()
        t.GlyphClassDef.classDefs = {names[g]: c for g, c in gc.items()}
        t.MarkAttachClassDef = ot.MarkAttachClassDef()
        t.MarkAttachClassDef.classDefs = {names[g]: c for g, c in ma.items()}
        t.AttachList = t.LigCaretList = None
        t.MarkGlyphSetsDef = None
        if sets:
            m = t.MarkGlyphSetsDef = ot.MarkGlyphSetsDef()
            m.MarkSetTableFormat = 1
            m.Coverage = []
            for s in sets:
                c = ot.Coverage()
                c.glyphs = [names[g] for g in s]
                m.Coverage.append(c)
            m.MarkSetCount = len(sets)
        gdef_want = {"glyphClassDef": gc, "markAttachClassDef": ma, "markGlyphSets": [list(s) for s in sets] if sets else None}
    if ctx.sample is None:
        first = (sorted(single_maps.get(0, {}).items())[:4] if what == "single" else
                 cov_sets.get(1, [])[:8] if what == "coverage" else sorted(gdef_want["glyphClassDef"].items())[:6])
        ctx.sample = {"kind": "otl", "what": what, "shape": shape, "numGlyphs": n, "lookups": len(lookups), "first": first}
    _cur["cap"].pop("GSUB", None)
    _cur["cap"].pop("GDEF", None)
    if not engines:
        from fontTools.ttLib import TTFont
        font = TTFont(recalcTimestamp=False)      # the layout compiler may look the table up in the font (overflow resolution)
        font.setGlyphOrder(names)
        if what == "classdef":
            font["GDEF"] = gd
            ok, data = _lib(ctx, "GDEF.compile", gd.compile, font, table="GDEF", shape=shape)
        else:
            gsub = font["GSUB"] = _mk_gsub(lookups, features)
            ok, data = _lib(ctx, "GSUB.compile", gsub.compile, font, table="GSUB", shape=shape)
        hb = None
    else:
        descs = [{"kind": "simple", "contours": [], "instructions": b""} for _ in names]
        fb = _build(names, descs, cmap=_pua(names), recalc=False)
        if what == "classdef":
            fb.font["GDEF"] = gd
        else:
            fb.font["GSUB"] = _mk_gsub(lookups, features)
        ok, data = _save(ctx, fb, table="GDEF" if what == "classdef" else "GSUB", shape=shape)
        hb = _hb(data) if ok else None
    if not ok:
        return
    cap = _cur["cap"].get("GDEF" if what == "classdef" else "GSUB")
    if cap is None:
        ctx.inconclusive("layout table monitor saw no compile")
        return
    r = cap["reader"]
    # generated content vs spec reader
    ctx.judged()
    if what == "classdef":
        want = {"glyphClassDef": gdef_want["glyphClassDef"] or None, "markAttachClassDef": gdef_want["markAttachClassDef"] or None,
                "markGlyphSets": gdef_want["markGlyphSets"]}
        got = {k: (v or None) if k != "markGlyphSets" else v for k, v in r.items()}
        if got != want:
            _semantic(ctx, "GDEF", "reader", "compiled table differs from the generated content",
                      [(k, want[k], got[k]) for k in want if want[k] != got[k]][:2])
    else:
        for i, m in single_maps.items():
            if r[i]["single"] != m:
                _semantic(ctx, "GSUB", "reader", "compiled SingleSubst differs from the generated mapping", (i, _dictdiff(m, r[i]["single"])))
        for i, gl in cov_sets.items():
            if [c[0] for c in r[i]["context3"]] != [[list(gl)]]:
                _semantic(ctx, "GSUB", "reader", "compiled Coverage differs from the generated glyph list", (i, list(gl)[:8], r[i]["context3"]))
    if hb is None:
        return
    # HarfBuzz semantics
    bad = []
    cnt = 0
    # HarfBuzz is cross-checked with the struct reader's view of the compiled table
    if what == "classdef":
        gc = r["glyphClassDef"] or {}
        for g in range(n) if n <= 700 else rnd.sample(range(n), 700):
            got = int(hb.face.get_layout_glyph_class(g))
            cnt += 1
            if got != gc.get(g, 0):
                bad.append((g, gc.get(g, 0), got))
    else:
        for (tag, idx) in features:
            li = idx[0]
            if what == "single":
                m = r[li]["single"]
                probe = sorted(m)
                probe = (probe if len(probe) <= 150 else rnd.sample(probe, 150)) + [g for g in rnd.sample(range(n), min(n, 12)) if g not in m]
                exp = lambda g: m.get(g, g)
            else:
                c3 = r[li]["context3"]
                s = set(c3[0][0][0]) if c3 and c3[0][0] else set()
                nested = r[0]["single"]
                probe = sorted(s)
                probe = (probe if len(probe) <= 150 else rnd.sample(probe, 150)) + [g for g in rnd.sample(range(n), min(n, 20)) if g not in s]
                exp = lambda g: nested.get(g, g) if g in s else g
            for g in probe:
                out = hb.shape([0xF0000 + g], {tag: True})
                cnt += 1
                if len(out) != 1 or out[0][0] != exp(g):
                    bad.append((tag, g, exp(g), [o[0] for o in out]))
    ctx.judged()
    _note("otl.harfbuzz-glyphs-checked", cnt)
    if bad:
        _disagree(ctx, "layout %s: harfbuzz vs struct reader" % what, bad[:4])


# =====================================================================================
# variations: TupleVariation / gvar / fvar / avar
# =====================================================================================
def _q16(v):
    return int(math.floor(v * 65536 + 0.5))


def _npoints(glyph):
    nc = glyph.numberOfContours
    if nc > 0:
        return len(glyph.coordinates) + 4
    if nc < 0:
        return len(glyph.components) + 4
    return 4


def _tv_plain(v, tags):
    """TupleVariation object -> (region per axis as F2Dot14 ints, coordinates)."""
    reg = []
    for t in tags:
        s, p, e = v.axes.get(t, (0.0, 0.0, 0.0))
        reg.append((_q14(s), _q14(p), _q14(e)))
    return (reg, [None if c is None else (c[0], c[1]) for c in v.coordinates])


def _tv_read(t, npoints):
    reg = []
    for k, p in enumerate(t["peak"]):
        s = t["start"][k] if t["start"] is not None else min(p, 0)
        e = t["end"][k] if t["end"] is not None else max(p, 0)
        reg.append((s, p, e))
    coords = [None] * npoints
    pts = range(npoints) if t["points"] is None else t["points"]
    for p, x, y in zip(pts, t["dx"], t["dy"]):
        if p < npoints:
            coords[p] = (x, y)
    return (reg, coords)


def _delta_run_stats(data, count):
    """Walk the packed-delta control bytes (spec) and report run kinds / lengths."""
    from vmon.oracle import codecs
    stats = Counter()
    j = 0
    done = 0
    while done < count and j < len(data):
        c = data[j]
        run = (c & 0x3F) + 1
        kind = {0x80: "zero", 0x40: "word", 0xC0: "long", 0x00: "byte"}[c & 0xC0]
        stats["%s-run" % kind] += 1
        if run == 64:
            stats["%s-run-of-64" % kind] += 1
        j += 1 + {"zero": 0, "byte": 1, "word": 2, "long": 4}[kind] * run
        done += run
    return stats, j


def _setup_var():
    from fontTools.ttLib.tables import TupleVariation as TVM, _g_v_a_r as GV, _f_v_a_r as FV, _a_v_a_r as AV
    from fontTools.ttLib import newTable
    from vmon.oracle import codecs

    def post_tv(state, a, kw, res, exc):
        if exc is not None:
            return
        tv, tags, shared, pdata = a[0], a[1], a[2], a[3]
        head, aux = bytes(res[0]), bytes(res[1])
        if not head and not aux:
            _note("TupleVariation.empty-dropped")
            return
        _judged()
        size, flags = struct.unpack(">HH", head[:4])
        used = [i for i, c in enumerate(tv.coordinates) if c is not None]
        allpts = len(used) == len(tv.coordinates)
        bad = None
        try:
            o = 0
            if flags & 0x2000:
                pts, n = codecs.packed_points(aux, 0)
                o += n
                if (pts is None) != allpts or (pts is not None and pts != used):
                    bad = ("private point numbers", used[:10], pts[:10] if pts else pts)
            cnt = len(used)
            dx, n = codecs.packed_deltas(aux, cnt, o)
            stats, _j = _delta_run_stats(aux[o:], cnt)
            o += n
            dy, n = codecs.packed_deltas(aux, cnt, o)
            o += n
            want = [tv.coordinates[i] for i in used]
            if [tuple(p) for p in zip(dx, dy)] != [tuple(w) for w in want] and bad is None:
                bad = ("deltas", want[:6], list(zip(dx, dy))[:6])
            if (o != len(aux) or size != len(aux)) and bad is None:
                bad = ("data size", size, len(aux), o)
            for k, v in stats.items():
                _note("TupleVariation.x-%s" % k, v)
        except (codecs.Bad, struct.error, IndexError) as e:
            bad = ("spec decoder rejects the tuple data", repr(e))
        if bad:
            _report("gvar", "reader", "tuple variation data decodes differently", bad, field=bad[0])
        # header: peak / intermediate coordinates
        o = 4
        n = len(tags)
        hb_bad = None
        if flags & 0x8000:
            peak = struct.unpack(">%dh" % n, head[o:o + 2 * n])
            o += 2 * n
            if list(peak) != [_q14(tv.axes.get(t, (0, 0, 0))[1]) for t in tags]:
                hb_bad = ("peak", peak)
        if flags & 0x4000:
            st = struct.unpack(">%dh" % n, head[o:o + 2 * n])
            en = struct.unpack(">%dh" % n, head[o + 2 * n:o + 4 * n])
            o += 4 * n
            if list(st) != [_q14(tv.axes.get(t, (0, 0, 0))[0]) for t in tags] or list(en) != [_q14(tv.axes.get(t, (0, 0, 0))[2]) for t in tags]:
                hb_bad = ("intermediate", st, en)
        else:
            # without the flag a reader infers (min(p,0), p, max(p,0)): must equal the content's region
            for t in tags:
                s, p, e = tv.axes.get(t, (0.0, 0.0, 0.0))
                if (_q14(s), _q14(e)) != (min(_q14(p), 0), max(_q14(p), 0)):
                    hb_bad = ("intermediate region dropped", t, (s, p, e))
        if o != len(head) and hb_bad is None:
            hb_bad = ("header size", o, len(head))
        if hb_bad:
            _report("gvar", "reader", "tuple variation header decodes differently", hb_bad, field=hb_bad[0])
        _note("TupleVariation.embedded-peak" if flags & 0x8000 else "TupleVariation.shared-peak")
        if flags & 0x4000:
            _note("TupleVariation.intermediate-region")
        _note("TupleVariation.private-points" if flags & 0x2000 else "TupleVariation.uses-shared-points")
        _key("TV/e%d/i%d/p%d/%s/n%s" % (bool(flags & 0x8000), bool(flags & 0x4000), bool(flags & 0x2000),
                                        "all" if allpts else "some", _size_class(len(used))))

    hooks.attach(TVM, "TupleVariation.compile", post=post_tv, name="TupleVariation.compile")

    def post_gvar(state, a, kw, res, exc):
        if exc is not None:
            return
        tab, font = a[0], a[1]
        res = bytes(res)
        order = font.getGlyphOrder()
        tags = [ax.axisTag for ax in font["fvar"].axes]
        glyf = font["glyf"]
        pcs = [_npoints(glyf[g]) for g in order]
        want = []
        for g, pc in zip(order, pcs):
            vs = [v for v in (tab.variations.get(g) or []) if any(c is not None for c in v.coordinates)]
            want.append([_tv_plain(v, tags) for v in vs])
        _judged()
        try:
            got = T.gvar(res, pcs)
        except (T.Bad, struct.error, IndexError) as e:
            _report("gvar", "reader", "spec reader rejects the table", repr(e))
            return
        _cur["cap"]["gvar"] = {"bytes": res, "reader": got}
        mine = [[] if g is None else [_tv_read(t, pc) for t in g["tuples"]] for g, pc in zip(got["glyphs"], pcs)]
        if got["axisCount"] != len(tags) or len(mine) != len(want):
            _report("gvar", "reader", "header differs", (got["axisCount"], len(mine), len(tags), len(want)), field="header")
        elif mine != want:
            d = []
            for gi, (w, m) in enumerate(zip(want, mine)):
                if w != m:
                    if len(w) != len(m):
                        d.append((gi, "tuple count", len(w), len(m)))
                    else:
                        for ti, (tw, tm) in enumerate(zip(w, m)):
                            if tw[0] != tm[0]:
                                d.append((gi, ti, "region", tw[0], tm[0]))
                            elif tw[1] != tm[1]:
                                d.append((gi, ti, "deltas", [(i, x, y) for i, (x, y) in enumerate(zip(tw[1], tm[1])) if x != y][:3]))
            _report("gvar", "reader", "spec reader sees other variations", d[:3], field=str(d[0][2]) if d else None)
        t2 = newTable("gvar")
        _judged()
        try:
            t2.decompile(res, font)
            back = [[_tv_plain(v, tags) for v in (t2.variations.get(g) or [])] for g in order]
        except Exception as e:
            _report("gvar", "self-inverse", "decompile of compile output raised %s" % type(e).__name__, repr(e))
            return
        if back != want:
            _report("gvar", "self-inverse", "decompile(compile(x)) != x",
                    [(gi, len(w), len(b)) for gi, (w, b) in enumerate(zip(want, back)) if w != b][:4])
        sp = sum(1 for g in got["glyphs"] if g and g["shared_points"])
        _note("gvar.tables")
        _note("gvar.glyphs-with-shared-point-numbers", sp)
        _note("gvar.shared-tuples", len(got["sharedTuples"]))
        _note("gvar.long-offsets" if got["long_offsets"] else "gvar.short-offsets")
        _key("gvar/sp%d/st%d/lo%d/ax%s" % (bool(sp), bool(got["sharedTuples"]), got["long_offsets"], _size_class(len(tags))))

    hooks.attach(GV, "table__g_v_a_r.compile", post=post_gvar, name="gvar.compile")

    def fvar_plain(tab):
        tags = [a.axisTag for a in tab.axes]
        ps = any(i.postscriptNameID != 0xFFFF for i in tab.instances)
        return {"axes": [{"tag": str(a.axisTag), "min": _q16(a.minValue), "default": _q16(a.defaultValue), "max": _q16(a.maxValue),
                          "flags": a.flags, "nameID": a.axisNameID} for a in tab.axes],
                "instances": [{"subfamilyNameID": i.subfamilyNameID, "flags": i.flags, "coords": [_q16(i.coordinates[t]) for t in tags],
                               "postScriptNameID": i.postscriptNameID if ps else None} for i in tab.instances]}

    def post_fvar(state, a, kw, res, exc):
        if exc is not None:
            return
        tab, font = a[0], a[1]
        res = bytes(res)
        want = fvar_plain(tab)
        _judged()
        try:
            got = T.fvar(res)
        except (T.Bad, struct.error, IndexError) as e:
            _report("fvar", "reader", "spec reader rejects the table", repr(e))
            return
        _cur["cap"]["fvar"] = {"bytes": res, "reader": got}
        if got != want:
            d = [("axis", i, w, g) for i, (w, g) in enumerate(zip(want["axes"], got["axes"])) if w != g][:2] + \
                [("instance", i, w, g) for i, (w, g) in enumerate(zip(want["instances"], got["instances"])) if w != g][:2]
            _report("fvar", "reader", "spec reader sees other axes/instances", d or (len(got["axes"]), len(got["instances"])),
                    field=d[0][0] if d else "count")
        t2 = newTable("fvar")
        _judged()
        try:
            t2.decompile(res, font)
            back = fvar_plain(t2)
        except Exception as e:
            _report("fvar", "self-inverse", "decompile of compile output raised %s" % type(e).__name__, repr(e))
            return
        if back != want:
            _report("fvar", "self-inverse", "decompile(compile(x)) != x", _short((want, back), 500))
        _note("fvar.tables")
        _key("fvar/ax%s/in%s/ps%d" % (_size_class(len(want["axes"])), _size_class(len(want["instances"])),
                                      any(i["postScriptNameID"] is not None for i in want["instances"])))

    hooks.attach(FV, "table__f_v_a_r.compile", post=post_fvar, name="fvar.compile")

    def avar_plain(tab, tags):
        return [sorted((_q14(k), _q14(v)) for k, v in tab.segments[t].items()) for t in tags]

    def post_avar(state, a, kw, res, exc):
        if exc is not None:
            return
        tab, font = a[0], a[1]
        res = bytes(res)
        tags = [ax.axisTag for ax in font["fvar"].axes]
        want = avar_plain(tab, tags)
        _judged()
        try:
            got = T.avar(res)
        except (T.Bad, struct.error, IndexError) as e:
            _report("avar", "reader", "spec reader rejects the table", repr(e))
            return
        _cur["cap"]["avar"] = {"bytes": res, "reader": got}
        if got["maps"] != want or got["version"][0] != getattr(tab, "majorVersion", 1):
            _report("avar", "reader", "spec reader sees other segment maps",
                    [(i, w[:4], g[:4]) for i, (w, g) in enumerate(zip(want, got["maps"])) if w != g][:2] or (len(want), len(got["maps"])))
        if got["version"][0] == 1 and got["used"] != len(res):
            _report("avar", "reader", "table length differs", (got["used"], len(res)), field="length")
        t2 = newTable("avar")
        _judged()
        try:
            t2.decompile(res, font)
            back = avar_plain(t2, tags)
        except Exception as e:
            _report("avar", "self-inverse", "decompile of compile output raised %s" % type(e).__name__, repr(e))
            return
        if back != want:
            _report("avar", "self-inverse", "decompile(compile(x)) != x", [(i, w[:4], g[:4]) for i, (w, g) in enumerate(zip(want, back)) if w != g][:2])
        _note("avar.tables")
        _key("avar/ax%s/pts%s" % (_size_class(len(tags)), _size_class(max([len(m) for m in want] or [0]))))

    hooks.attach(AV, "table__a_v_a_r.compile", post=post_avar, name="avar.compile")

    c = TVM.TupleVariation.compile
    _site("TupleVariation.embedded-peak", c, r"flags = EMBEDDED_PEAK_TUPLE")
    _site("TupleVariation.intermediate-region", c, r"flags \|= INTERMEDIATE_REGION")
    _site("TupleVariation.private-point-numbers", c, r"flags \|= PRIVATE_POINT_NUMBERS")
    s = TVM.compileTupleVariationStore
    _site("gvar.shared-point-numbers", s, r"tupleVariationCount \|= TUPLES_SHARE_POINT_NUMBERS")
    _site("gvar.all-tuples-empty", s, r'return \(0, b"", b""\)')
    _site("TupleVariation.zero-run-of-64", TVM.TupleVariation.encodeDeltaRunAsZeroes_, r"DELTAS_ARE_ZERO \| 63")
    _site("TupleVariation.byte-run-of-64", TVM.TupleVariation.encodeDeltaRunAsBytes_, r"bytearr\.append\(63\)")
    _site("TupleVariation.word-run-of-64", TVM.TupleVariation.encodeDeltaRunAsWords_, r"DELTAS_ARE_WORDS \| 63")
    _site("TupleVariation.points-word-run", TVM.TupleVariation.compilePoints, r"\| POINTS_ARE_WORDS")
    _site("TupleVariation.points-count-two-bytes", TVM.TupleVariation.compilePoints, r"\(numPoints >> 8\) \| 0x80")
    _site("gvar.long-offsets", GV.table__g_v_a_r.compileOffsets_, r"tableFormat = 1")
    _site("gvar.glyph-data-padding", GV.compileGlyph_, r"padding")
    _site("fvar.postscript-name-ids", FV.table__f_v_a_r.compile, r"instanceSize \+= 2")


_SETUPS.append(_setup_var)


# ------------------------------------------------------------------ independent variation model
def _tent(coord, s, p, e):
    """Scalar of one axis (OpenType 'Algorithm for Interpolation of Instance Values'), all in 2.14 units."""
    if p == 0:
        return 1.0
    if s > p or p > e or (s < 0 < e):
        return 1.0
    if coord == p:
        return 1.0
    if coord <= s or coord >= e:
        return 0.0
    if coord < p:
        return (coord - s) / (p - s)
    return (e - coord) / (e - p)


def _iup_axis(coords, deltas, touched, lo, hi):
    """Interpolate untouched points of one contour (indices lo..hi inclusive) along one axis."""
    idx = [i for i in range(lo, hi + 1) if touched[i]]
    if not idx:
        return
    if len(idx) == 1:
        d = deltas[idx[0]]
        for i in range(lo, hi + 1):
            deltas[i] = d
        return
    n = len(idx)
    for k in range(n):
        a, b = idx[k], idx[(k + 1) % n]
        # untouched points strictly between a and b going forward (cyclically)
        i = a
        between = []
        while True:
            i = i + 1 if i < hi else lo
            if i == b:
                break
            between.append(i)
        ca, cb, da, db = coords[a], coords[b], deltas[a], deltas[b]
        if ca > cb:
            ca, cb, da, db = cb, ca, db, da
        for i in between:
            c = coords[i]
            if ca == cb:
                deltas[i] = da if da == db else 0.0
            elif c <= ca:
                deltas[i] = da
            elif c >= cb:
                deltas[i] = db
            else:
                deltas[i] = da + (db - da) * (c - ca) / (cb - ca)


def _vary(desc, tuples, tags, loc, adv):
    """Expected contours and advance of a simple glyph at normalised location `loc` ({tag: 2.14 int})."""
    pts = [(float(x), float(y)) for c in desc["contours"] for x, y, on in c]
    ons = [on for c in desc["contours"] for x, y, on in c]
    ends, k = [], 0
    for c in desc["contours"]:
        k += len(c)
        ends.append(k - 1)
    n = len(pts)
    xmin = min([p[0] for p in pts]) if pts else 0.0
    # phantom points: left = (xMin - lsb, 0) = (0, 0) because the fonts are built with lsb == xMin; right = left + advance
    ph = [(0.0, 0.0), (float(adv), 0.0), (0.0, 0.0), (0.0, 0.0)]
    allp = pts + ph
    tot = [[0.0, 0.0] for _ in allp]
    for t in tuples:
        sc = 1.0
        for tag in tags:
            s, p, e = t["region"].get(tag, (0.0, 0.0, 0.0))
            sc *= _tent(loc.get(tag, 0), _q14(s), _q14(p), _q14(e))
            if sc == 0.0:
                break
        if sc == 0.0:
            continue
        d = t["deltas"]
        if all(x is None for x in d):
            continue
        touched = [x is not None for x in d]
        dx = [float(x[0]) if x is not None else 0.0 for x in d]
        dy = [float(x[1]) if x is not None else 0.0 for x in d]
        if not all(touched):
            lo = 0
            for e_ in ends:
                _iup_axis([p[0] for p in allp], dx, touched, lo, e_)
                _iup_axis([p[1] for p in allp], dy, touched, lo, e_)
                lo = e_ + 1
        for i in range(len(allp)):
            tot[i][0] += sc * dx[i]
            tot[i][1] += sc * dy[i]
    moved = [(p[0] + t[0], p[1] + t[1]) for p, t in zip(allp, tot)]
    left = moved[n][0]
    right = moved[n + 1][0]
    out, i = [], 0
    for c in desc["contours"]:
        out.append([(moved[i + j][0] - left, moved[i + j][1], c[j][2]) for j in range(len(c))])
        i += len(c)
    return out, right - left


def drv_gvar(case, rnd, ctx):
    from fontTools.ttLib.tables.TupleVariation import TupleVariation
    from vmon.gen import c02_var as G

    shape = case["shape"]
    for rep in range(case["reps"]):
        g = G.gen_gvar_shared_count(rnd, case["k"]) if shape == "shared_tuple_count" else G.gen_gvar(rnd, shape)
        tags, descs = g["axes"], g["glyphs"]
        names = _names(len(descs))
        fb = _build(names, descs, recalc=True, speed=bool(case.get("speed")))
        fb.setupFvar([(t, -1.0, 0.0, 1.0, t) for t in tags], [])
        variations = {}
        for gi, tuples in g["variations"].items():
            variations[names[gi]] = [TupleVariation({t: tuple(r) for t, r in tp["region"].items()}, list(tp["deltas"])) for tp in tuples]
        fb.setupGvar(variations)
        if ctx.sample is None:
            gi = sorted(g["variations"])[0]
            tp = g["variations"][gi][0]
            ctx.sample = {"kind": "gvar", "shape": shape, "axes": tags, "glyphs": len(descs), "first_region": _short(tp["region"], 200),
                          "first_deltas": _short(tp["deltas"][:5], 200), "points": len(tp["deltas"])}
        _cur["cap"].pop("gvar", None)
        ok, data = _save(ctx, fb, table="gvar", shape=shape)
        if not ok:
            continue
        cap = _cur["cap"].get("gvar")
        if cap is None:
            ctx.inconclusive("gvar monitor saw no compile")
            continue
        # generated content vs struct reader of the saved table
        tabs = T.sfnt_tables(data)
        ctx.judged()
        if tabs["gvar"] != cap["bytes"]:
            ctx.inconclusive("saved gvar differs from the monitored bytes")
            continue
        rd = cap["reader"]
        for gi, tuples in g["variations"].items():
            live = [tp for tp in tuples if any(d is not None for d in tp["deltas"])]
            npts = len(tuples[0]["deltas"])
            want = [([tuple(_q14(v) for v in tp["region"].get(t, (0.0, 0.0, 0.0))) for t in tags], list(tp["deltas"])) for tp in live]
            got = [] if rd["glyphs"][gi] is None else [_tv_read(t, npts) for t in rd["glyphs"][gi]["tuples"]]
            if got != want:
                _semantic(ctx, "gvar", "reader", "saved variations differ from the generated content", {"gid": gi, "tuples": (len(want), len(got))})
        if shape == "long_values":
            continue      # 32-bit deltas are beyond what the engines' int16 paths are compared on
        # engines at a few locations
        locs = [{t: 0 for t in tags}]
        for _ in range(3):
            locs.append({t: rnd.choice([16384, -16384, 8192, -8192, 4096, 12288, -12288, 1, -1, 0, rnd.randint(-16384, 16384)]) for t in tags})
        gids = sorted(g["variations"])
        if len(gids) > 8:
            gids = sorted(rnd.sample(gids, 4))
            locs = locs[:2]
        # the model is evaluated on what the struct readers see in the saved gvar and glyf bytes
        try:
            rdescs = _descs_from_reader(_read_glyf(data))
        except T.Bad:
            continue
        rvars = {}
        for gi in gids:
            npts = len(g["variations"][gi][0]["deltas"])
            tl = [] if rd["glyphs"][gi] is None else [_tv_read(t, npts) for t in rd["glyphs"][gi]["tuples"]]
            rvars[gi] = [{"region": {t: tuple(v / 16384.0 for v in reg[k]) for k, t in enumerate(tags)}, "deltas": dl} for reg, dl in tl]
        for loc in locs:
            norm = [loc[t] for t in tags]
            expected, advs = {}, {}
            for gi in gids:
                expected[gi], advs[gi] = _vary(rdescs[gi], rvars[gi], tags, loc, 500)
            hb = _hb(data, normalized=[v / 16384.0 for v in norm])        # uharfbuzz takes floats (1.0 = 16384)
            ft = _ft(data)
            ft.set_coords([v / 16384.0 for v in norm])
            n_ok = 0
            for gi in gids:
                if any(abs(x) > 32000 or abs(y) > 32000 for c in expected[gi] for x, y, on in c) or abs(advs[gi]) > 32000:
                    _note("gvar.engines-skipped-varied-outline-outside-int16")   # rasterisers wrap there
                    continue
                rec = _rec_of(expected[gi])
                ok_hb, stage, why = geom.outlines_match(hb.outline(gi), rec, 0.05)
                fc, _a = ft.outline_points(gi)
                a = [(x, y, on) for c in fc for x, y, on, cub in c]
                b = [(x, y, on) for c in expected[gi] for x, y, on in c]
                # FreeType works in 16.16: the scalar of each axis carries an error of 2^-16, times the delta, per tuple;
                # plus the final rounding to integers
                tol_ft = 1.01 + sum(max([abs(v) for d in tp["deltas"] if d is not None for v in d] or [0]) for tp in rvars[gi]) * len(tags) / 32768.0
                ok_ft = len(a) == len(b) and all(p[2] == q[2] and abs(p[0] - q[0]) <= tol_ft and abs(p[1] - q[1]) <= tol_ft for p, q in zip(a, b))
                adv_hb = hb.h_advance(gi)
                # HarfBuzz clamps negative advances and wraps above 32767: only compare inside that range
                ok_adv = abs(adv_hb - advs[gi]) <= 1.0 if 0 <= advs[gi] <= 32767 else True
                ctx.judged()
                if ok_hb and ok_ft and ok_adv:
                    n_ok += 1
                    continue
                detail = {"gid": gi, "location": loc, "harfbuzz": (ok_hb, why), "freetype": ok_ft, "advance": (advs[gi], adv_hb),
                          "expected_head": [c[:3] for c in expected[gi][:1]]}
                if not ok_hb and not ok_ft:
                    _semantic(ctx, "gvar", "harfbuzz+freetype", "both engines draw another varied outline than the struct reader's tuples give", detail)
                else:
                    _disagree(ctx, "gvar outline: harfbuzz %s freetype %s advance %s" % (ok_hb, ok_ft, ok_adv), detail)
            _note("gvar.varied-outlines-confirmed-by-engines", n_ok)


def drv_fvar(case, rnd, ctx):
    from fontTools.ttLib import newTable
    from fontTools.ttLib.tables._f_v_a_r import Axis, NamedInstance
    from vmon.gen import c02_var as G

    shape = case["shape"]
    for rep in range(case["reps"]):
        fv = G.gen_fvar(rnd, shape)
        names = _names(3)
        fb = _build(names, [dict(_TRI) for _ in names])
        tab = fb.font["fvar"] = newTable("fvar")
        for a in fv["axes"]:
            ax = Axis()
            ax.axisTag, ax.minValue, ax.defaultValue, ax.maxValue, ax.flags, ax.axisNameID = a["tag"], a["min"], a["default"], a["max"], a["flags"], a["nameID"]
            tab.axes.append(ax)
        for i in fv["instances"]:
            ni = NamedInstance()
            ni.subfamilyNameID, ni.flags, ni.postscriptNameID = i["subfamilyNameID"], i["flags"], i["postscriptNameID"]
            ni.coordinates = dict(i["coords"])
            tab.instances.append(ni)
        if ctx.sample is None:
            ctx.sample = {"kind": "fvar", "shape": shape, "axes": fv["axes"][:3], "instances": len(fv["instances"])}
        _cur["cap"].pop("fvar", None)
        ok, data = _save(ctx, fb, table="fvar", shape=shape)
        cap = _cur["cap"].get("fvar")
        if not ok or cap is None:
            continue
        rd = cap["reader"]
        ctx.judged()
        want_axes = [(a["tag"], _q16(a["min"]), _q16(a["default"]), _q16(a["max"]), a["flags"], a["nameID"]) for a in fv["axes"]]
        if [(a["tag"], a["min"], a["default"], a["max"], a["flags"], a["nameID"]) for a in rd["axes"]] != want_axes:
            _semantic(ctx, "fvar", "reader", "compiled axes differ from the generated content", (want_axes[:2], rd["axes"][:2]))
        want_inst = [[_q16(i["coords"][a["tag"]]) for a in fv["axes"]] for i in fv["instances"]]
        if [i["coords"] for i in rd["instances"]] != want_inst:
            _semantic(ctx, "fvar", "reader", "compiled instances differ from the generated content", (want_inst[:2], rd["instances"][:2]))
        # HarfBuzz's view (float32 values: relative precision 2^-23) and FreeType's (exact 16.16)
        hb = _hb(data)
        infos = hb.face.axis_infos
        got = [(i.tag, _q16(i.min_value), _q16(i.default_value), _q16(i.max_value), int(i.flags), i.name_id) for i in infos]

        def close(w, g):
            return abs(w - g) <= max(1, abs(w) >> 22)

        def axis_eq(w, g):
            return w[0] == g[0] and all(close(a, b) for a, b in zip(w[1:4], g[1:4])) and w[4:] == g[4:]
        ctx.judged()
        # engines vs the struct reader's view
        want_axes = [(a["tag"], a["min"], a["default"], a["max"], a["flags"], a["nameID"]) for a in rd["axes"]]
        want_inst = [i["coords"] for i in rd["instances"]]
        bad_hb = [(w, g) for w, g in zip(want_axes, got) if not axis_eq(w, g)]
        if len(got) != len(want_axes):
            bad_hb.append(("axis count", len(want_axes), len(got)))
        goti = [([_q16(c) for c in i.design_coords], i.subfamily_name_id) for i in hb.face.named_instances]
        wanti = [(c, i["subfamilyNameID"]) for c, i in zip(want_inst, rd["instances"])]
        if len(goti) != len(wanti) or any(w[1] != g[1] or not all(close(a, b) for a, b in zip(w[0], g[0])) for w, g in zip(wanti, goti)):
            bad_hb.append(("instances", wanti[:2], goti[:2]))
        bad_ft = []
        try:
            vi = _ft(data).face.get_variation_info()
            gax = [(a.tag, _q16(a.minimum), _q16(a.default), _q16(a.maximum), a.strid) for a in vi.axes]
            wax = [(w[0], w[1], w[2], w[3], w[5]) for w in want_axes]
            if gax != wax:
                bad_ft.append(("axes", [(w, g) for w, g in zip(wax, gax) if w != g][:2] or (len(wax), len(gax))))
            gin = [[_q16(c) for c in i.coords] for i in vi.instances]
            # FreeType appends a synthetic instance for the default location when none of the named instances is there
            if gin[:len(want_inst)] != want_inst:
                bad_ft.append(("instances", want_inst[:2], gin[:2]))
            _note("fvar.freetype-axes-checked", len(gax))
        except Exception as e:
            _note("fvar.freetype-unavailable")
        if bad_hb and bad_ft:
            _semantic(ctx, "fvar", "harfbuzz+freetype", "both engines read other axes/instances than the struct reader", {"harfbuzz": bad_hb[:2], "freetype": bad_ft[:2]})
        elif bad_hb or bad_ft:
            _disagree(ctx, "fvar: engines vs struct reader", {"harfbuzz": bad_hb[:2], "freetype": bad_ft[:2]})
        _note("fvar.harfbuzz-axes-checked", len(got))


def _avar_map(pairs, k):
    """Piecewise-linear segment map on 2.14 integers (OpenType avar), as an exact rational."""
    from fractions import Fraction
    if not pairs:
        return Fraction(k)
    if k <= pairs[0][0]:
        return Fraction(k - pairs[0][0] + pairs[0][1])
    for (f0, t0), (f1, t1) in zip(pairs, pairs[1:]):
        if k == f1:
            return Fraction(t1)
        if k < f1:
            return Fraction(t0) + Fraction(t1 - t0) * (k - f0) / (f1 - f0)
    return Fraction(k - pairs[-1][0] + pairs[-1][1])


def drv_avar(case, rnd, ctx):
    from fontTools.ttLib import newTable
    from vmon.gen import c02_var as G

    shape = case["shape"]
    for rep in range(case["reps"]):
        tags = ["wght", "wdth", "opsz"][:rnd.randint(1, 3)]
        seg = G.gen_avar(rnd, shape, tags)
        names = _names(3)
        fb = _build(names, [dict(_TRI) for _ in names])
        # user scale chosen so that v = k/16 (v > 0) and v = k/32 (v < 0) normalise exactly to k / 16384
        fb.setupFvar([(t, -512.0, 0.0, 1024.0, t) for t in tags], [])
        av = fb.font["avar"] = newTable("avar")
        av.segments = {t: dict(m) for t, m in seg.items()}
        if ctx.sample is None:
            ctx.sample = {"kind": "avar", "shape": shape, "axes": tags, "first_map": sorted(seg[tags[0]].items())[:6]}
        _cur["cap"].pop("avar", None)
        ok, data = _save(ctx, fb, table="avar", shape=shape)
        cap = _cur["cap"].get("avar")
        if not ok or cap is None:
            continue
        maps = cap["reader"]["maps"]
        ctx.judged()
        want = [sorted((_q14(k), _q14(v)) for k, v in seg[t].items()) for t in tags]
        if maps != want:
            _semantic(ctx, "avar", "reader", "compiled segment maps differ from the generated content", (want[0][:4], maps[0][:4] if maps else None))
            continue
        bad_hb, bad_ft, cnt = [], [], 0
        for _ in range(25):
            ks = []
            for i, t in enumerate(tags):
                pts = [p[0] for p in maps[i]]
                k = rnd.choice([rnd.randint(-16384, 16384), rnd.choice(pts), rnd.choice(pts) + rnd.choice([-1, 1]), 0, 16384, -16384])
                ks.append(max(-16384, min(16384, k)))
            user = {t: (k / 16.0 if k >= 0 else k / 32.0) for t, k in zip(tags, ks)}
            hb = _hb(data, variations=user)
            got = [int(round(v * 16384)) for v in hb.normalized_coords()]     # uharfbuzz reports floats (1.0 = 16384)
            got = got + [0] * (len(tags) - len(got))
            ft = _ft(data)
            ft.set_coords([user[t] for t in tags])
            gft = ft.face.get_var_blend_coords()
            for i, k in enumerate(ks):
                exp = float(max(-16384, min(16384, _avar_map(maps[i], k))))
                cnt += 1
                # both engines evaluate the map in 16.16 (error <= 1/8 of a 2.14 unit); HarfBuzz then rounds to 2.14
                # (<= 1/2): |harfbuzz - exact| <= 5/8, |freetype - exact| <= 1/8 (+ its own MulDiv rounding)
                if abs(got[i] - exp) > 0.75:
                    bad_hb.append((tags[i], k, exp, got[i]))
                if abs(gft[i] * 16384 - exp) > 0.5:
                    bad_ft.append((tags[i], k, exp, gft[i] * 16384))
        ctx.judged()
        _note("avar.coordinates-checked-by-engines", cnt)
        if bad_hb and bad_ft:
            _semantic(ctx, "avar", "harfbuzz+freetype", "both engines normalise differently from the content's segment maps",
                      {"harfbuzz": bad_hb[:3], "freetype": bad_ft[:3]})
        elif bad_hb or bad_ft:
            _disagree(ctx, "avar engines vs model", {"harfbuzz": bad_hb[:3], "freetype": bad_ft[:3]})


# =====================================================================================
# delta-set index maps (HVAR / VVAR AdvWidthMap..., COLR VarIndexMap) and small dict-built tables (VORG, gasp, hdmx)
# =====================================================================================
def _idxmap_expand(dm, n):
    """Entries of a struct-read DeltaSetIndexMap for slots 0..n-1 (spec: slots past the end use the last entry)."""
    e = dm["entries"]
    if not e:
        return [None] * n
    return [e[i] if i < len(e) else e[-1] for i in range(n)]


def _setup_idxmap():
    from fontTools.ttLib.tables import otTables as ot, otBase, V_O_R_G_ as VO, _g_a_s_p as GA, _h_d_m_x as HD
    from fontTools.ttLib import newTable

    def post_format(state, a, kw, res, exc):
        if exc is not None:
            return
        mapping = list(a[0])
        _judged()
        inner_bits = (res & 0x0F) + 1
        size = ((res & 0x30) >> 4) + 1
        ori = oro = 0
        for v in mapping:
            ori |= v & 0xFFFF
            oro |= v >> 16
        need_i = max(1, ori.bit_length())
        if inner_bits < need_i or size * 8 < inner_bits + oro.bit_length() or res & ~0x3F:
            _report("DeltaSetIndexMap", "reader", "entry format cannot hold the indices",
                    {"entryFormat": res, "innerBits": inner_bits, "entrySize": size, "OR(inner)": ori, "OR(outer)": oro},
                    field="innerBits" if inner_bits < need_i else "entrySize")
        rel = lambda x: "0" if x == 0 else "2^k" if x & (x - 1) == 0 else "2^k-1" if x & (x + 1) == 0 else "2^k+1" if (x - 1) & (x - 2) == 0 else "x"
        _note("DeltaSetIndexMap.entry-size-%d" % size)
        _key("DSIM/i%s/o%s/s%d/b%d" % (rel(ori), rel(oro), size, inner_bits))

    hooks.attach(ot, "DeltaSetIndexMap.getEntryFormat", post=post_format, name="DeltaSetIndexMap.getEntryFormat")

    def xvar_content(tab, font):
        order = font.getGlyphOrder()
        names = ("AdvWidthMap", "LsbMap", "RsbMap") if tab.tableTag == "HVAR" else ("AdvHeightMap", "TsbMap", "BsbMap", "VOrgMap")
        out = {}
        for key, nm in zip(("advance", "sb1", "sb2", "vorg"), names):
            m = getattr(tab.table, nm, None)
            out[key] = None if m is None else [(m.mapping[g] >> 16, m.mapping[g] & 0xFFFF) for g in order]
        return out

    def pre_xvar(a, kw):
        tab, font = a[0], a[1]
        if tab.tableTag not in ("HVAR", "VVAR"):
            return None
        return {"want": xvar_content(tab, font)}

    def post_xvar(state, a, kw, res, exc):
        if exc is not None or state is None:
            return
        tab, font = a[0], a[1]
        tag = tab.tableTag
        res = bytes(res)
        n = len(font.getGlyphOrder())
        want = state["want"]
        _judged()
        try:
            rd = T.hvar(res, vertical=tag == "VVAR")
        except (T.Bad, struct.error, IndexError) as e:
            _report(tag, "reader", "spec reader rejects the table", repr(e))
            return
        got = {k: (None if m is None else _idxmap_expand(m, n)) for k, m in rd["maps"].items()}
        _cur["cap"][tag] = {"bytes": res, "reader": rd, "maps": got}
        for k in want:
            if want[k] != got.get(k):
                w, g = want[k] or [], got.get(k) or []
                _report(tag, "reader", "spec reader sees other delta-set indices", {"map": k, "diff(glyph,want,got)": [(i, x, y) for i, (x, y) in enumerate(zip(w, g)) if x != y][:4] or (len(w), len(g))},
                        field=k)
        t2 = newTable(tag)
        _judged()
        try:
            t2.decompile(res, font)
            back = xvar_content(t2, font)
        except Exception as e:
            _report(tag, "self-inverse", "decompile of compile output raised %s" % type(e).__name__, repr(e))
            return
        if back != want:
            k = [k for k in want if want[k] != back.get(k)][0]
            _report(tag, "self-inverse", "decompile(compile(x)) != x", {"map": k, "diff": [(i, x, y) for i, (x, y) in enumerate(zip(want[k] or [], back.get(k) or [])) if x != y][:4]}, field=k)
        _note("%s.tables" % tag)
        for k, m in rd["maps"].items():
            if m is not None:
                _note("%s.map-entries-stored" % tag, len(m["entries"]))
                if len(m["entries"]) < n:
                    _note("%s.maps-with-trimmed-tail" % tag)

    hooks.attach(otBase, "BaseTTXConverter.compile", pre=pre_xvar, post=post_xvar, name="xVAR.compile")

    # ---- tables compiled from dicts: the records must come out sorted whatever the insertion order
    def post_vorg(state, a, kw, res, exc):
        if exc is not None:
            return
        tab, font = a[0], a[1]
        rev = _rev(font)
        res = bytes(res)
        want = {rev[g]: v for g, v in tab.VOriginRecords.items()}
        _judged()
        try:
            rd = T.vorg(res)
        except (T.Bad, struct.error) as e:
            _report("VORG", "reader", "spec reader rejects the table", repr(e))
            return
        if rd["records"] != want or rd["default"] != tab.defaultVertOriginY:
            _report("VORG", "reader", "spec reader sees other records", _dictdiff(want, rd["records"]))
        t2 = VO.table_V_O_R_G_()
        _judged()
        try:
            t2.decompile(res, font)
            back = {rev[g]: v for g, v in t2.VOriginRecords.items()}
        except Exception as e:
            _report("VORG", "self-inverse", "decompile of compile output raised %s" % type(e).__name__, repr(e))
            return
        if back != want or t2.defaultVertOriginY != tab.defaultVertOriginY:
            _report("VORG", "self-inverse", "decompile(compile(x)) != x", _dictdiff(want, back))
        _key("VORG/n%s" % _size_class(len(want)))

    hooks.attach(VO, "table_V_O_R_G_.compile", post=post_vorg, name="VORG.compile")

    def post_gasp(state, a, kw, res, exc):
        if exc is not None:
            return
        tab, font = a[0], a[1]
        res = bytes(res)
        want = sorted(tab.gaspRange.items())
        _judged()
        try:
            rd = T.gasp(res)
        except (T.Bad, struct.error) as e:
            _report("gasp", "reader", "spec reader rejects the table", repr(e))
            return
        if rd["ranges"] != want:
            _report("gasp", "reader", "spec reader sees other ranges", (want[:4], rd["ranges"][:4]))
        t2 = GA.table__g_a_s_p()
        _judged()
        try:
            t2.decompile(res, font)
        except Exception as e:
            _report("gasp", "self-inverse", "decompile of compile output raised %s" % type(e).__name__, repr(e))
            return
        if sorted(t2.gaspRange.items()) != want:
            _report("gasp", "self-inverse", "decompile(compile(x)) != x", (want[:4], sorted(t2.gaspRange.items())[:4]))
        _key("gasp/v%d/n%s" % (rd["version"], _size_class(len(want))))

    hooks.attach(GA, "table__g_a_s_p.compile", post=post_gasp, name="gasp.compile")

    def post_hdmx(state, a, kw, res, exc):
        if exc is not None:
            return
        tab, font = a[0], a[1]
        res = bytes(res)
        order = font.getGlyphOrder()
        want = [(ppem, max(w.values()), [w[g] for g in order]) for ppem, w in sorted(tab.hdmx.items())]
        _judged()
        try:
            rd = T.hdmx(res, len(order))
        except (T.Bad, struct.error, IndexError) as e:
            _report("hdmx", "reader", "spec reader rejects the table", repr(e))
            return
        if rd["records"] != want:
            _report("hdmx", "reader", "spec reader sees other device records", [(w[0], g[0]) for w, g in zip(want, rd["records"]) if w != g][:4] or (len(want), len(rd["records"])))
        t2 = HD.table__h_d_m_x()
        _judged()
        try:
            t2.decompile(res, font)
            back = [(ppem, max(w.values()), [w[g] for g in order]) for ppem, w in sorted(t2.hdmx.items())]
        except Exception as e:
            _report("hdmx", "self-inverse", "decompile of compile output raised %s" % type(e).__name__, repr(e))
            return
        if back != want:
            _report("hdmx", "self-inverse", "decompile(compile(x)) != x", (len(want), len(back)))
        _key("hdmx/r%s/n%s" % (_size_class(len(want)), _size_class(len(order))))

    hooks.attach(HD, "table__h_d_m_x.compile", post=post_hdmx, name="hdmx.compile")
    _site("VarIdxMap.trailing-run-trimmed", ot.VarIdxMap.preWrite, r"del mapping\[-1\]")
    _site("DeltaSetIndexMap.format1-long-count", ot.DeltaSetIndexMap.preWrite, r"self\.Format = 1 if")


_SETUPS.append(_setup_idxmap)


def _row_delta(outer, inner):
    return (outer * 131 + inner * 7) % 2001          # non-negative: HarfBuzz clamps negative advances


def drv_idxmap(case, rnd, ctx):
    """Advance-width delta-set index maps (HVAR/VVAR) and a bare DeltaSetIndexMap (COLR VarIndexMap)."""
    from fontTools.ttLib import newTable
    from fontTools.ttLib.tables import otTables as ot
    from fontTools.varLib import builder as VB
    from vmon.gen import c02_var as G

    shape, host, big = case["shape"], case["host"], bool(case.get("big"))
    for rep in range(case["reps"]):
        n = rnd.choice([3, 9, 40]) if not case.get("count") else case["count"]
        entries = G.gen_index_map(rnd, shape, n, big=big)
        # an item variation store with one region (wght peak 1) and a distinct delta in every row
        nouter = max([o for o, i in entries if o != 0xFFFF] + [0]) + 1
        rows = [1] * nouter
        for o, i in entries:
            if o != 0xFFFF:
                rows[o] = max(rows[o], i + 1)
        if ctx.sample is None:
            ctx.sample = {"kind": "delta-set index map", "host": host, "shape": shape, "slots": n, "entries_head": entries[:6],
                          "OR(inner)": hex(sum({1 << b for o, i in entries for b in range(16) if i >> b & 1}))}
        store = VB.buildVarStore(VB.buildVarRegionList([{"wght": (0.0, 1.0, 1.0)}], ["wght"]),
                                 [VB.buildVarData([0], [[_row_delta(o, i)] for i in range(rows[o])], optimize=False) for o in range(nouter)])
        varidx = [(o << 16) | i for o, i in entries]
        if host == "COLR":
            from fontTools.colorLib.builder import buildCOLR
            names = _names(4)
            fb = _build(names, [dict(_TRI) for _ in names], cmap=_pua(names))
            fb.setupFvar([("wght", -1.0, 0.0, 1.0, "wght")], [])
            m = ot.DeltaSetIndexMap()
            m.mapping = list(varidx)
            _cur["cap"].pop("COLR", None)

            def build():
                fb.font["COLR"] = buildCOLR({names[1]: {"Format": 10, "Glyph": names[2], "Paint": {"Format": 3, "PaletteIndex": 0, "Alpha": 1.0, "VarIndexBase": 0}}},
                                            version=1, glyphMap=fb.font.getReverseGlyphMap(), varStore=store, varIndexMap=m)
                fb.setupCPAL([[(1, 0, 0, 1)]])
            ok, _x = _lib(ctx, "buildCOLR", build, table="COLR", shape=shape)
            if not ok:
                continue
            ok, data = _save(ctx, fb, table="COLR", shape=shape)
            if not ok:
                continue
            tabs = T.sfnt_tables(data)
            ctx.judged()
            try:
                dm = T.colr_var_index_map(tabs["COLR"])
            except (T.Bad, struct.error, IndexError) as e:
                _semantic(ctx, "COLR", "reader", "VarIndexMap rejected by the spec reader", repr(e), field="VarIndexMap")
                continue
            got = dm["entries"] if dm else None
            if got != entries:
                _semantic(ctx, "COLR", "reader", "compiled VarIndexMap differs from the generated content",
                          [(i, w, g) for i, (w, g) in enumerate(zip(entries, got or [])) if w != g][:4] or (len(entries), len(got or [])),
                          field="VarIndexMap", diff="changed")
            if dm and (dm["format"] == 1) != (len(entries) > 0xFFFF):
                _semantic(ctx, "COLR", "reader", "VarIndexMap format does not match the entry count", (dm["format"], len(entries)), field="VarIndexMap")
            # self-inverse on the saved table
            t2 = newTable("COLR")
            ok, _x = _lib(ctx, "COLR.decompile", t2.decompile, tabs["COLR"], fb.font, table="COLR")
            if ok:
                ctx.judged()
                back = [(v >> 16, v & 0xFFFF) for v in t2.table.VarIndexMap.mapping]
                if back != entries:
                    ctx.violation({"kind": "content", "table": "COLR", "oracle": "self-inverse", "what": "decompile(compile(x)) != x", "field": "VarIndexMap"},
                                  "COLR VarIndexMap: decompile(compile(x)) != x — %s" % _short([(i, w, g) for i, (w, g) in enumerate(zip(entries, back)) if w != g][:4]))
            _key("DSIM/COLR/f%d/n%s" % (dm["format"] if dm else -1, _size_class(len(entries))))
            continue
        # HVAR / VVAR: one slot per glyph
        names = _names(n)
        vertical = host == "VVAR"
        fb = _build(names, [dict(_TRI) for _ in names], cmap=_pua(names),
                    vmetrics={nm: (1000, 0) for nm in names} if vertical else None)
        fb.setupFvar([("wght", -1.0, 0.0, 1.0, "wght")], [])
        tab = fb.font[host] = newTable(host)
        t = tab.table = getattr(ot, host)()
        t.Version = 0x00010000
        t.VarStore = store
        items = list(zip(names, varidx))
        rnd.shuffle(items)                       # dict insertion order must not matter
        vm = ot.VarIdxMap()
        vm.mapping = dict(items)
        if vertical:
            t.AdvHeightMap, t.TsbMap, t.BsbMap, t.VOrgMap = vm, None, None, None
        else:
            t.AdvWidthMap, t.LsbMap, t.RsbMap = vm, None, None
        _cur["cap"].pop(host, None)
        ok, data = _save(ctx, fb, table=host, shape=shape)
        cap = _cur["cap"].get(host)
        if not ok or cap is None:
            continue
        ctx.judged()
        got = cap["maps"]["advance"]
        if got != entries:
            _semantic(ctx, host, "reader", "compiled index map differs from the generated content",
                      [(i, w, g) for i, (w, g) in enumerate(zip(entries, got or [])) if w != g][:4], field="advance", diff="changed")
        # HarfBuzz at wght = 1: advance = default + delta of the row the *struct reader* sees
        hb = _hb(data, normalized=[1.0])
        bad = []
        for gid in range(n) if n <= 200 else rnd.sample(range(n), 200):
            o, i = got[gid]
            d = _row_delta(o, i) if (o != 0xFFFF and o < nouter and i < rows[o]) else 0
            adv = -hb.v_advance(gid) if vertical else hb.h_advance(gid)
            base = 1000 if vertical else 500
            if adv != base + d:
                bad.append((gid, (o, i), base + d, adv))
        ctx.judged()
        _note("%s.harfbuzz-advances-checked" % host, min(n, 200))
        if bad:
            _disagree(ctx, "%s index map: harfbuzz vs struct reader" % host, bad[:4])


def drv_dicttables(case, rnd, ctx):
    """VORG, gasp, hdmx: built from dicts in shuffled insertion order; their records are binary-searched by readers."""
    from fontTools.ttLib import newTable

    for rep in range(case["reps"]):
        n = rnd.choice([1, 2, 7, 60, 300])
        names = _names(n)
        font = _order_font(n)
        # VORG
        t = newTable("VORG")
        t.majorVersion, t.minorVersion = 1, 0
        t.defaultVertOriginY = rnd.choice([880, 0, -32768, 32767])
        items = [(names[g], rnd.choice([0, 880, -120, 32767, -32768, rnd.randint(-1000, 1000)])) for g in rnd.sample(range(n), rnd.randint(0, n))]
        rnd.shuffle(items)
        t.VOriginRecords = dict(items)
        if ctx.sample is None:
            ctx.sample = {"kind": "VORG/gasp/hdmx", "numGlyphs": n, "VORG_records_in_insertion_order": items[:5]}
        _lib(ctx, "VORG.compile", t.compile, font, table="VORG")
        # gasp
        t = newTable("gasp")
        t.version = 1
        ppems = rnd.sample([7, 8, 9, 16, 17, 20, 48, 255, 256, 0x7FFF, 0xFFFE, 0xFFFF], rnd.randint(1, 8))
        t.gaspRange = {p: rnd.choice([0, 1, 2, 3, 5, 10, 15]) for p in ppems}
        _lib(ctx, "gasp.compile", t.compile, font, table="gasp")
        # hdmx
        t = newTable("hdmx")
        sizes = rnd.sample(range(1, 256), rnd.randint(1, 12))
        t.hdmx = {}
        for ppem in sizes:
            order = list(names)
            rnd.shuffle(order)
            t.hdmx[ppem] = {g: rnd.choice([0, 1, 255, rnd.randrange(256)]) for g in order}
        _lib(ctx, "hdmx.compile", t.compile, _Shim(names, maxp=types.SimpleNamespace(numGlyphs=n)), table="hdmx")


# =====================================================================================
# COLR v0 / v1
# =====================================================================================
def _setup_colr():
    from fontTools.ttLib.tables import C_O_L_R_ as M
    from fontTools.colorLib import builder as CB, unbuilder as CU
    from fontTools.ttLib import newTable

    def v0_plain(tab, rev):
        return {rev[b]: [(rev[l.name], l.colorID) for l in ls] for b, ls in tab.ColorLayers.items()}

    def v1_plain(table):
        if table.BaseGlyphList is None:
            return {}
        return CU.unbuildColrV1(table.LayerList, table.BaseGlyphList)

    def post(state, a, kw, res, exc):
        if exc is not None:
            return
        tab, font = a[0], a[1]
        res = bytes(res)
        rev = _rev(font)
        _judged()
        try:
            got = T.colr_v0(res)
        except (T.Bad, struct.error, IndexError) as e:
            _report("COLR", "reader", "spec reader rejects the table", repr(e), format=tab.version)
            return
        _cur["cap"]["COLR"] = {"bytes": res, "reader": got}
        if tab.version == 0:
            want = v0_plain(tab, rev)
        else:
            t = tab.table
            want = {}
            if t.BaseGlyphRecordArray is not None:
                lr = t.LayerRecordArray.LayerRecord if t.LayerRecordArray is not None else []
                for r in t.BaseGlyphRecordArray.BaseGlyphRecord:
                    want[rev[r.BaseGlyph]] = [(rev[l.LayerGlyph], l.PaletteIndex) for l in lr[r.FirstLayerIndex:r.FirstLayerIndex + r.NumLayers]]
        if got["version"] != tab.version or got["base"] != want:
            _report("COLR", "reader", "spec reader sees other layer records", _dictdiff(want, got["base"]) or (got["version"], tab.version), format=tab.version)
        t2 = newTable("COLR")
        _judged()
        try:
            t2.decompile(res, font)
            if tab.version == 0:
                ok = v0_plain(t2, rev) == want and t2.version == 0
                d = None if ok else _dictdiff(want, v0_plain(t2, rev))
            else:
                a1, a2 = v1_plain(tab.table), v1_plain(t2.table)
                ok = a1 == a2 and t2.version == tab.version
                d = None if ok else [(k, _short(a1.get(k), 200), _short(a2.get(k), 200)) for k in a1 if a1.get(k) != a2.get(k)][:2]
                clips1 = {k: (v.xMin, v.yMin, v.xMax, v.yMax) for k, v in (tab.table.ClipList.clips.items() if tab.table.ClipList else [])}
                clips2 = {k: (v.xMin, v.yMin, v.xMax, v.yMax) for k, v in (t2.table.ClipList.clips.items() if t2.table.ClipList else [])}
                if clips1 != clips2:
                    ok, d = False, ("clip boxes", _dictdiff(clips1, clips2))
        except Exception as e:
            _report("COLR", "self-inverse", "decompile of compile output raised %s" % type(e).__name__, repr(e), format=tab.version)
            return
        if not ok:
            _report("COLR", "self-inverse", "decompile(compile(x)) != x", d, format=tab.version,
                    content="all-bases-without-layers" if tab.version == 0 and want and not any(want.values()) else "entries")
        _note("COLR.v%d-tables" % tab.version)
        _key("COLR/v%d/b%s/l%s" % (tab.version, _size_class(len(got["base"])), _size_class(got["numLayers"])))

    hooks.attach(M, "table_C_O_L_R_.compile", post=post, name="COLR.compile")

    def post_build(state, a, kw, res, exc):
        if exc is not None:
            return
        glyphs, version = a[0], a[1]
        v1 = {k: v for k, v in glyphs.items() if isinstance(v, dict)}
        if not v1 or res.version == 0:
            return
        _judged()
        back = CU.unbuildColrV1(res.table.LayerList, res.table.BaseGlyphList)
        if back != v1:
            _report("COLR", "self-inverse", "unbuildColrV1(buildCOLR(x)) != x",
                    [(k, _short(v1.get(k), 300), _short(back.get(k), 300)) for k in v1 if v1.get(k) != back.get(k)][:2] or (sorted(v1), sorted(back)),
                    format=1, field="paint graph")
        total = 0
        def count(p):
            nonlocal total
            if isinstance(p, dict):
                if p.get("Format") == 1:
                    total += len(p["Layers"])
                for v in p.values():
                    if isinstance(v, dict):
                        count(v)
                    elif isinstance(v, list):
                        for e in v:
                            count(e)
        for p in v1.values():
            count(p)
        ll = res.table.LayerList
        stored = len(ll.Paint) if ll is not None else 0
        _note("COLR.layers-in-content", total)
        _note("COLR.layers-stored", stored)
        if stored < total:
            _note("COLR.builds-with-layer-reuse")
        _key("COLRb/reuse%d/l%s" % (stored < total, _size_class(total)))

    hooks.attach(CB, "buildCOLR", post=post_build, name="buildCOLR")
    _site("COLR.layer-reuse-slice", CB.LayerReuseCache.try_reuse, r"new_slice\.FirstLayerIndex = reuse_lbound")
    _site("COLR.v0-compile", M.table_C_O_L_R_.compile, r"_toOTTable|ColorLayers")


_SETUPS.append(_setup_colr)


def _mat_mul(p, c):
    """Affine composition p∘c, matrices as (xx, yx, xy, yy, dx, dy): x' = xx*x + xy*y + dx, y' = yx*x + yy*y + dy."""
    pxx, pyx, pxy, pyy, pdx, pdy = p
    cxx, cyx, cxy, cyy, cdx, cdy = c
    return (pxx * cxx + pxy * cyx, pyx * cxx + pyy * cyx, pxx * cxy + pxy * cyy, pyx * cxy + pyy * cyy,
            pxx * cdx + pxy * cdy + pdx, pyx * cdx + pyy * cdy + pdy)


def _around(m, cx, cy):
    return _mat_mul((1, 0, 0, 1, cx, cy), _mat_mul(m, (1, 0, 0, 1, -cx, -cy)))


def _paint_matrix(p):
    f = p["Format"]
    if f == 12:
        t = p["Transform"]
        return (t["xx"], t["yx"], t["xy"], t["yy"], t["dx"], t["dy"])
    if f == 14:
        return (1, 0, 0, 1, p["dx"], p["dy"])
    if f in (16, 18):
        m = (p["scaleX"], 0, 0, p["scaleY"], 0, 0)
    elif f in (20, 22):
        m = (p["scale"], 0, 0, p["scale"], 0, 0)
    elif f in (24, 26):
        a = math.radians(p["angle"])
        m = (math.cos(a), math.sin(a), -math.sin(a), math.cos(a), 0, 0)
    else:
        m = (1, math.tan(math.radians(p["ySkewAngle"])), -math.tan(math.radians(p["xSkewAngle"])), 1, 0, 0)
    if f in (18, 22, 26, 30):
        return _around(m, p["centerX"], p["centerY"])
    return m


def _expected_paint_events(p, ctm, pal, out, mag=1.0):
    """Event list of a paint tree; every drawing event carries the accumulated transform and `mag`, the
    magnitude of the intermediate terms that produced it (float32 engines lose 2^-23 of that)."""
    f = p["Format"]
    if f == 1:
        for l in p["Layers"]:
            _expected_paint_events(l, ctm, pal, out, mag)
    elif f == 2:
        out.append(("color", _pal_color(pal, p["PaletteIndex"], p["Alpha"]), ctm, mag))
    elif f in (4, 6, 8):
        cl = p["ColorLine"]
        stops = [(s["StopOffset"], _pal_color(pal, s["PaletteIndex"], s["Alpha"])) for s in cl["ColorStop"]]
        if f == 4:
            prm = (p["x0"], p["y0"], p["x1"], p["y1"], p["x2"], p["y2"])
        elif f == 6:
            prm = (p["x0"], p["y0"], p["r0"], p["x1"], p["y1"], p["r1"])
        else:
            prm = (p["centerX"], p["centerY"], math.radians(p["startAngle"]), math.radians(p["endAngle"]))
        out.append(({4: "linear", 6: "radial", 8: "sweep"}[f], prm, cl["Extend"], stops, ctm, mag))
    elif f == 10:
        out.append(("clip", p["Glyph"], ctm, mag))
        _expected_paint_events(p["Paint"], ctm, pal, out, mag)
        out.append(("pop_clip",))
    elif f == 11:
        out.append(("colrglyph", p["Glyph"], ctm, mag))
    elif f == 32:
        out.append(("push_group",))
        _expected_paint_events(p["BackdropPaint"], ctm, pal, out, mag)
        out.append(("push_group",))
        _expected_paint_events(p["SourcePaint"], ctm, pal, out, mag)
        out.append(("pop_group", p["CompositeMode"]))
        out.append(("pop_group", "src_over"))
    else:
        m = _paint_matrix(p)
        lin = max(1.0, max(abs(v) for v in m[:4]))
        off = max([abs(p.get(k, 0)) for k in ("centerX", "centerY", "dx", "dy")] + [abs(m[4]), abs(m[5])])
        _expected_paint_events(p["Paint"], _mat_mul(ctm, m), pal, out, (mag + off) * lin * max(1.0, max(abs(v) for v in ctm[:4])))


def _pal_color(pal, idx, alpha):
    if idx == 0xFFFF:
        return ("fg", alpha)
    r, g, b, a = pal[idx]
    return (r, g, b, a * alpha)


def _hb_paint_events(hbo, gid):
    import uharfbuzz as hb

    ev = []
    stack = [(1, 0, 0, 1, 0, 0)]
    clips = []

    def stops_of(cl):
        return [(s.offset, ("fg", s.color.alpha) if s.is_foreground else (s.color.red, s.color.green, s.color.blue, s.color.alpha)) for s in cl.color_stops]

    fn = hb.PaintFuncs()
    fn.set_push_transform_func(lambda xx, yx, xy, yy, dx, dy, ud: stack.append(_mat_mul(stack[-1], (xx, yx, xy, yy, dx, dy))))
    fn.set_pop_transform_func(lambda ud: stack.pop())
    fn.set_push_clip_glyph_func(lambda g, ud: (clips.append("g"), ev.append(("clip", g, stack[-1]))))
    fn.set_push_clip_rectangle_func(lambda x0, y0, x1, y1, ud: (clips.append("r"), ev.append(("cliprect", (x0, y0, x1, y1), stack[-1]))))
    fn.set_pop_clip_func(lambda ud: ev.append(("pop_clip",) if clips.pop() == "g" else ("pop_cliprect",)))
    fn.set_color_func(lambda c, fg, ud: ev.append(("color", ("fg", c.alpha) if fg else (c.red, c.green, c.blue, c.alpha), stack[-1])))
    fn.set_linear_gradient_func(lambda cl, x0, y0, x1, y1, x2, y2, ud: ev.append(("linear", (x0, y0, x1, y1, x2, y2), int(cl.extend), stops_of(cl), stack[-1])))
    fn.set_radial_gradient_func(lambda cl, x0, y0, r0, x1, y1, r1, ud: ev.append(("radial", (x0, y0, r0, x1, y1, r1), int(cl.extend), stops_of(cl), stack[-1])))
    fn.set_sweep_gradient_func(lambda cl, cx, cy, a0, a1, ud: ev.append(("sweep", (cx, cy, a0, a1), int(cl.extend), stops_of(cl), stack[-1])))
    fn.set_push_group_func(lambda ud: ev.append(("push_group",)))
    fn.set_pop_group_func(lambda mode, ud: ev.append(("pop_group", int(mode))))
    fn.set_color_glyph_func(lambda g, ud: (ev.append(("colrglyph", g, stack[-1])), True)[1])
    hbo.font.paint_glyph(gid, fn, None, 0, hb.Color(1, 2, 3, 255))
    return ev


def _close(a, b, tol):
    return abs(a - b) <= tol * max(1.0, abs(a), abs(b))


def _cmp_color(w, g):
    if (w[0] == "fg") != (g[0] == "fg"):
        return False
    if w[0] == "fg":
        return abs(w[1] * 255 - g[1]) <= 1.01
    return all(abs(x * 255 - y) <= 0.51 for x, y in zip(w[:3], g[:3])) and abs(w[3] * 255 - g[3]) <= 1.01


def _cmp_events(want, got, modes, extends):
    """-> None or a description of the first difference."""
    got = [e for e in got if e[0] not in ("cliprect", "pop_cliprect")]
    if [e[0] for e in want] != [e[0] for e in got]:
        return ("event sequence", [e[0] for e in want][:12], [e[0] for e in got][:12])
    for i, (w, g) in enumerate(zip(want, got)):
        k = w[0]
        if k in ("clip", "colrglyph"):
            if w[1] != g[1]:
                return (k, i, w[1], g[1])
        elif k == "color":
            if not _cmp_color(w[1], g[1]):
                return (k, i, w[1], g[1])
        elif k in ("linear", "radial", "sweep"):
            if not all(_close(a, b, 1e-4) for a, b in zip(w[1], g[1])):
                return (k + " geometry", i, w[1], g[1])
            if extends[w[2]] != g[2]:
                return (k + " extend", i, w[2], g[2])
            if len(w[3]) != len(g[3]) or not all(_close(a[0], b[0], 1e-4) and _cmp_color(a[1], b[1]) for a, b in zip(w[3], g[3])):
                return (k + " stops", i, w[3][:3], g[3][:3])
        elif k == "pop_group":
            if modes[w[1]] != g[1]:
                return (k, i, w[1], g[1])
        if k in ("clip", "colrglyph", "color", "linear", "radial", "sweep"):
            wm, mag = w[-2], w[-1]
            if not all(abs(a - b) <= 2e-4 * max(1.0, abs(a)) + 2e-6 * mag for a, b in zip(wm, g[-1])):
                return (k + " transform", i, tuple(round(v, 4) for v in wm), tuple(round(v, 4) for v in g[-1]))
    return None


def drv_colr(case, rnd, ctx):
    from vmon.gen import c02_colr as G
    import uharfbuzz as hb

    ver, shape = case["version"], case["shape"]
    modes = {m: int(getattr(hb.PaintCompositeMode, m.upper())) for m in G.COMPOSITE_MODES}
    extends = {e: int(getattr(hb.PaintExtend, e.upper())) for e in ("pad", "repeat", "reflect")}
    for rep in range(case["reps"]):
        n = rnd.choice([8, 30]) if shape != "reuse_many" else 340
        names = _names(n)
        npal = rnd.randint(1, 6)
        pal = [(rnd.randrange(256) / 255, rnd.randrange(256) / 255, rnd.randrange(256) / 255, rnd.choice([255, 128, 0, rnd.randrange(256)]) / 255)
               for _ in range(npal)]
        fb = _build(names, [dict(_TRI) for _ in names], cmap=_pua(names))
        clips = {}
        if ver == 0:
            content = G.gen_v0(rnd, shape, n, npal)
            glyphs = {names[b]: [(names[l], p) for l, p in ls] for b, ls in content.items()}
        else:
            content, clips = G.gen_v1(rnd, shape, n, npal)

            def named(p):
                if isinstance(p, list):
                    return [named(e) if isinstance(e, dict) else e for e in p]
                d = {}
                for k, v in p.items():
                    if k == "Glyph":
                        d[k] = names[v]
                    elif isinstance(v, (dict, list)):
                        d[k] = named(v)
                    else:
                        d[k] = v
                return d
            glyphs = {names[b]: (named(p) if isinstance(p, dict) else [(names[l], pi) for l, pi in p]) for b, p in content.items()}
        if ctx.sample is None:
            b0 = sorted(content)[0]
            ctx.sample = {"kind": "COLR", "version": ver, "shape": shape, "numGlyphs": n, "bases": len(content), "first": _short(content[b0], 300)}
        _cur["cap"].pop("COLR", None)

        def build():
            if ver == 0 and rep % 2:
                # the table's own (pre-colorLib) API: ColorLayers of LayerRecord objects
                from fontTools.ttLib import newTable
                from fontTools.ttLib.tables.C_O_L_R_ import LayerRecord
                t = fb.font["COLR"] = newTable("COLR")
                t.version = 0
                t.ColorLayers = {b: [LayerRecord(l, p) for l, p in ls] for b, ls in glyphs.items()}
            else:
                fb.setupCOLR(glyphs, version=0 if ver == 0 else None, clipBoxes={names[b]: c for b, c in clips.items()} or None)
            fb.setupCPAL([pal])
        ok, _x = _lib(ctx, "buildCOLR", build, table="COLR", format=ver, shape=shape)
        if not ok:
            continue
        ok, data = _save(ctx, fb, table="COLR", format=ver, shape=shape)
        cap = _cur["cap"].get("COLR")
        if not ok or cap is None:
            continue
        v0want = {b: list(p) for b, p in content.items() if isinstance(p, list)}
        ctx.judged()
        if cap["reader"]["base"] != v0want:
            _semantic(ctx, "COLR", "reader", "compiled layer records differ from the generated content", _dictdiff(v0want, cap["reader"]["base"]),
                      format=ver, diff=_diff_class(v0want, cap["reader"]["base"]),
                      content="all-bases-without-layers" if v0want and not any(v0want.values()) else "entries")
        hbo = _hb(data)
        bad, bad_v1 = [], []
        cnt = 0
        for b, p in content.items():
            if isinstance(p, list):
                # v0 layers: HarfBuzz vs the struct reader
                got = [(l.glyph, l.color_index) for l in hbo.face.get_glyph_color_layers(b)]
                cnt += 1
                if got != cap["reader"]["base"].get(b, []):
                    bad.append((b, "layers", cap["reader"]["base"].get(b), got[:3]))
            else:
                want = []
                _expected_paint_events(p, (1, 0, 0, 1, 0, 0), pal, want)
                got = _hb_paint_events(hbo, b)
                cnt += 1
                d = _cmp_events(want, got, modes, extends)
                if d is None and b in clips:
                    rects = [e for e in got if e[0] == "cliprect"]
                    if not rects or not all(_close(x, y, 1e-4) for x, y in zip(rects[0][1], clips[b])):
                        d = ("clip box", clips[b], rects[:1])
                if d:
                    bad_v1.append((b, d))
        ctx.judged()
        _note("COLR.harfbuzz-color-glyphs-checked", cnt)
        if bad:
            _disagree(ctx, "COLR v0 layers: harfbuzz vs struct reader", bad[:2])
        if bad_v1:
            # for the paint graph HarfBuzz is the only independent reader: its paint trace against the generated
            # content.  The library's own decode (monitor) is the second opinion: when it also differs the monitor's
            # report stands; HarfBuzz alone is not enough for a verdict
            if any(rp["mech"].get("table") == "COLR" for rp in _pending_reports()):
                _note("COLR.harfbuzz-confirms-monitor-report")
            else:
                ctx.inconclusive("COLR v1: HarfBuzz's paint trace differs from the content but the library's decoder returns the content: %s"
                                 % _short(bad_v1[:2], 500))
