"""C07 — subsetting preserves the behaviour of everything it keeps.

Workload: corpus fonts (PUA-augmented so that every glyph is addressable by a code point with
no Unicode-driven shaping, and un-augmented for the real cmap formats; plus variants carrying a
synthetic `kern` table; variable fonts given vertical-metrics variations in the shapes the corpus lacks
(VVAR with implicit advance-height mapping, VOrgMap/TsbMap rows interleaved with the advance rows); and
generated fonts (vmon/gen/c07_fea.py) whose contextual rules call shared nested lookups while the glyphs
those depend on are produced by later lookups of an earlier shaping stage; generated variable fonts with several
overlapping FeatureVariationRecords (vmon/gen/c07_fvars.py), shaped in every cell of the condition grid; generated
CFF fonts with seac-style accented glyphs (vmon/gen/c07_cff.py); generated layout-rich (variable) fonts
(vmon/gen/c07_lay.py: several lookup records at one position chained through 1:1 substitutions, language systems
extending/excluding the default's features shaped with every declared language, anchors/values variable in one
coordinate or carrying hinting devices, useExtension on every lookup type, mark filtering sets, REQUIRED features at FeatureList index 0 / 1 / last, listed
or not in FeatureIndex, in default and per-language systems); corpus fonts whose format-12 and format-4 Unicode
subtables disagree on BMP code points) × random requests × random option combinations, driven through the real
`Subsetter`.  Monitors sit on `Subsetter.subset`, `_closure_glyphs`, every per-table
`closure_glyphs/subset_glyphs/prune_*` method the subsetter registers on table classes,
`Lookup.subset_glyphs/closure_glyphs` (per lookup type/format) and `VarStore.subset_varidxes`.

Oracles (all on the *saved* bytes, independent of fontTools): HarfBuzz nominal glyph (presence),
HarfBuzz differential shaping original vs subset, HarfBuzz outlines/advances (horizontal, vertical, vertical origin)/COLR layers/MATH
records by glyph name at default and random variation locations, and a struct-level glyph-id
reference sweep (vmon/oracle/c07_refsweep.py).
"""
import io
import random
from collections import Counter

from vmon import corpus, hooks
from vmon.case import LibRaised
from vmon.oracle import c07_hb as H
from vmon.oracle import c07_refsweep as RS

PROPERTY = "C07"
LEVEL = "exploration"
RULE = ("a case is one corpus font in one variant (PUA-augmented / plain / +synthetic kern / +derived VVAR shapes) or one "
        "generated multi-round-closure font, with a batch of "
        "(request, options) draws; a draw is non-trivial when the subset removed at least one glyph and the "
        "retained part was really compared (shaped texts whose original result shows layout activity, or "
        "outline/advance comparisons of retained glyphs); distinct = (font, variant, request kind, option signature)")
ASSUMPTIONS = [
    "HarfBuzz 12.1 is the trusted shaper/rasteriser; both fonts of a pair are shaped with identical script, language, direction, features and variation settings",
    "outline tolerance 0.02 units (HarfBuzz float32 evaluation of identical data); advances and shaping results compared exactly",
    "texts use only code points that were requested and are present, and whose Unicode properties do not make HarfBuzz consult other glyphs (private-use code points, or non-mark, non-default-ignorable, non-jamo characters)",
    "what a request drops on purpose is applied to the original as well: dropped feature tags are switched off, with --no-layout-closure all GSUB features are off, `kern` is hidden from the original when legacy_kern=False drops it; .notdef outline only compared with notdef_outline",
    "glyph names come from the in-memory glyph order of the font that produced the bytes",
    "reference sweep judges a table only if the same table of the original is free of out-of-range ids and spec inconsistencies (the AOTS fonts contain some on purpose)",
    "notdef_glyph=False is not generated (gid 0 then becomes a real glyph which cmap cannot address); morx/kerx/Graphite fonts are excluded (the subsetter drops those tables by design)",
]
REQUIRED_MONITORS = [
    "Subsetter.subset", "Subsetter._closure_glyphs", "Lookup.subset_glyphs", "Lookup.closure_glyphs",
    "VarStore.subset_varidxes", "subset_glyphs:cmap", "subset_glyphs:GSUB", "subset_glyphs:GPOS",
    "subset_glyphs:GDEF", "subset_glyphs:glyf", "subset_glyphs:CFF", "subset_glyphs:hmtx",
    "subset_glyphs:gvar", "subset_glyphs:HVAR", "closure_glyphs:GSUB", "closure_glyphs:glyf",
    "prune_post_subset:GSUB", "prune_post_subset:GDEF", "subset_glyphs:kern",
]
CASE_TIMEOUT = 240
MANIFEST = {
    "text": "Exploration: corpus fonts with layout tables, kern, variations, COLR or MATH (PUA-augmented and plain; variable fonts also with derived VVAR shapes: implicit advance-height map, VOrgMap/TsbMap interleaved with advance rows) and feaLib-compiled generated fonts whose closure needs several rounds (contextual rules calling shared nested ligature/single/multiple/contextual lookups, producers in later lookups of an earlier shaping stage), generated variable fonts with 2-4 overlapping FeatureVariationRecords over 1-2 axes (features dropped by the request so that leading/middle records empty out; shaped in every cell of the condition grid), generated CFF fonts with seac-style endchar accents with and without explicit width, generated layout-rich variable fonts (multi-record contextual rules chained through 1:1 substitutions, per-language locl/kern with include/exclude_dflt shaped with every declared language tag, anchors and values variable in one coordinate only or with hinting devices, useExtension on all lookup types, mark filtering sets and attachment classes; base-mark-base texts), and corpus fonts given disagreeing format-4/format-12 Unicode subtables (BMP-only requests) are subset through the real Subsetter with random requests (unicode sets, singletons, all-but-one, glyph names, glyph ids, text, everything) and random option combinations; monitors on Subsetter.subset/_closure_glyphs, every per-table closure/subset/prune method, Lookup-level per-type counters and VarStore.subset_varidxes. Each saved subset is judged by HarfBuzz (presence, differential shaping over all short texts of retained characters, outlines/advances/COLR/MATH by glyph name at default and random locations) and by a struct-level glyph-id reference sweep. Tests cannot settle this because closure and remapping depend on the requested set and the suite only diffs about 86 fixed cases against stored TTX.",
    "note": "Trusted base: HarfBuzz 12.1, vmon/oracle/c07_refsweep.py (spec-written reader), geom.py. Preconditions: texts only over requested+present code points without Unicode-driven shaping side effects; intentionally dropped behaviour (feature tags, --no-layout-closure, legacy kern, .notdef outline) is removed from the original's expectation as well; notdef_glyph=False and AAT/Graphite fonts not generated.",
    "technique": "monitors on the real subsetter functions; differential shaping and rendering through HarfBuzz; independent struct-level reference sweep",
    "design_ref": "DESIGN.md §4 C07",
}

_AAT = {"morx", "mort", "kerx", "Silf", "Glat", "Gloc", "feat", "trak", "just"}


# ================================================================== monitors
_mon = {"subset": None, "closure": None, "notes": Counter(), "varidx": 0, "emptied_langsys": set(), "emptied_scripts": set()}


def _note(k, n=1):
    _mon["notes"][k] += n


def _rep(monitor, invariant, what, **w):
    hooks.report({"kind": "monitor", "monitor": monitor, "invariant": invariant}, "%s: %s" % (monitor, what), w)


def _varstore_rows(store, varidxes):
    """{varIdx: {region key: delta}} read from the object model (zero deltas dropped)."""
    regions = store.VarRegionList.Region
    out = {}
    for vi in varidxes:
        if vi == 0xFFFFFFFF:
            continue
        major, minor = vi >> 16, vi & 0xFFFF
        if major >= len(store.VarData):
            out[vi] = None
            continue
        vd = store.VarData[major]
        if minor >= len(vd.Item):
            out[vi] = None
            continue
        row = {}
        for ri, d in zip(vd.VarRegionIndex, vd.Item[minor]):
            if d:
                key = tuple((a.StartCoord, a.PeakCoord, a.EndCoord) for a in regions[ri].VarRegionAxis)
                row[key] = row.get(key, 0) + d
        out[vi] = row
    return out


def setup():
    import inspect

    import fontTools.subset as SS
    import fontTools.subset.cff  # noqa: F401
    from fontTools import ttLib
    from fontTools.ttLib.tables import otTables

    # ---- Subsetter.subset (around) -------------------------------------------------
    def pre_subset(a, kw):
        s, font = a[0], a[1]
        _mon["emptied_langsys"] = set()
        _mon["emptied_scripts"] = set()
        return {
            "unicodes": set(s.unicodes_requested), "glyphs": set(s.glyph_names_requested),
            "gids": set(s.glyph_ids_requested), "order": list(font.getGlyphOrder()),
        }

    def post_subset(st, a, kw, res, exc):
        s, font = a[0], a[1]
        if exc is not None or st is None:
            _mon["subset"] = None
            return
        orig = st["order"]
        retained = set(s.glyphs_retained)
        emptied = set(s.glyphs_emptied)
        new = list(s.new_glyph_order)
        rec = {"request": st, "retained": retained, "emptied": emptied, "new_order": new,
               "requested": set(s.glyphs_requested), "orig_order": orig,
               "unicodes_after": set(s.unicodes_requested), "missing": set(getattr(s, "unicodes_missing", ()))}
        _mon["subset"] = rec
        o = s.options
        # definitional invariants of the state every table handler relies on
        want = set(st["glyphs"]) | {orig[i] for i in st["gids"] if i < len(orig)}
        lost = sorted(g for g in want if g in set(orig) and g not in retained)
        if lost:
            _rep("Subsetter.subset", "requested-retained", "requested glyphs not retained: %s" % lost[:5])
        if retained & emptied:
            _rep("Subsetter.subset", "emptied-disjoint", "glyphs both retained and emptied: %s" % sorted(retained & emptied)[:5])
        if not o.retain_gids:
            if emptied:
                _rep("Subsetter.subset", "emptied-without-retain-gids", "emptied glyphs without retain_gids")
            if new != [g for g in orig if g in retained]:
                _rep("Subsetter.subset", "new-order", "new glyph order is not the original order filtered by the retained set")
        else:
            if new != orig[:len(new)]:
                _rep("Subsetter.subset", "new-order", "retain_gids: new glyph order is not a prefix of the original order")
            if set(new) != retained | emptied:
                _rep("Subsetter.subset", "new-order", "retain_gids: new order != retained + emptied")
            if new and new[-1] not in retained:
                _rep("Subsetter.subset", "new-order", "retain_gids: trailing glyph of the new order is not retained")
        if list(font.getGlyphOrder()) != new:
            _rep("Subsetter.subset", "font-order", "font glyph order after subset() differs from new_glyph_order")
        for old, n in s.glyph_index_map.items():
            if not (0 <= n < len(new)) or orig[old] != new[n]:
                _rep("Subsetter.subset", "glyph-index-map", "glyph_index_map[%d]=%d does not name the same glyph" % (old, n))
                break

    hooks.attach(SS.Subsetter, "subset", pre=pre_subset, post=post_subset, name="Subsetter.subset")

    def post_closure(st, a, kw, res, exc):
        s = a[0]
        if exc is not None:
            return
        chain = ["glyphs_cmaped", "glyphs_wo_math_closure", "glyphs_mathed", "glyphs_gsubed", "glyphs_colred",
                 "glyphs_bslned", "glyphs_glyfed", "glyphs_cffed", "glyphs_retained"]
        prev, pname = None, None
        for name in chain:
            cur = getattr(s, name, None)
            if cur is None:
                continue
            if prev is not None:
                if not prev <= cur:
                    _rep("Subsetter._closure_glyphs", "monotone", "%s is not a superset of %s" % (name, pname))
                elif len(cur) > len(prev):
                    _note("closure grew at " + name[7:])
            prev, pname = cur, name
        _mon["closure"] = {"cmaped": set(s.glyphs_cmaped), "gsubed": set(s.glyphs_gsubed)}

    hooks.attach(SS.Subsetter, "_closure_glyphs", post=post_closure, name="Subsetter._closure_glyphs")

    # ---- lookups: per type / format counters ---------------------------------------
    def stname(st):
        n = type(st).__name__
        e = getattr(st, "ExtSubTable", None)
        if e is not None:
            return "Ext>" + stname(e)
        f = getattr(st, "Format", None)
        return "%s.f%s" % (n, f) if f is not None else n

    def pre_lookup_subset(a, kw):
        return [stname(st) for st in a[0].SubTable if st]

    def post_lookup_subset(st, a, kw, res, exc):
        if exc is not None or st is None:
            return
        for n in st:
            _note("lookup subset " + n)
        if not res:
            _note("lookup emptied")

    def post_lookup_closure(st, a, kw, res, exc):
        if exc is None:
            for sub in a[0].SubTable:
                if sub:
                    _note("lookup closure " + stname(sub))

    hooks.attach(otTables.Lookup, "subset_glyphs", pre=pre_lookup_subset, post=post_lookup_subset, name="Lookup.subset_glyphs")
    hooks.attach(otTables.Lookup, "closure_glyphs", post=post_lookup_closure, name="Lookup.closure_glyphs")

    # ---- VarStore.subset_varidxes: rows keep their deltas under the returned map -----
    def pre_varidx(a, kw):
        store, varidxes = a[0], set(a[1])
        if a[5] != "VarData":
            return None  # VARC's MultiVarStore: other row layout, only counted
        return {"rows": _varstore_rows(store, varidxes), "retain": a[3]}

    def post_varidx(st, a, kw, res, exc):
        if exc is not None or st is None:
            return
        store = a[0]
        _mon["varidx"] += 1
        vals = [v for k, v in res.items() if k != 0xFFFFFFFF]
        before = st["rows"]
        after = _varstore_rows(store, {res[k] for k in before if k in res})
        for old, row in before.items():
            if row is None:
                continue
            if old not in res:
                _rep("VarStore.subset_varidxes", "map-total", "used variation index %#x missing from the returned map" % old)
                break
            if after.get(res[old]) != row:
                _rep("VarStore.subset_varidxes", "row-deltas", "variation index %#x -> %#x carries other deltas" % (old, res[old]),
                     before=repr(row)[:300], after=repr(after.get(res[old]))[:300])
                break
        used_new = [res[k] for k in before if k in res]
        if len(set(used_new)) != len(used_new):
            _rep("VarStore.subset_varidxes", "injective", "two used variation indices mapped to one")

    hooks.attach(otTables.VarStore, "subset_varidxes", pre=pre_varidx, post=post_varidx, name="VarStore.subset_varidxes")

    import fontTools.cffLib as cffLib
    for m in ("desubroutinize", "remove_hints", "remove_unused_subroutines"):
        hooks.attach(cffLib.CFFFontSet, m, name="CFFFontSet." + m)

    # ---- language systems / scripts deleted because they became empty (mechanism label for shaping differences)
    def pre_scriptlist(a, kw):
        return {r.ScriptTag: (bool(r.Script.DefaultLangSys), [l.LangSysTag for l in r.Script.LangSysRecord]) for r in a[0].ScriptRecord}

    def post_scriptlist(st, a, kw, res, exc):
        if exc is not None or st is None:
            return
        after = {r.ScriptTag: (bool(r.Script.DefaultLangSys), [l.LangSysTag for l in r.Script.LangSysRecord]) for r in a[0].ScriptRecord}
        for sc, (dflt, langs) in st.items():
            if sc not in after:
                _mon["emptied_scripts"].add(sc)
                _note("script record deleted (became empty)")
                continue
            for lg in langs:
                if lg not in after[sc][1]:
                    _mon["emptied_langsys"].add((sc, lg))
                    _note("LangSys deleted (became empty)")

    hooks.attach(otTables.ScriptList, "subset_features", pre=pre_scriptlist, post=post_scriptlist, name="subset_features:ScriptList")
    hooks.attach(otTables.ScriptList, "prune_features", pre=pre_scriptlist, post=post_scriptlist, name="prune_features:ScriptList")

    # ---- every method the subsetter registers on table / subtable classes -------------
    names = ("closure_glyphs", "subset_glyphs", "prune_pre_subset", "prune_post_subset", "subset_lookups",
             "subset_features", "prune_features", "subset_feature_tags", "subset_script_tags", "prune_lookups",
             "remove_redundant_langsys", "subset", "remap", "intersect")
    tags = ["EBLC", "EBDT", "sbix", "GSUB", "GPOS", "GDEF", "kern", "vmtx", "hmtx", "hdmx", "ankr", "bsln", "lcar",
            "gvar", "HVAR", "VVAR", "VORG", "opbd", "post", "prop", "COLR", "CPAL", "VARC", "MATH", "glyf", "cmap",
            "DSIG", "maxp", "name", "head", "CFF ", "SVG "]
    classes = [(c.__name__, c) for _n, c in inspect.getmembers(otTables, inspect.isclass)
               if c not in (otTables.Lookup, otTables.VarStore)]
    classes += [(t.strip(), ttLib.getTableClass(t)) for t in tags]
    for cname, cls in classes:
        for m in names:
            fn = cls.__dict__.get(m)
            if fn is None or not inspect.isfunction(fn) or hasattr(fn, "__vmon_orig__"):
                continue
            if "/subset/" not in fn.__code__.co_filename.replace("\\", "/"):
                continue
            hooks.attach(cls, m, name="%s:%s" % (m, cname))


# ================================================================== cases
def _eligible(rec):
    t = set(rec["tables"])
    if not (rec.get("complete") and rec.get("head")) or rec.get("flavor") or rec.get("ext") in ("woff", "woff2", "dfont"):
        return False
    if not {"cmap", "hmtx", "maxp", "hhea"} <= t or not (t & {"glyf", "CFF ", "CFF2"}) or t & _AAT:
        return False
    return bool(set(rec["layout"]) or rec["variable"] or t & {"kern", "COLR", "MATH", "vmtx", "BASE"})


def _rich(rec):
    t = set(rec["tables"])
    return "aots" not in rec["path"] and ({"GSUB", "GPOS"} <= t or rec["variable"] or t & {"COLR", "MATH"})


def cases(tier, seed):
    T = tier == "thorough"
    out = []

    def add(rec, variant, batch, n):
        cid = "%s%s|%s|b%d" % (rec["path"], "#%s" % rec["member"] if rec.get("member") is not None else "", variant, batch)
        out.append({"id": cid, "path": rec["path"], "member": rec.get("member"), "variant": variant, "batch": batch,
                    "n": n, "seed": seed, "tier": tier, "timeout": 600 if rec["size"] > 100000 else CASE_TIMEOUT})

    recs = corpus.fonts(pred=_eligible)
    rnd = random.Random("c07-cases/%s" % seed)
    for i, rec in enumerate(recs):
        big = rec["size"] > 100000
        rich = _rich(rec)
        if T:
            nb = 2 if big else (10 if rich else 4)
            for b in range(nb):
                add(rec, "pua", b, 3 if big else 6)
            for b in range(1 if big else (3 if rich else 1)):
                add(rec, "plain", b, 2 if big else 5)
            if "GPOS" in rec["tables"] or "GSUB" in rec["tables"]:
                if rich or rnd.random() < 0.3:
                    add(rec, "kern", 0, 4)
                    add(rec, "kern+gpos", 0, 4)
        else:
            add(rec, "pua", 0, 1 if big else (6 if rich else 3))
            if rich or rnd.random() < 0.25:
                add(rec, "plain", 0, 1 if big else 3)
            if ("GPOS" in rec["tables"] and not big) and (rich and rnd.random() < 0.5 or rnd.random() < 0.08):
                add(rec, rnd.choice(["kern", "kern+gpos"]), 0, 2)
    # variable fonts with (derived) vertical metrics variations: implicit advance-height map, interleaved VOrgMap/TsbMap
    for rec in recs:
        if rec["variable"] and set(rec["tables"]) & {"VVAR", "HVAR"} and rec["size"] < 100000:
            for b in range(6 if T else 2):
                add(rec, "vvar", b, 5 if T else 3)
    # corpus fonts whose format-12 and format-4 Unicode subtables disagree on some BMP code points
    for rec in recs:
        if rec["size"] < 100000 and (T or rnd.random() < 0.15):
            add(rec, "cmapmix", 0, 4 if T else 2)
    # generated variable fonts with several overlapping FeatureVariationRecords; generated CFF fonts with seac accents
    for gname, nq, nt, dq, dt in (("genfv", 40, 300, 3, 6), ("gencff", 30, 200, 3, 5), ("genlay", 50, 400, 3, 6)):
        for k in range(nt if T else nq):
            out.append({"id": "%s:%d" % (gname, k), "path": "gen:%s/%d" % (gname, k), "member": None, "variant": gname, "gen": k,
                        "batch": 0, "n": dt if T else dq, "seed": seed, "tier": tier, "timeout": CASE_TIMEOUT})
    # generated fonts whose glyph closure needs several rounds (shared nested lookups, producers in later lookups)
    for k in range(400 if T else 50):
        out.append({"id": "genfea:%d" % k, "path": "gen:c07_fea/%d" % k, "member": None, "variant": "genfea", "gen": k,
                    "batch": 0, "n": 6 if T else 3, "seed": seed, "tier": tier, "timeout": CASE_TIMEOUT})
    return out


# ================================================================== building the inputs
def _add_kern(font, rnd):
    from fontTools.ttLib import newTable
    from fontTools.ttLib.tables._k_e_r_n import KernTable_format_0

    order = font.getGlyphOrder()
    pool = order[:min(len(order), 60)]
    k = newTable("kern")
    k.version = 0
    st = KernTable_format_0()
    st.coverage = 1
    st.format = 0
    st.tupleIndex = None
    st.kernTable = {}
    for _ in range(min(150, len(pool) * len(pool))):
        a, b = rnd.choice(pool), rnd.choice(pool)
        st.kernTable[(a, b)] = rnd.choice([-1, 1]) * rnd.randrange(10, 200)
    k.kernTables = [st]
    font["kern"] = k


def _derive_vvar(f, rnd):
    """Give a variable font vertical metrics variations in the shapes the corpus lacks: a VVAR (cloned from HVAR when
    absent) whose advance heights use the *implicit* glyph-id -> VarData[0] row mapping (no AdvHeightMap), plus a
    VOrgMap/TsbMap whose entries point at VarData[0] rows interleaved with the advance rows; vhea/vmtx are added when
    missing.  Only the input is prepared here; nothing of this is used as an oracle."""
    import copy

    from fontTools.ttLib import newTable
    from fontTools.ttLib.tables import otTables as ot
    from fontTools.varLib import builder

    order = f.getGlyphOrder()
    if "VVAR" not in f:
        hv = f["HVAR"].table
        t = ot.VVAR()
        t.Version = 0x00010000
        t.VarStore = copy.deepcopy(hv.VarStore)
        t.AdvHeightMap = copy.deepcopy(hv.AdvWidthMap) if hv.AdvWidthMap else None
        t.TsbMap = t.BsbMap = t.VOrgMap = None
        f["VVAR"] = newTable("VVAR")
        f["VVAR"].table = t
    t = f["VVAR"].table
    store = t.VarStore
    if "vmtx" not in f:
        vhea = newTable("vhea")
        vhea.tableVersion = 0x00011000
        vhea.ascent, vhea.descent, vhea.lineGap = 500, -500, 0
        vhea.advanceHeightMax = 1000 + 7 * len(order)
        vhea.minTopSideBearing = vhea.minBottomSideBearing = 0
        vhea.yMaxExtent = 1000
        vhea.caretSlopeRise, vhea.caretSlopeRun, vhea.caretOffset = 0, 1, 0
        vhea.reserved0 = vhea.reserved1 = vhea.reserved2 = vhea.reserved3 = vhea.reserved4 = 0
        vhea.metricDataFormat = 0
        vhea.numberOfVMetrics = len(order)
        f["vhea"] = vhea
        vmtx = newTable("vmtx")
        vmtx.metrics = {g: (1000 + 7 * i, 10) for i, g in enumerate(order)}
        f["vmtx"] = vmtx
    shape = []
    nreg = len(store.VarRegionList.Region)
    if t.AdvHeightMap and nreg and rnd.random() < 0.8:
        def full(vi):
            vec = [0] * nreg
            if vi != 0xFFFFFFFF and (vi >> 16) < len(store.VarData) and (vi & 0xFFFF) < len(store.VarData[vi >> 16].Item):
                vd = store.VarData[vi >> 16]
                for ri, d in zip(vd.VarRegionIndex, vd.Item[vi & 0xFFFF]):
                    vec[ri] = d
            return vec

        rows = [full(t.AdvHeightMap.mapping.get(g, 0xFFFFFFFF)) for g in order]
        vd0 = builder.buildVarData(list(range(nreg)), rows, optimize=False)
        store.VarData.insert(0, vd0)
        store.VarDataCount = len(store.VarData)
        for name in ("TsbMap", "BsbMap", "VOrgMap"):
            m = getattr(t, name, None)
            if m:
                m.mapping = {g: (v if v == 0xFFFFFFFF else v + 0x10000) for g, v in m.mapping.items()}
        t.AdvHeightMap = None
        shape.append("implicit-advance-map")
    if t.AdvHeightMap is None and len(order) > 2 and rnd.random() < 0.75:
        name = "VOrgMap" if "VORG" in f else rnd.choice(["TsbMap", "BsbMap"])
        rows0 = len(store.VarData[0].Item)
        setattr(t, name, builder.buildVarIdxMap([rnd.randrange(min(rows0, len(order))) for _g in order], order))
        shape.append(name + "-into-advance-rows")
    return shape


def _mix_cmap(f, rnd):
    """Unicode cmap in the shape real fonts have after only the 'modern' subtable was updated: a format-4 BMP
    subtable and a format-12 full-repertoire sibling that map some BMP code points to *different* glyphs.
    Every glyph gets U+E000+gid (both subtables; the format-12 one sometimes names another glyph) and
    U+F0000+gid (format 12 only)."""
    from fontTools.ttLib.tables._c_m_a_p import CmapSubtable

    order = f.getGlyphOrder()
    n = len(order)
    best = {}
    try:
        best = dict(f.getBestCmap() or {})
    except Exception:
        best = {}
    f4 = {c: g for c, g in best.items() if c <= 0xFFFF}
    f12 = dict(best)
    for gid, g in enumerate(order[:0x1800]):
        f4[0xE000 + gid] = g
        f12[0xE000 + gid] = order[(gid * 7 + 3) % n] if rnd.random() < 0.3 else g
        f12[corpus.PUA + gid] = g
    tabs = []
    pairs = [((3, 1), (3, 10))]
    if rnd.random() < 0.5:
        pairs.append(((0, 3), (0, 4)))
    for (p4, e4), (p12, e12) in pairs:
        for fmt, pid, eid, m in ((4, p4, e4, f4), (12, p12, e12, f12)):
            st = CmapSubtable.newSubtable(fmt)
            st.platformID, st.platEncID, st.language = pid, eid, 0
            st.cmap = dict(m)
            tabs.append(st)
    f["cmap"].tables = tabs


def _build_original(case):
    v = case["variant"]
    if v == "genfea":
        from vmon.gen import c07_fea

        prog = c07_fea.program(random.Random("genfea/%s/%s" % (case["gen"], case["seed"])))
        case["_prog"] = prog
        data = c07_fea.build(prog)
        f = corpus.open_bytes(data)
        order = list(f.getGlyphOrder())
        f.close()
        return data, order
    if v in ("genfv", "gencff", "genlay"):
        from vmon.gen import c07_cff, c07_fvars, c07_lay

        G = {"genfv": c07_fvars, "gencff": c07_cff, "genlay": c07_lay}[v]
        prog = G.program(random.Random("%s/%s/%s" % (v, case["gen"], case["seed"])))
        case["_prog"] = prog
        data = G.build(prog)
        f = corpus.open_bytes(data)
        order = list(f.getGlyphOrder())
        f.close()
        return data, order
    data0 = corpus.font_bytes(case["path"], case["member"])
    if v == "cmapmix":
        f = corpus.open_bytes(data0)
        _mix_cmap(f, random.Random("cmapmix/%s/%s" % (case["path"], case["seed"])))
        data = corpus.save_bytes(f)
        f.close()
        f = corpus.open_bytes(data)
        order = list(f.getGlyphOrder())
        f.close()
        return data, order
    if v == "plain":
        f = corpus.open_bytes(data0)
        order = list(f.getGlyphOrder())
        corpus.save_bytes(f)  # precondition only: the input survives a plain load+save (else not a subsetting matter)
        f.close()
        return data0, order
    f = corpus.open_bytes(data0)
    corpus.add_pua(f)
    if v == "vvar":
        case["_vvar_shape"] = _derive_vvar(f, random.Random("vvar/%s/%s/%s" % (case["path"], case["batch"], case["seed"])))
    if v in ("kern", "kern+gpos"):
        _add_kern(f, random.Random("kern/" + case["path"]))
        if v == "kern" and "GPOS" in f:
            del f["GPOS"]
    data = corpus.save_bytes(f)
    f.close()
    # names as a fresh load of these bytes derives them (post format 3 fonts are named from cmap):
    # this is the glyph order the subsetter will see
    f = corpus.open_bytes(data)
    order = list(f.getGlyphOrder())
    f.close()
    return data, order


_OPT_DEFAULTS = None


def _draw_options(rnd, S0, tables, nglyphs):
    """Option dictionary (only the non-default entries) drawn from the combinations the property names."""
    o = {}
    ftags = sorted(set(S0.features.get("GSUB", [])) | set(S0.features.get("GPOS", [])))
    r = rnd.random()
    if r < 0.45:
        o["layout_features"] = ["*"]
    elif r < 0.75 and ftags:
        k = rnd.randint(1, len(ftags))
        o["layout_features"] = sorted(rnd.sample(ftags, k))
    elif r < 0.8:
        o["layout_features"] = []
    scripts = sorted(set(S0.scripts.get("GSUB", {})) | set(S0.scripts.get("GPOS", {})))
    if len(scripts) > 1 and rnd.random() < 0.2:
        keep = rnd.choice(scripts)
        o["layout_scripts"] = sorted({keep.strip(), "DFLT", "dflt", "latn"} & ({s.strip() for s in scripts} | {keep.strip()}))
    if rnd.random() < 0.15:
        o["layout_closure"] = False
    if rnd.random() < 0.3:
        o["retain_gids"] = True
    if rnd.random() < 0.5:
        o["notdef_outline"] = True
    if rnd.random() < 0.2:
        o["recommended_glyphs"] = True
    if rnd.random() < 0.5:
        o["glyph_names"] = True
    if rnd.random() < 0.4:
        o["hinting"] = False
    if rnd.random() < 0.3:
        o["desubroutinize"] = True
    r = rnd.random()
    if r < 0.2:
        o["name_IDs"] = ["*"]
    elif r < 0.3:
        o["name_IDs"] = [1, 2]
    if rnd.random() < 0.15:
        o["name_languages"] = ["*"]
    if rnd.random() < 0.1:
        o["name_legacy"] = True
    if rnd.random() < 0.1:
        o["obfuscate_names"] = True
    if rnd.random() < 0.5:
        o["legacy_kern"] = True
    if rnd.random() < 0.4:
        o["prune_unicode_ranges"] = False
    if rnd.random() < 0.3:
        o["prune_codepage_ranges"] = False
    if rnd.random() < 0.25:
        extra = [t.strip() for t in ("STAT", "gasp", "meta", "BASE", "name") if t in tables and rnd.random() < 0.5]
        if extra:
            o["drop_tables_extra"] = extra
    if rnd.random() < 0.2:
        o["passthrough_tables"] = True
    if rnd.random() < 0.15:
        o["legacy_cmap"] = True
    if rnd.random() < 0.15:
        o["symbol_cmap"] = True
    if rnd.random() < 0.2:
        o["harfbuzz_repacker"] = False
    if rnd.random() < 0.15:
        o["bidi_closure"] = False
    if rnd.random() < 0.25:
        o["recalc_max_context"] = True
    if rnd.random() < 0.15:
        o["recalc_average_width"] = True
    return o


def _draw_request(rnd, kind, cps_all, nominal, order, relevant):
    """-> dict(unicodes=[...], glyphs=[...], gids=[...], text=str)"""
    n = len(order)
    req = {"unicodes": [], "glyphs": [], "gids": [], "text": ""}
    rel_cps = [c for c in cps_all if nominal[c] in relevant]

    def pick_cps(k):
        k = max(1, min(k, len(cps_all)))
        out = set()
        if rel_cps:
            out.update(rnd.sample(rel_cps, min(len(rel_cps), max(1, int(k * rnd.choice([0.5, 0.8, 1.0]))))))
        rest = [c for c in cps_all if c not in out]
        if len(out) < k and rest:
            out.update(rnd.sample(rest, min(len(rest), k - len(out))))
        return sorted(out)

    if kind == "unicodes":
        req["unicodes"] = pick_cps(rnd.randint(1, 40))
    elif kind == "single":
        req["unicodes"] = [rnd.choice(rel_cps or cps_all)]
    elif kind == "allbutone":
        drop = rnd.choice(rel_cps or cps_all)
        g = nominal[drop]
        req["unicodes"] = [c for c in cps_all if nominal[c] != g]
    elif kind == "glyphs":
        pool = sorted(relevant) if relevant and rnd.random() < 0.7 else list(range(n))
        req["glyphs"] = [order[g] for g in rnd.sample(pool, min(len(pool), rnd.randint(1, 25))) if g < n]
    elif kind == "gids":
        pool = sorted(g for g in relevant if g < n) if relevant and rnd.random() < 0.7 else list(range(n))
        req["gids"] = sorted(rnd.sample(pool, min(len(pool), rnd.randint(1, 25))))
    elif kind == "text":
        cs = pick_cps(rnd.randint(1, 30))
        req["text"] = "".join(chr(c) for c in cs if not 0xD800 <= c <= 0xDFFF)
    elif kind == "all":
        req["unicodes"] = list(cps_all)
        if rnd.random() < 0.5:
            req["glyphs"] = list(order)
    elif kind == "mixed":
        req["unicodes"] = pick_cps(rnd.randint(1, 15))
        req["glyphs"] = [order[g] for g in rnd.sample(range(n), min(n, rnd.randint(0, 6)))]
        req["gids"] = sorted(rnd.sample(range(n), min(n, rnd.randint(0, 6))))
        if rnd.random() < 0.3:
            req["unicodes"].append(0x10FFFD)  # a code point no corpus font maps (ignored by default)
    return req


_KINDS = ["unicodes"] * 6 + ["single", "allbutone", "allbutone", "glyphs", "glyphs", "gids", "gids", "text", "all", "mixed", "mixed"]


# ================================================================== the case
def run_case(case, ctx):
    _mon["notes"] = Counter()
    try:
        _run(case, ctx)
    finally:
        for k, v in _mon["notes"].items():
            ctx.note(k, v)


def _run(case, ctx):
    from fontTools import subset as SS
    from fontTools.ttLib import TTFont

    try:
        orig_bytes, orig_order = _build_original(case)
    except Exception as e:
        ctx.skip("input font does not survive a plain load+save (%s)" % type(e).__name__)
        return
    S0 = RS.sweep(orig_bytes)
    h0 = H.HB(orig_bytes)
    if h0.glyph_count != len(orig_order) or S0.numGlyphs != len(orig_order):
        ctx.inconclusive("oracles disagree about numGlyphs of the original")
        return
    oindex = {}
    for i, g in enumerate(orig_order):
        oindex.setdefault(g, i)
    cps_all = sorted(h0.face.unicodes)
    nominal = {}
    for c in cps_all:
        g = h0.nominal(c)
        if g:
            nominal[c] = g
    cps_all = [c for c in cps_all if c in nominal]
    bmp_pool = None
    if case["variant"] == "cmapmix":
        cps_req_pool = [c for c in cps_all if c >= H.PUA or 0xE000 <= c <= 0xF8FF]
        bmp_pool = [c for c in cps_all if 0xE000 <= c <= 0xF8FF]
    elif case["variant"] != "plain":
        cps_req_pool = [c for c in cps_all if c >= H.PUA]
    else:
        cps_req_pool = cps_all
    if not cps_req_pool:
        ctx.skip("no usable code points")
        return
    relevant = set()
    for where, gids in S0.refs.items():
        if where.split(".")[0] in ("GSUB", "GPOS", "kern", "MATH", "COLR", "glyf"):
            relevant.update(g for g in gids if g < len(orig_order))
    tables0 = set(S0.tables)
    bad_tables0 = {p[0] for p in S0.problems}
    for where, gids in S0.refs.items():
        if any(g >= S0.numGlyphs for g in gids):
            bad_tables0.add(where.split(".")[0])
    nokern_cache = {}
    gdef_glyphs = S0.refs.get("GDEF.glyphClassDef", set())
    gdef_cps = [c for c in cps_req_pool if nominal[c] in gdef_glyphs]

    for k in range(case["n"]):
        rnd = random.Random("%s/%s/%d" % (case["id"], case["seed"], k))
        kind = rnd.choice(_KINDS)
        if case["batch"] == 0 and k == 0:
            kind = "unicodes"
        pool = bmp_pool if (bmp_pool and rnd.random() < 0.7) else cps_req_pool   # BMP-only requests: format 12 may become redundant
        req = _draw_request(rnd, kind, pool, nominal, orig_order, relevant)
        if gdef_cps and kind in ("unicodes", "text", "mixed") and rnd.random() < 0.7:
            # keep a GDEF-classified glyph so that the class table (and HarfBuzz' use of it) survives
            extra = rnd.choice(gdef_cps)
            if kind == "text":
                req["text"] += chr(extra)
            else:
                req["unicodes"] = sorted(set(req["unicodes"]) | {extra})
        optd = _draw_options(rnd, S0, tables0, len(orig_order))
        if case["variant"] == "vvar" and rnd.random() < 0.35:
            optd["retain_gids"] = True
        req_tags = (case.get("_prog") or {}).get("required_tags") or []
        if req_tags:
            # a required feature cannot be switched off in HarfBuzz: requests keep its tag and the GSUB closure
            optd.pop("layout_closure", None)
            lf = optd.get("layout_features")
            if lf is None:
                optd["layout_features"] = sorted(set(_default_features()) | set(req_tags))
            elif lf != ["*"]:
                optd["layout_features"] = sorted(set(lf) | set(req_tags))
        if case["variant"] == "genfv" and rnd.random() < 0.6:
            tg = case["_prog"]["tags"]
            optd["layout_features"] = sorted(rnd.sample(tg, rnd.randint(1, max(1, len(tg) - 1))))
        try:
            _one(case, ctx, rnd, kind, req, optd, orig_bytes, orig_order, oindex, S0, h0, nominal, tables0, bad_tables0, nokern_cache)
        except LibRaised:
            continue


def _input_drawable(orig_bytes, cache):
    """Precondition used only when the subsetter raised: can the library draw every glyph of the input?"""
    if "drawable" not in cache:
        from fontTools.pens.basePen import NullPen
        from fontTools.ttLib import TTFont

        try:
            f = TTFont(io.BytesIO(orig_bytes))
            gs = f.getGlyphSet()
            for g in f.getGlyphOrder():
                gs[g].draw(NullPen())
            cache["drawable"] = True
        except Exception:
            cache["drawable"] = False
    return cache["drawable"]


def _default_features():
    from fontTools import subset as SS

    return list(SS.Options().layout_features)


def variable_font(h):
    return bool(h.face.axis_infos)


def _options(optd):
    from fontTools import subset as SS

    o = SS.Options()
    for k, v in optd.items():
        if k == "drop_tables_extra":
            o.drop_tables = o.drop_tables + list(v)
        else:
            setattr(o, k, v)
    return o


def _sig(optd):
    parts = []
    for k in sorted(optd):
        v = optd[k]
        if k == "layout_features":
            v = "*" if v == ["*"] else ("none" if not v else "some")
        elif isinstance(v, list):
            v = len(v)
        parts.append("%s=%s" % (k, v))
    return ",".join(parts)


def _one(case, ctx, rnd, kind, req, optd, orig_bytes, orig_order, oindex, S0, h0, nominal, tables0, bad_tables0, nokern_cache):
    from fontTools import subset as SS
    from fontTools.ttLib import TTFont

    desc = {"font": case["path"], "variant": case["variant"], "kind": kind, "options": optd,
            "generated_fea": (case.get("_prog") or {}).get("fea"), "derived_vvar": case.get("_vvar_shape"),
            "unicodes": ["U+%04X" % c for c in req["unicodes"][:60]], "n_unicodes": len(req["unicodes"]),
            "glyphs": req["glyphs"][:40], "gids": req["gids"][:40], "text": req["text"][:40]}
    opts = _options(optd)
    lazy = rnd.choice([True, False, None])
    _mon["subset"] = None
    op = "subset"
    try:
        font = TTFont(io.BytesIO(orig_bytes), lazy=lazy, recalcTimestamp=False)
        sub = SS.Subsetter(opts)
        sub.populate(unicodes=req["unicodes"], glyphs=req["glyphs"], gids=req["gids"], text=req["text"])
        sub.subset(font)
        op = "save-subset"
        font.cfg[SS.USE_HARFBUZZ_REPACKER] = opts.harfbuzz_repacker
        sub_bytes = corpus.save_bytes(font)
    except Exception as e:
        if not _input_drawable(orig_bytes, nokern_cache):
            ctx.skip("input font cannot be drawn by the library itself (invalid charstrings)")
            raise LibRaised() from e
        import traceback
        from vmon.case import exc_mech
        ctx.violation(exc_mech(op, e), "%s raised %s: %s" % (op, type(e).__name__, str(e)[:200]),
                      dict(desc, traceback=traceback.format_exception(type(e), e, e.__traceback__)[-10:]))
        raise LibRaised() from e
    sub_order = list(font.getGlyphOrder())
    font.close()
    m = _mon["subset"]
    if m is None:
        ctx.inconclusive("Subsetter.subset monitor did not record the run")
        return
    retained, emptied = m["retained"], m["emptied"]
    removed = len(orig_order) - len(retained)
    ctx.note("requests")
    ctx.note("request kind " + kind)
    for kk in optd:
        ctx.note("option " + kk)

    def bad(mech, what, **w):
        w.update(desc)
        ctx.violation(mech, what, w)

    # ---------------- the saved result as HarfBuzz and the sweeper see it
    try:
        h1 = H.HB(sub_bytes)
    except Exception as e:  # pragma: no cover
        bad({"kind": "unreadable", "by": "harfbuzz"}, "HarfBuzz cannot open the subset: %r" % e)
        return
    S1 = RS.sweep(sub_bytes)
    ctx.judged()
    if h1.glyph_count != len(sub_order) or S1.numGlyphs != len(sub_order):
        bad({"kind": "glyph-count"}, "saved subset has %s glyphs (maxp %s), in-memory order %d" % (h1.glyph_count, S1.numGlyphs, len(sub_order)))
        return
    sindex = {}
    for i, g in enumerate(sub_order):
        sindex.setdefault(g, i)

    # ---------------- (a) presence, (e) glyph ids
    want_cps = set(req["unicodes"]) | {ord(c) for c in req["text"]}
    want_cps = sorted(c for c in want_cps if c in nominal)
    chars = []
    for c in want_cps:
        ctx.judged()
        g1 = h1.nominal(c)
        n0 = orig_order[nominal[c]]
        if not g1:
            bad({"kind": "missing", "what": "unicode"}, "requested U+%04X (glyph %s) is not mapped in the subset" % (c, n0), cp=c)
            continue
        if sub_order[g1] != n0:
            bad({"kind": "missing", "what": "unicode-maps-elsewhere"}, "U+%04X maps to %s, was %s" % (c, sub_order[g1], n0), cp=c)
            continue
        chars.append(c)
    want_glyphs = set(req["glyphs"]) | {orig_order[i] for i in req["gids"] if i < len(orig_order)}
    for g in sorted(want_glyphs):
        ctx.judged()
        if g not in sindex or g in emptied or g not in retained:
            bad({"kind": "missing", "what": "glyph"}, "requested glyph %s is not in the subset" % g, glyph=g)
    # code points of requested glyphs are retained characters too
    glyph_cps = [c for c, g in nominal.items() if orig_order[g] in want_glyphs and c not in want_cps]
    for c in sorted(glyph_cps)[:80]:
        g1 = h1.nominal(c)
        if g1 and sub_order[g1] == orig_order[nominal[c]]:
            chars.append(c)
    if opts.retain_gids:
        for g in sorted(retained):
            ctx.judged()
            if sindex.get(g) != oindex.get(g):
                bad({"kind": "gid-changed", "option": "retain_gids"}, "glyph %s had id %s, now %s" % (g, oindex.get(g), sindex.get(g)), glyph=g)
                break
    if set(sub_order) != retained | emptied:
        bad({"kind": "order-vs-retained"}, "glyph order of the result is not retained+emptied")

    # ---------------- (d) reference sweep
    ctx.judged()
    judged_tables = set()
    emptied_ids = {sindex[g] for g in emptied if g in sindex}
    for where, gids in sorted(S1.refs.items()):
        tag = where.split(".")[0]
        if tag in bad_tables0:
            ctx.skip("sweep: original %s not clean" % tag)
            continue
        judged_tables.add(tag)
        oor = sorted(g for g in gids if g >= S1.numGlyphs)
        if oor:
            bad({"kind": "reference", "table": tag, "where": where, "problem": "out-of-range"},
                "%s names glyph ids %s, numGlyphs %d" % (where, oor[:8], S1.numGlyphs))
        if where.startswith("COLR.clip") or where.startswith("SVG."):
            continue
        em = sorted(g for g in gids if g in emptied_ids)
        if em:
            bad({"kind": "reference", "table": tag, "where": where, "problem": "emptied-glyph"},
                "%s names emptied glyphs %s" % (where, [sub_order[g] for g in em[:8]]))
    for tag, pk, detail in S1.problems:
        if tag in bad_tables0 or (tag == "counts"):
            continue
        bad({"kind": "structure", "table": tag, "problem": pk}, "%s: %s" % (tag, detail))
    for tag in judged_tables:
        ctx.note("sweep judged " + tag)
    for kst, v in S1.stats.items():
        if kst.split(".")[0] in ("GSUB", "GPOS"):
            ctx.note("swept subset " + kst, v)

    # ---------------- (c) outlines / advances / COLR / MATH by glyph name
    if not opts.legacy_kern and "kern" in tables0 and "GPOS" in tables0:
        if "nokern" not in nokern_cache:
            f0 = TTFont(io.BytesIO(orig_bytes), recalcTimestamp=False)
            del f0["kern"]
            nokern_cache["nokern"] = corpus.save_bytes(f0)
        cmp_bytes = nokern_cache["nokern"]
        ctx.note("guard: kern hidden from the original")
    else:
        cmp_bytes = orig_bytes
    quick = case["tier"] != "thorough"
    names = sorted(retained)
    cap = 40 if quick else 120
    if len(names) > cap:
        names = rnd.sample(names, cap)
    hc = H.HB(cmp_bytes) if cmp_bytes is not orig_bytes else h0
    locs = H.axis_locations(hc, rnd, n_random=1 if quick else 2, corners=not quick)
    if case["variant"] == "genlay" and variable_font(hc):
        locs = [None, {"wght": 900}, {"wght": 100}, {"wght": round(rnd.uniform(100, 900), 1)}]
    if case["variant"] == "genfv":
        cells = case["_prog"]["cells"]
        locs = [None] + (cells if len(cells) <= (7 if quick else 14) else rnd.sample(cells, 7 if quick else 14))
    variable = len(locs) > 1
    vertical = "vmtx" in tables0 and "vmtx" in S1.tables
    if vertical and "VVAR" in tables0 and "VVAR" in S1.tables:
        vertical = "origin"  # also compare HarfBuzz' vertical origin (VORG/VOrgMap, or glyph extents + top side bearing)
    notdef = orig_order[0] if "glyf" in tables0 else ".notdef"
    n_outline = 0
    for li, loc in enumerate(locs):
        ha = hc if loc is None else H.HB(cmp_bytes, loc)
        hb_ = h1 if loc is None else H.HB(sub_bytes, loc)
        for g in names:
            if g not in sindex or g not in oindex:
                continue
            ctx.judged()
            n_outline += 1
            vmode = True if (vertical == "origin" and g == notdef and not opts.notdef_outline) else vertical
            d = H.glyph_diff(ha, oindex[g], hb_, sindex[g], vmode)
            if d is None:
                continue
            field, detail = d
            if field == "outline" and g == notdef and not opts.notdef_outline:
                ctx.skip("guard: .notdef outline dropped on request")
                continue
            nd = False
            if g == notdef:
                # notdef=True is reserved for the one known mechanism: the emptied .notdef of a gvar font without
                # HVAR loses its advance *variation* (advance frozen at its default value); anything else that
                # happens to .notdef is tagged differently so that it is reported as new
                frozen = (field == "h_advance" and loc is not None and not opts.notdef_outline and "HVAR" not in tables0
                          and hb_.h_advance(sindex[g]) == h1.h_advance(sindex[g]) == hc.h_advance(oindex[g]))
                nd = True if frozen else "other"
            bad({"kind": "glyph", "field": field, "at_default": loc is None, "variable": variable,
                 "outlines": "glyf" if "glyf" in tables0 else "CFF", "notdef": nd,
                 "notdef_outline": bool(opts.notdef_outline), "has_HVAR": "HVAR" in tables0},
                "glyph %s: %s differs (%s)%s" % (g, field, detail, "" if loc is None else " at %s" % loc), glyph=g, location=loc)
            break
    # COLR layers / MATH constructions are promised for glyphs that text can reach directly (requested
    # glyphs and the glyphs of requested characters), not for glyphs pulled in later as components/variants
    direct = sorted(({orig_order[nominal[c]] for c in want_cps} | want_glyphs) & set(sub_order) & set(oindex))
    if len(direct) > cap:
        direct = rnd.sample(direct, cap)
    if "COLR" in tables0 and "COLR" in S1.tables:
        for g in direct:
            if g in sindex and g in oindex:
                a, b = H.color_layers(hc, oindex[g], orig_order), H.color_layers(h1, sindex[g], sub_order)
                if a:
                    ctx.judged()
                    ctx.note("COLR layer comparisons")
                    if a != b:
                        bad({"kind": "glyph", "field": "COLR-layers"}, "colour layers of %s: %s vs %s" % (g, a, b), glyph=g)
    elif "COLR" in tables0 and "COLR" not in opts.drop_tables and any(H.color_layers(hc, oindex[g], orig_order) for g in direct):
        bad({"kind": "glyph", "field": "COLR-dropped"}, "COLR dropped although a retained glyph has colour layers")
    if "MATH" in tables0 and "MATH" in S1.tables and "MATH" not in opts.drop_tables:
        for g in direct:
            if g in sindex and g in oindex:
                a, b = H.math_record(hc, oindex[g], orig_order), H.math_record(h1, sindex[g], sub_order)
                ctx.judged()
                ctx.note("MATH record comparisons")
                if a != b:
                    diff = sorted(kk for kk in a if a[kk] != b.get(kk))
                    bad({"kind": "glyph", "field": "MATH", "part": diff[0].split("-")[0]}, "MATH data of %s differs in %s: %r vs %r" % (g, diff, a[diff[0]], b.get(diff[0])), glyph=g)
                    break

    # ---------------- (b) differential shaping
    chars = sorted(set(c for c in chars if H.safe_cp(c)))
    layout_active = 0
    n_texts = 0
    if chars and ({"GSUB", "GPOS"} & bad_tables0):
        ctx.skip("guard: original layout tables name glyph ids beyond numGlyphs, shaping not judged")
    elif chars and ("GSUB" in tables0 or "GPOS" in tables0 or "kern" in tables0):
        layout_active, n_texts = _shaping(case, ctx, rnd, opts, chars, S0, S1, cmp_bytes, sub_bytes, orig_order, sub_order,
                                          retained, locs, bad, quick, tables0)
    elif chars:
        ctx.note("no layout tables: shaping not compared")

    if removed > 0 and (layout_active or n_outline):
        ctx.nontrivial("%s|%s|%s|%s" % (case["path"], case["variant"], kind, _sig(optd)))
        ctx.note("non-trivial draws")
    if layout_active:
        ctx.note("draws with layout-active texts")
    if ctx.sample is None:
        ctx.sample = dict(desc, glyphs_before=len(orig_order), retained=len(retained), emptied=len(emptied),
                          texts_compared=n_texts, layout_active_texts=layout_active, outline_comparisons=n_outline,
                          swept_tables=sorted(judged_tables))


def _shaping(case, ctx, rnd, opts, chars, S0, S1, cmp_bytes, sub_bytes, orig_order, sub_order, retained, locs, bad, quick, tables0):
    gsub_tags = set(S0.features.get("GSUB", []))
    all_tags = gsub_tags | set(S0.features.get("GPOS", []))
    if "*" in opts.layout_features:
        kept = set(all_tags)
    else:
        kept = all_tags & set(opts.layout_features)
    feats = {t: False for t in all_tags - kept}
    if not opts.layout_closure:
        for t in gsub_tags:
            feats[t] = False
        ctx.note("guard: GSUB features off (no layout closure)")
    if feats:
        ctx.note("guard: dropped features switched off in the original")
    if "kern" in S1.tables and "GPOS" in tables0 and "kern" in tables0:
        # HarfBuzz uses the kern table only when the chosen GPOS script has no 'kern' feature: which of the two
        # applies depends on a feature being present, not on what the subsetter kept -> kerning not compared here
        # (the kern-only variant and legacy_kern=False cover both tables separately)
        feats["kern"] = False
        ctx.note("guard: kern off (kern table and GPOS coexist)")
    scripts = sorted(set(S0.scripts.get("GSUB", {})) | set(S0.scripts.get("GPOS", {})))
    if "*" not in opts.layout_scripts:
        scripts = [s for s in scripts if s.strip() in opts.layout_scripts]
    configs = []
    # every declared (script, language) pair: all of them for the generated layout fonts, one extra non-default
    # language system for any other font that declares one
    pairs = []
    if "*" in opts.layout_scripts:
        for sc in scripts:
            for lg in sorted(set(S0.scripts.get("GSUB", {}).get(sc, [])) | set(S0.scripts.get("GPOS", {}).get(sc, []))):
                pairs.append((sc, lg))
    forced = []
    if case["variant"] == "genlay":
        forced = list(pairs)
    else:
        nd = [p for p in pairs if p[1] != "dflt"]
        if nd:
            forced = [rnd.choice(nd)]
    if case["variant"] in ("genfv", "genlay"):
        nconf = max(len(locs), len(forced))
    else:
        nconf = (2 if quick else 3) + len(forced)
    for ci in range(nconf):
        f = dict(feats)
        for t in sorted(kept):
            if t not in f and rnd.random() < 0.5:
                f[t] = rnd.choice([1, 1, 1, 2, 3])
        script = rnd.choice(scripts) if scripts else "DFLT"
        langs = sorted(set(S0.scripts.get("GSUB", {}).get(script, [])) | set(S0.scripts.get("GPOS", {}).get(script, [])))
        lang = "dflt"
        if "*" in opts.layout_scripts and len(langs) > 1 and rnd.random() < 0.3:
            lang = rnd.choice(langs)
        if ci < len(forced):
            script, lang = forced[ci]
            ctx.note("shaping configs with a declared language system")
        r = rnd.random()
        direction = "ltr" if r < 0.8 else ("rtl" if r < 0.92 else "ttb")
        loc = locs[ci % len(locs)]
        configs.append((f, script, lang, direction, loc))
    n = len(chars)
    budget = 500 if quick else 2000
    texts = [[c] for c in chars]
    if n + n * n <= budget:
        texts += [[a, b] for a in chars for b in chars]
        ctx.note("exhaustive length<=2 text sets")
    else:
        texts += [[rnd.choice(chars), rnd.choice(chars)] for _ in range(budget - n)]
    for _ in range(40 if quick else 120):
        texts.append([rnd.choice(chars) for _i in range(rnd.randint(3, 8))])
    h_cls = H.HB(cmp_bytes)
    marks = [c for c in chars if h_cls.face.get_layout_glyph_class(h_cls.nominal(c)) == 3]
    if marks:
        nm = [c for c in chars if c not in marks]
        trip = [[a, m, b] for m in marks[:3] for a in nm for b in nm]
        if len(trip) > (150 if quick else 500):
            trip = rnd.sample(trip, 150 if quick else 500)
        texts += trip
        ctx.note("base-mark-base texts", len(trip))
    active = 0
    total = 0
    import unicodedata
    oset = set(orig_order)
    mirrored = {c for c in chars if not H.is_private(c) and unicodedata.mirrored(chr(c))}
    dropped_gsub = gsub_tags - kept
    for f, script, lang, direction, loc in configs:
        if dropped_gsub and script.strip() not in ("DFLT", "latn", "cyrl", "grek"):
            # HarfBuzz's complex shapers build their plan (stages and pauses) from the features the FONT HAS, not
            # from those the caller enables -- e.g. the Arabic shaper inserts a pause between rclt and calt only when
            # the font has no rclt -- so with a requested feature drop the two fonts are shaped under different plans
            # even with the dropped feature disabled: behaviour that depends on a feature being present (DESIGN 3.5)
            ctx.note("guard: complex-shaper plan depends on dropped GSUB features (%s)" % script.strip())
            ctx.skip("guard: complex shaper and GSUB features dropped on request, shaping config not judged")
            continue
        ha = H.HB(cmp_bytes, loc)
        hb_ = H.HB(sub_bytes, loc)
        has_a = (ha.face.has_layout_substitution, ha.face.has_layout_positioning, ha.face.has_layout_glyph_classes)
        has_b = (hb_.face.has_layout_substitution, hb_.face.has_layout_positioning, hb_.face.has_layout_glyph_classes)
        if has_a != has_b:
            # HarfBuzz synthesises glyph classes from Unicode when GDEF has none (and uses `kern` when GPOS is
            # absent): behaviour that depends on a table being present, DESIGN §3.5 -> not judged
            ctx.note("table presence differs (GSUB,GPOS,GDEF classes) %s->%s" % (has_a, has_b))
            ctx.skip("guard: layout table presence differs, shaping config not judged")
            continue
        reported = False
        for t in texts:
            if direction == "rtl" and any(c in mirrored for c in t):
                continue  # bidi mirroring substitutes a character that need not be retained
            ra = H.named(H.shape(ha, t, f, script, lang, direction), orig_order)
            rb = H.named(H.shape(hb_, t, f, script, lang, direction), sub_order)
            if any(x[0].startswith("gid") and x[0] not in oset for x in ra):
                ctx.skip("guard: original shapes to a glyph id beyond numGlyphs")
                continue
            ctx.judged()
            total += 1
            if len(ra) != len(t) or any(x[0] != orig_order[ha.nominal(c)] or x[2] != ha.h_advance(ha.nominal(c)) or x[4] or x[5]
                                        for x, c in zip(ra, t if direction != "rtl" else t[::-1])):
                active += 1
            stray = [x[0] for x in rb if x[0] not in retained]
            if stray and not reported:
                reported = True
                bad({"kind": "closure", "what": "shaped glyph not retained"}, "shaping the subset yields %s which is not in glyphs_retained" % stray[:4],
                    text=["U+%04X" % c for c in t], script=script, lang=lang, direction=direction, features=f, location=loc)
            if ra != rb and not reported:
                reported = True
                na, nb = [x[0] for x in ra], [x[0] for x in rb]
                if na != nb:
                    diff = "glyphs"
                elif [x[2:4] for x in ra] != [x[2:4] for x in rb]:
                    diff = "advances"
                elif [x[4:6] for x in ra] != [x[4:6] for x in rb]:
                    diff = "offsets"
                else:
                    diff = "clusters"
                # mechanism labels: the language system / script used for shaping was deleted by the subsetter
                # because all its features were subset away (HarfBuzz then falls back to the default language
                # system / DFLT script, whose features may differ)
                ls_emptied = lang != "dflt" and (script, lang) in _mon["emptied_langsys"]
                sc_emptied = script in _mon["emptied_scripts"]
                bad({"kind": "shaping", "diff": diff, "presence_changed": has_a != has_b,
                     "langsys_emptied": ls_emptied, "script_emptied": sc_emptied},
                    "text %s shapes differently: original %s, subset %s" % (["U+%04X" % c for c in t], ra, rb),
                    text=["U+%04X" % c for c in t], script=script, lang=lang, direction=direction, features=f, location=loc,
                    original=ra, subset=rb)
    ctx.note("texts shaped", total)
    ctx.note("layout-active texts", active)
    return active, total


def coverage_extra(results):
    lk = Counter()
    for r in results:
        for k, v in r["obs"].items():
            if k.startswith("lookup subset ") or k.startswith("lookup closure "):
                lk[k] += v
    return {"lookup_types_exercised": len([k for k in lk if k.startswith("lookup subset ")])}
