"""C03 — TTX XML dump/import is lossless, for all dump options.

For each font A (corpus binary fonts, TTC members, compiled TTX fonts, fonts with hostile
strings injected, a generated EBDT/EBLC bitmap font) and dump option set o:

    ref = table bytes of  save(A loaded completely, recalcBBoxes=False, recalcTimestamp=False)
    got = table bytes of  save(import(dump_o(A)))           (same flags)

and ref[t] == got[t] for every tag (tag sets equal; head.checkSumAdjustment excluded).
Both files are taken apart by a spec-written sfnt directory parser.  A per-table
selection (tables= / skipTables=) is imported on top of the original font (ttx -m).
Free-text normalisation: a difference in `name` / `CFF ` is accepted only if a
struct-level comparison shows that nothing but name-record / CFF string data differs and
those strings are equal after XML white-space normalisation (oracle/c03_strings.py).

Monitors: TTFont.saveXML/_tableToXML/importXML and XMLReader._startElementHandler count
what was really dumped and parsed (tables, src= includes); xmlWriter.escape/escapeattr
carry a post-condition judged by expat (an independent XML parser): the escaped text
must parse back to the input.
"""
import io
import os
import random
import re
import shutil
import zlib
from xml.parsers import expat

from vmon import corpus, hooks, probes
from vmon.case import exc_mech
from vmon.oracle import c01_sfntdir as sd
from vmon.oracle import c03_strings as cs

PROPERTY = "C03"
LEVEL = "exploration"
RULE = ("one evaluation = (font, dump option set): split mode whole|tables|glyphs, disassembleInstructions, newline "
        "convention, bitmapGlyphDataFormat, tables=/skipTables= selection, API or in-process ttx CLI, source model read from "
        "binary or from TTX; non-trivial when the monitors saw at least one table element written by the dump and parsed "
        "by the import and every table of the two saved files was compared; distinct by (font, option set)")
ASSUMPTIONS = [
    "the original object model is the font loaded with lazy=False with every table decompiled; both sides are saved as plain sfnt with recalcBBoxes=False, recalcTimestamp=False and compared table by table through a spec-written directory parser; head.checkSumAdjustment is container-level and excluded",
    "free-text white-space normalisation (stated in the property) is granted only when a struct-level comparison (vmon/oracle/c03_strings.py) shows that the sole difference is name-record / CFF String INDEX data equal after collapsing XML white space",
    "per-table dumps (tables=/skipTables=) are imported on top of the original font, as `ttx -m` does",
    "dumps are written into a scratch sub-directory named by an absolute path, by a relative path with a directory component, or by a bare file name in the current directory (the worker's cwd is moved for that option set and restored)",
    "hostile strings are limited to what the binary formats can carry and XML 1.0 can represent: glyph names get XML-special ASCII characters only (no blanks/commas: TTX uses them as list separators), name records / meta text / SVG documents get &, <, >, quotes, ]]>, non-BMP, tab/CR/LF and leading/trailing blanks",
    "value perturbation (hostile kind 'perturb'): numeric fields of the loaded object model are replaced by type-preserving variants (integral-valued floats in CFF/CFF2 DICT arrays and blend lists, 0xFFFF-outer delta-set index map entries with inner 0/1/0xFFFE/0xFFFF, boundary integers and long-decimal fixed-point values in OpenType-layout-style tables, head/hhea/vhea/OS/2/post/maxp/hmtx/vmtx/cvt/fvar/VORG/gasp fields); the perturbed font is an input only if it compiles, loads completely and compiles again, otherwise a gentler perturbation level is used",
    "expat is the trusted XML parser for the escape post-condition; characters XML 1.0 cannot represent are documented as replaced by '?'",
]
REQUIRED_MONITORS = ["TTFont.saveXML", "TTFont._tableToXML", "TTFont.importXML", "XMLReader._startElementHandler",
                     "xmlWriter.escape", "xmlWriter.escapeattr"]
CASE_TIMEOUT = 900
MANIFEST = {
    "text": "Exploration over the whole vendored corpus (438 fonts: binaries, TTC members, compiled TTX) plus fonts with hostile strings injected into glyph names, name records, meta and SVG payloads and a generated EBDT/EBLC bitmap font: each is dumped to TTX under whole / splitTables / splitGlyphs, with and without instruction disassembly, LF / CRLF / CR newlines, every bitmap data format, tables= and skipTables= selections, through the API and the in-process ttx CLI; the dump is imported and saved and its table bytes are compared with those of the saved original object model. The suite pins XML text of about twenty fonts, not the binary the XML must reproduce.",
    "note": "Trusted base: vmon/oracle/c01_sfntdir.py (struct-level sfnt parser), vmon/oracle/c03_strings.py (struct-level name / CFF string comparison for the stated white-space normalisation), expat for the escape post-condition. Both sides go through the same compiler, so only dump+import can make them differ.",
    "technique": "differential save(model) vs save(import(dump(model))) on table bytes over corpus x dump options; monitors on saveXML/_tableToXML/importXML/XMLReader; escape post-condition judged by expat; hostile-string and bitmap-font generators",
    "design_ref": "DESIGN.md §4 C03",
}
EXHAUSTIVE = {"quick": False, "thorough": False}

NEWLINES = {"LF": "\n", "CRLF": "\r\n", "CR": "\r"}
_cur = {"dumped": [], "parsed": [], "src": 0, "esc": 0, "esc_hard": 0}

_SAFE = re.compile(r"^[A-Za-z0-9 _.,:;=/()\-+#\n\[\]*!?@$%^{}|~`]*$")


# ------------------------------------------------------------------ monitors
def _expat_text(doc):
    out = []
    p = expat.ParserCreate()
    p.CharacterDataHandler = out.append
    p.Parse(doc, True)
    return "".join(out)


def _expat_attr(doc):
    got = {}
    p = expat.ParserCreate()
    p.StartElementHandler = lambda name, attrs: got.update(attrs)
    p.Parse(doc, True)
    return got.get("v")


def setup():
    from fontTools.misc import xmlWriter as XW, xmlReader as XR, fixedTools as FT
    from fontTools.ttLib import ttFont as TF
    from fontTools.ttLib.tables import ttProgram as TP

    illegal = XW.ILLEGAL_XML_CHARS

    def as_text(data):
        return data.decode("utf_8") if isinstance(data, (bytes, bytearray)) else data

    def post_escape(st, a, kw, res, exc):
        _cur["esc"] += 1
        if exc is not None:
            return
        try:
            data = as_text(a[0])
        except UnicodeDecodeError:
            return
        if _SAFE.match(data):
            if res != data:
                hooks.report({"kind": "escape", "func": "escape", "what": "plain text altered"},
                             "xmlWriter.escape changed text that needs no escaping: %r -> %r" % (data[:80], res[:80]), None)
            return
        _cur["esc_hard"] += 1
        want = data.translate(illegal)
        try:
            got = _expat_text("<a>" + res + "</a>")
        except expat.ExpatError as e:
            hooks.report({"kind": "escape", "func": "escape", "what": "not well-formed"},
                         "xmlWriter.escape(%r) is not well-formed XML text: %s" % (data[:80], e), {"escaped": res[:200]})
            return
        if got != want:
            hooks.report({"kind": "escape", "func": "escape", "what": "does not parse back",
                          "chars": sorted({c for c in "&<>\r\"'" if c in data})},
                         "xmlWriter.escape(%r) parses back as %r" % (data[:80], got[:80]), {"escaped": res[:200]})

    def post_escapeattr(st, a, kw, res, exc):
        if exc is not None:
            return
        try:
            data = as_text(a[0])
        except UnicodeDecodeError:
            return
        if _SAFE.match(data) and "\n" not in data:
            if res != data:
                hooks.report({"kind": "escape", "func": "escapeattr", "what": "plain text altered"},
                             "xmlWriter.escapeattr changed %r -> %r" % (data[:80], res[:80]), None)
            return
        want = data.translate(illegal).replace("\t", " ").replace("\n", " ")   # XML attribute-value normalisation
        try:
            got = _expat_attr('<a v="' + res + '"/>')
        except expat.ExpatError as e:
            hooks.report({"kind": "escape", "func": "escapeattr", "what": "not well-formed"},
                         "xmlWriter.escapeattr(%r) is not a well-formed attribute value: %s" % (data[:80], e),
                         {"escaped": res[:200]})
            return
        if got != want:
            hooks.report({"kind": "escape", "func": "escapeattr", "what": "does not parse back",
                          "chars": sorted({c for c in "&<>\r\"'" if c in data})},
                         "xmlWriter.escapeattr(%r) parses back as %r" % (data[:80], (got or "")[:80]), {"escaped": res[:200]})

    def pre_comment(a, kw):
        # observe what this call really writes: shadow the instance's _writeraw for its duration
        w, buf = a[0], []
        inner = w._writeraw

        def spy(data, indent=True, strip=False):
            buf.append(data.decode("utf_8", "replace") if isinstance(data, (bytes, bytearray)) else data)
            return inner(data, indent=indent, strip=strip)

        w._writeraw = spy
        return (w, buf)

    def post_comment(st, a, kw, res, exc):
        if st is None:
            return
        w, buf = st
        try:
            del w._writeraw
        except AttributeError:
            pass
        if exc is not None:
            return
        text = "".join(buf)
        # XML 1.0 production [15]: <!-- ((Char - '-') | ('-' (Char - '-')))* -->
        m = re.match(r"^<!--(.*)-->$", text, re.S)
        body = m.group(1) if m else None
        if body is None or "--" in body or body.endswith("-"):
            hooks.report({"kind": "escape", "func": "comment", "what": "double hyphen inside an XML comment"},
                         "XMLWriter.comment wrote a comment that is not well-formed XML: %r" % text[:100],
                         {"written": text[:300]})

    hooks.attach(XW.XMLWriter, "comment", pre=pre_comment, post=post_comment, name="XMLWriter.comment")
    hooks.attach(XW, "escapeattr", post=post_escapeattr, name="xmlWriter.escapeattr")
    hooks.attach(XW, "escape", post=post_escape, name="xmlWriter.escape")

    def post_table_to_xml(st, a, kw, res, exc):
        if exc is None and a[2] in a[0]:
            _cur["dumped"].append(str(a[2]))

    def pre_start(a, kw):
        rd, name, attrs = a[0], a[1], a[2]
        if rd.stackSize == 1 and not rd.contentOnly:
            if attrs.get("src") is not None:
                _cur["src"] += 1
            else:
                _cur["parsed"].append(name)
        elif rd.stackSize == 2 and attrs.get("src") is not None:
            _cur["src"] += 1
        return None

    hooks.attach(TF.TTFont, "saveXML", name="TTFont.saveXML")
    hooks.attach(TF.TTFont, "_tableToXML", post=post_table_to_xml, name="TTFont._tableToXML")
    hooks.attach(TF.TTFont, "importXML", name="TTFont.importXML")
    hooks.attach(XR.XMLReader, "_startElementHandler", pre=pre_start, name="XMLReader._startElementHandler")
    probes.add_site("fixedToStr", FT.fixedToStr)
    probes.add_site("strToFixed", FT.strToFixed)
    probes.add_site("ttProgram.getAssembly", TP.Program.getAssembly)
    probes.add_site("ttProgram.fromAssembly", TP.Program.fromAssembly)
    probes.add_site("ttProgram._assemble", TP.Program._assemble)
    probes.add_site("ttProgram._disassemble", TP.Program._disassemble)
    probes.add_site("XMLReader:src-include-table", XR.XMLReader._startElementHandler, r"subReader = XMLReader\(subFile, self\.ttFont, self\.progress\)$")
    probes.add_site("XMLReader:src-include-content", XR.XMLReader._startElementHandler, r"contentOnly=True")


# ------------------------------------------------------------------ cases
def _h(s):
    return zlib.crc32(s.encode())


def _fid(rec):
    return rec["path"] + ("#%d" % rec["member"] if rec["member"] is not None else "")


def _has_instr(rec):
    return any(t in rec["tables"] for t in ("glyf", "fpgm", "prep"))


def _opt(split="whole", disasm=True, nl="LF", bitmap="raw", sel=None, via="api", model="binary", path="abs"):
    """path: how the dump's file name is given - "abs" absolute path into a scratch sub-directory,
    "rel" relative path with a directory component, "cwd" bare file name in the current directory."""
    return {"split": split, "disasm": disasm, "nl": nl, "bitmap": bitmap, "sel": sel, "via": via, "model": model,
            "path": path}


def _opt_id(o):
    s = "%s/%s/%s/%s/%s/%s" % (o["split"], "asm" if o["disasm"] else "hex", o["nl"], o["bitmap"], o["via"], o["model"])
    if o["sel"]:
        s += "/%s=%s" % (o["sel"][0], ",".join(t.strip() for t in o["sel"][1]))
    if o.get("path", "abs") != "abs":
        s += "/path=" + o["path"]
    return s


def _random_opt(rnd, rec, T=False):
    splits = ["whole", "tables"] + (["glyphs"] if "glyf" in rec["tables"] else [])
    o = _opt(split=rnd.choice(splits), disasm=rnd.random() < 0.5 if _has_instr(rec) else True,
             nl=rnd.choice(list(NEWLINES)))
    r = rnd.random()
    tags = ["GlyphOrder"] + list(rec["tables"])
    if r < 0.35 and len(rec["tables"]) >= 2:
        k = rnd.randrange(1, len(tags))
        o["sel"] = [rnd.choice(["tables", "skip"]), sorted(rnd.sample(tags, k))]
    return o


def _full_opts(rec):
    splits = ["whole", "tables"] + (["glyphs"] if "glyf" in rec["tables"] else [])
    out = []
    for sp in splits:
        for da in ([True, False] if _has_instr(rec) else [True]):
            for nl in NEWLINES:
                out.append(_opt(split=sp, disasm=da, nl=nl))
    return out


HOSTILE_KINDS = ["glyphnames", "name", "meta", "svg", "ttprogram", "glyphclash"]


def cases(tier, seed):
    T = tier == "thorough"
    recs = corpus.fonts()
    out = []
    for rec in recs:
        rnd = random.Random("c03/%s/%s" % (_fid(rec), seed))
        base = {"path": rec["path"], "member": rec["member"], "seed": seed, "kind": "corpus"}
        bitmap = "CBDT" in rec["tables"]
        if not T:
            opts = [_opt(), _random_opt(rnd, rec)]
            if bitmap:
                opts += [_opt(bitmap="extfile"), _opt(bitmap="row", split="tables", nl="CRLF"), _opt(bitmap="bitwise")]
            if any(t.startswith("TSI") for t in rec["tables"]):
                opts += [_opt(nl="CR"), _opt(nl="CRLF", split="tables")]     # source-text tables: newline conventions
            if _h(rec["path"]) % 16 == seed % 16:
                opts.append(_opt(via="cli", split=rnd.choice(["whole", "tables"]), nl=rnd.choice(list(NEWLINES))))
            out.append(dict(base, id="font:" + _fid(rec), opts=opts))
        else:
            opts = _full_opts(rec)
            for _ in range(3):
                o = _random_opt(rnd, rec)
                if not o["sel"] and len(rec["tables"]) >= 2:
                    tags = ["GlyphOrder"] + list(rec["tables"])
                    o["sel"] = [rnd.choice(["tables", "skip"]), sorted(rnd.sample(tags, rnd.randrange(1, len(tags))))]
                opts.append(o)
            if bitmap:
                opts += [_opt(bitmap=b, split=sp, nl=nl) for b in ("raw", "row", "bitwise", "extfile")
                         for sp, nl in (("whole", "LF"), ("tables", "CR"))]
            opts.append(_opt(via="cli", split="whole"))
            opts.append(_opt(via="cli", split=rnd.choice(["tables", "glyphs"] if "glyf" in rec["tables"] else ["tables"]),
                             disasm=not _has_instr(rec) or rnd.random() < 0.5, nl=rnd.choice(list(NEWLINES))))
            if rec["kind"] == "ttx":
                opts.append(_opt(model="xml"))
                opts.append(_opt(model="xml", split="tables", nl="CRLF"))
            # de-duplicate
            seen, uniq = set(), []
            for o in opts:
                if _opt_id(o) not in seen:
                    seen.add(_opt_id(o))
                    uniq.append(o)
            # split big option lists into several cases to keep cases short
            step = 4 if rec["size"] > 50000 else 8
            for k in range(0, len(uniq), step):
                out.append(dict(base, id="font:%s:%d" % (_fid(rec), k // step), opts=uniq[k:k + step]))
    # hostile strings
    rnd = random.Random("c03-hostile/%s/%s" % (tier, seed))
    pool = [r for r in recs if r["complete"] and r["member"] is None and r["flavor"] is None and r["numGlyphs"] >= 3]
    hosts = rnd.sample(pool, 150) if T else rnd.sample(pool, 40)
    for rec in hosts:
        kinds = list(HOSTILE_KINDS)
        for kind in (kinds if T else rnd.sample(kinds, 2)):
            if kind == "glyphnames" and rec["outlines"] not in ("glyf", "CFF "):
                continue
            if kind in ("ttprogram", "glyphclash") and rec["outlines"] != "glyf":
                continue
            if kind == "glyphclash":
                continue      # generated below on a dedicated host list
            if kind == "ttprogram":
                opts = [_opt(), _opt(disasm=False), _opt(split="glyphs", nl=rnd.choice(["CR", "CRLF"]))]
                if T:
                    opts += [_opt(split="tables", nl="CR"), _opt(via="cli"), _opt(via="cli", disasm=False, split="glyphs")]
                out.append({"id": "hostile:%s:%s" % (kind, _fid(rec)), "kind": "hostile", "hostile": kind, "path": rec["path"],
                            "member": None, "seed": seed, "opts": opts})
                continue
            opts = [_opt(), _opt(split="tables", nl=rnd.choice(["CR", "CRLF"]))] if not T else \
                [_opt(), _opt(split="tables", nl="CR"), _opt(nl="CRLF"), _opt(split="glyphs" if "glyf" in rec["tables"] else "tables")]
            out.append({"id": "hostile:%s:%s" % (kind, _fid(rec)), "kind": "hostile", "hostile": kind, "path": rec["path"],
                        "member": None, "seed": seed, "opts": opts})
    # value perturbation before the TTX round trip: type-preserving variants of numeric fields in every
    # table kind the font has (see _perturb)
    special = [r for r in pool if any(t in r["tables"] for t in ("CFF2", "COLR", "HVAR", "VVAR", "avar", "MVAR", "STAT"))]
    cffs = [r for r in pool if r["outlines"] == "CFF "]
    others = [r for r in pool if r not in special]
    chosen = rnd.sample(special, min(len(special), 60 if T else 14)) + rnd.sample(cffs, min(len(cffs), 40 if T else 10)) \
        + rnd.sample(others, min(len(others), 80 if T else 12))
    seen_p = set()
    for rec in chosen:
        if rec["path"] in seen_p:
            continue
        seen_p.add(rec["path"])
        opts = [_opt(), _opt(split="tables", nl=rnd.choice(["CR", "CRLF"]))]
        if T:
            opts.append(_opt(via="cli"))
        out.append({"id": "hostile:perturb:%s" % _fid(rec), "kind": "hostile", "hostile": "perturb", "path": rec["path"],
                    "member": None, "seed": seed, "opts": opts})
    # glyph names that collide after file-name mangling (per-glyph split dumps write one file per
    # glyph): every way of naming the output file, API and CLI
    glyf = [r for r in pool if r["outlines"] == "glyf" and 6 <= r["numGlyphs"] <= 400]
    chosen = rnd.sample(glyf, min(len(glyf), 30 if T else 8))
    for rec in chosen:
        opts = [_opt(split="glyphs"), _opt(split="glyphs", path="rel", nl=rnd.choice(["CR", "CRLF"])),
                _opt(split="glyphs", path="cwd", disasm=False), _opt(split="tables"), _opt()]
        if T:
            opts += [_opt(split="glyphs", via="cli"), _opt(split="glyphs", via="cli", path="rel"),
                     _opt(split="glyphs", via="cli", path="cwd"), _opt(split="glyphs", sel=["tables", ["glyf"]])]
        else:
            opts.append(_opt(split="glyphs", via="cli", path=rnd.choice(["abs", "rel"])))
        out.append({"id": "hostile:glyphclash:%s" % _fid(rec), "kind": "hostile", "hostile": "glyphclash", "path": rec["path"],
                    "member": None, "seed": seed, "opts": opts})
    # generated EBDT/EBLC bitmap fonts (all four bitmap formats; the corpus has CBDT only)
    for i in range(12 if T else 4):
        rec = glyf[(seed * 7 + i * 5) % len(glyf)]
        opts = [_opt(bitmap=b) for b in ("raw", "row", "bitwise", "extfile")]
        opts += [_opt(bitmap="row", split="tables", nl="CR"), _opt(bitmap="bitwise", nl="CRLF")]
        if T:
            opts += [_opt(bitmap=b, via="cli") for b in ("row", "bitwise", "extfile")]
        out.append({"id": "ebdt:%d:%s" % (i, _fid(rec)), "kind": "ebdt", "path": rec["path"], "member": None, "seed": seed,
                    "variant": i, "opts": opts})
    return out


# ------------------------------------------------------------------ hostile strings
HOSTILE_TEXT = ["R&D", "a<b", "x>y", 'say "hi"', "it's", "]]>", "<![CDATA[x]]>", "&amp;", "&#65;", "tab\there", "line\nbreak",
                "cr\rhere", "crlf\r\nhere", "  leading", "trailing  ", "\U0001F600 non-BMP \U00010348", "<!-- c -->", "a--b",
                "%s %d {0}", "\u00e9\u4e2d\u6587", "<?pi?>", "&lt;"]
# leading/trailing characters that Python's str.strip() removes but that are NOT XML white space
HOSTILE_UNISPACE = ["\u00a0nbsp-led", "\u2028line-sep-led", "ideographic-trailed\u3000"]
HOSTILE_GLYPH = ["a&b", "x<y", "p>q", 'q"r', "s't", "u]]>v", "w&amp;", "z&#65;", "<x/>", "a--b"]


def _inject(font, kind, rnd, ctx):
    """Mutate a loaded font in place; returns a short description or None if not applicable."""
    from fontTools.ttLib import newTable

    if kind == "name":
        if "name" not in font:
            font["name"] = newTable("name")
            font["name"].names = []
        nm = font["name"]
        texts = rnd.sample(HOSTILE_TEXT, 10)
        for i, s in enumerate(texts):
            nm.setName(s, 256 + i, 3, 1, 0x409)
            try:
                s.encode("mac_roman")
                nm.setName(s, 256 + i, 1, 0, 0)
            except UnicodeEncodeError:
                pass
        nm.setName(rnd.choice(HOSTILE_TEXT), 300, 0, 4, 0)
        nm.setName(rnd.choice(HOSTILE_UNISPACE), 301, 3, 1, 0x409)
        return "name:%d strings" % (len(texts) + 2)
    if kind == "meta":
        t = newTable("meta")
        t.data = {"dlng": rnd.choice(["en-Latn, R&D <x> \"q\" ]]>", "Latn, a--b & <c>", "zh-Hans, \U0001F600, x&amp;y"]),
                  "slng": rnd.choice(["Latn, 'q' & <b>", "Cyrl,]]>,&#65;"]),
                  "appl": bytes(rnd.randrange(256) for _ in range(rnd.randrange(1, 40))),
                  "asci": rnd.choice([b"plain ascii -- with double hyphen", b"R&D <tag> ]]> \"q\"", b"a--b", b"x-- >"])}
        font["meta"] = t
        return "meta"
    if kind == "svg":
        from fontTools.ttLib.tables.S_V_G_ import SVGDocument

        t = newTable("SVG ")
        n = len(font.getGlyphOrder())
        docs = ['<svg xmlns="http://www.w3.org/2000/svg"><g id="glyph1"><text>R&amp;D ]]> &lt; \U0001F600</text></g></svg>',
                '<svg xmlns="http://www.w3.org/2000/svg"><!-- a ]]> b --><g id="glyph2"><![CDATA[ x < y ]]></g></svg>',
                "<svg xmlns='http://www.w3.org/2000/svg'><g id='glyph2'>\nline\ttab</g></svg>"]
        t.docList = [SVGDocument(docs[0], 1, 1), SVGDocument(rnd.choice(docs[1:]), 2, min(2, n - 1))]
        t.colorPalettes = None
        font["SVG "] = t
        return "svg"
    return None


_LONG = "uni0644_uni0627_" * 15      # 240 characters: file names are clipped well before the suffix
CLASH_SETS = [["k/alt", "k:alt", "k*alt"], ["Q?x", "Q|x"], ["K", "k_"], ["Ka.sc", "k_a.sc"],
              [_LONG + ".init", _LONG + ".medi", _LONG + ".fina"], ["a<b", "a>b", 'a"b'], ["con", "_con"]]


def _hostile_glyphnames(src, rnd, clash=False):
    """Glyph names live only in `post` (format 2) or in the CFF charset; every other table
    stores glyph ids.  So only that one table is decoded, renamed and recompiled; all other
    tables of the derived font are the source's raw bytes."""
    from fontTools.ttLib import TTFont

    f = TTFont(io.BytesIO(src), lazy=True, recalcBBoxes=False, recalcTimestamp=False)
    if "glyf" in f and "post" in f:
        post = f["post"]
        order = list(f.getGlyphOrder())
    elif "CFF " in f:
        td = f["CFF "].cff.topDictIndex[0]
        if hasattr(td, "ROS"):
            return None, None
        order = list(f.getGlyphOrder())
    else:
        return None, None
    if len(order) < 3 or len(set(order)) != len(order):
        return None, None
    if clash:
        # names that map to the same per-glyph file name, given to glyphs that have outlines
        # (only those get a file of their own)
        g = TTFont(io.BytesIO(src), lazy=False)
        outlined = [i for i, n in enumerate(order) if i and g["glyf"][n].numberOfContours != 0]
        if len(outlined) < 2:
            return None, None
        rnd.shuffle(outlined)
        sets = list(CLASH_SETS)
        rnd.shuffle(sets)
        idx, names = [], []
        for st in sets:
            st = [n for n in st if n not in order]
            if len(st) >= 2 and len(outlined) - len(idx) >= 2:
                k = min(len(st), len(outlined) - len(idx))
                names += st[:k]
                idx += outlined[len(idx):len(idx) + k]
    else:
        idx = rnd.sample(range(1, len(order)), min(len(order) - 1, len(HOSTILE_GLYPH)))
        names = rnd.sample(HOSTILE_GLYPH, len(idx))
    new = list(order)
    for i, n in zip(idx, names):
        new[i] = n
    ren = dict(zip(order, new))
    if "glyf" in f:
        post.formatType = 2.0
        post.extraNames = []
        post.mapping = {}
        f.setGlyphOrder(new)
    else:
        cs_ = td.CharStrings
        cs_.charStrings = {ren[k]: v for k, v in cs_.charStrings.items()}
        td.charset = new
        f.setGlyphOrder(new)
    out = corpus.save_bytes(f)
    chk = TTFont(io.BytesIO(out), lazy=True)
    if list(chk.getGlyphOrder()) != new:
        return None, None
    return out, "glyphnames:%d renamed%s" % (len(idx), " to names colliding as file names" if clash else "")


def _tt_bytecode(rnd, n):
    """Random TrueType bytecode that exercises every push form (PUSHB[n], PUSHW[n], NPUSHB,
    NPUSHW; deliberately non-optimal encodings, negative words, consecutive pushes) and
    arbitrary other opcodes, defined or not.  It only has to survive disassembly/assembly."""
    out = bytearray()
    for _ in range(n):
        r = rnd.random()
        if r < 0.14:
            k = rnd.randrange(1, 9)
            out += bytes([0xB0 + k - 1]) + bytes(rnd.randrange(256) for _ in range(k))
        elif r < 0.28:
            k = rnd.randrange(1, 9)
            out.append(0xB8 + k - 1)
            for _i in range(k):
                out += rnd.choice([0, 1, 255, 256, 32767, 32768, 65535, rnd.randrange(65536)]).to_bytes(2, "big")
        elif r < 0.38:
            k = rnd.choice([1, 2, 8, 9, 40, 255])
            out += bytes([0x40, k]) + bytes(rnd.randrange(256) for _ in range(k))
        elif r < 0.48:
            k = rnd.choice([1, 2, 8, 9, 40])
            out += bytes([0x41, k])
            for _i in range(k):
                out += rnd.choice([0, 5, 255, 256, 0x8000, 0xFFFF, rnd.randrange(65536)]).to_bytes(2, "big")
        else:
            op = rnd.randrange(256)
            while op in (0x40, 0x41) or 0xB0 <= op <= 0xBF:
                op = rnd.randrange(256)
            out.append(op)
    return bytes(out)


def _hostile_ttprogram(src, rnd):
    from fontTools.ttLib import TTFont
    from fontTools.ttLib.tables.DefaultTable import DefaultTable
    from fontTools.ttLib.tables import ttProgram

    f = TTFont(io.BytesIO(src), lazy=False, recalcBBoxes=False, recalcTimestamp=False)
    for tag in ("fpgm", "prep"):
        t = DefaultTable(tag)
        t.data = _tt_bytecode(rnd, rnd.choice([3, 20, 120]))
        f[tag] = t
    glyf = f["glyf"]
    n = 0
    for name in f.getGlyphOrder():
        g = glyf[name]
        if g.numberOfContours > 0 and rnd.random() < 0.5:
            g.program = ttProgram.Program()
            g.program.fromBytecode(_tt_bytecode(rnd, rnd.choice([1, 6, 40])))
            n += 1
        elif g.isComposite() and rnd.random() < 0.5:
            g.program = ttProgram.Program()
            g.program.fromBytecode(_tt_bytecode(rnd, rnd.choice([1, 6])))
            if g.components:
                g.components[-1].flags |= 0x0100      # WE_HAVE_INSTRUCTIONS
            n += 1
        if n >= 12:
            break
    return corpus.save_bytes(f), "ttprogram: fpgm, prep and %d glyph programs" % n


# ------------------------------------------------------------------ value perturbation
_OT_NUMERIC = {"Short", "UShort", "Int8", "UInt8", "Long", "ULong", "Fixed", "F2Dot14", "Angle", "BiasedAngle", "DeciPoints"}
_OT_SKIP = re.compile(r"Count|Format|Index|Offset|Class|Flag|Type|Length|Size|Glyph|Version|Reserved|Tag|Range|Shift|"
                      r"Selector|Start|End|First|Last|NameID|Ordering|Padding|Coverage|Lookup|Palette|Num|Entry", re.I)
_OT_VARIANTS = {"Short": [-32768, 32767, -1, 1, 0, 255, -256], "UShort": [0, 1, 65535, 256, 32768],
                "Int8": [-128, 127, 0], "UInt8": [0, 255, 1], "Long": [-2 ** 31, 2 ** 31 - 1, 70000], "ULong": [0, 2 ** 32 - 1, 70000],
                "Fixed": [1.0, -0.5, 1.25, 32767.5, -32768.0, 100.0, 1 / 65536, 0.100006103515625],
                "F2Dot14": [-2.0, 1.0, 0.5, 1 / 16384, 1.99993896484375, -0.75, 0.0],
                "Angle": [0.0, 0.5, -1.0, 0.25], "BiasedAngle": [0.0, 0.5, -1.0, 0.25], "DeciPoints": [0.0, 9.5, 10.0, 72.0]}


def _walk_ot(obj, seen, visit, depth=0):
    from fontTools.ttLib.tables.otBase import BaseTable, ValueRecord

    if id(obj) in seen or depth > 40:
        return
    seen.add(id(obj))
    if isinstance(obj, (BaseTable, ValueRecord)):
        visit(obj)
        for v in list(vars(obj).values()):
            _walk_ot(v, seen, visit, depth + 1)
    elif isinstance(obj, (list, tuple)):
        for v in obj:
            _walk_ot(v, seen, visit, depth + 1)
    elif isinstance(obj, dict):
        for v in obj.values():
            _walk_ot(v, seen, visit, depth + 1)


def _perturb_ot(font, rnd, stats, numeric=True):
    from fontTools.ttLib.tables import otTables
    from fontTools.ttLib.tables.otBase import BaseTable, BaseTTXConverter, ValueRecord

    budget = {"n": 0}

    def visit(node):
        # delta-set index maps: NO_VARIATION and 0xFFFF-outer entries with every kind of inner index
        if isinstance(node, (otTables.DeltaSetIndexMap, otTables.VarIdxMap)):
            m = getattr(node, "mapping", None)
            keys = list(m.keys()) if isinstance(m, dict) else list(range(len(m or [])))
            for k, inner in zip(rnd.sample(keys, min(len(keys), 4)), (1, 0, 0xFFFE, 0xFFFF)):
                m[k] = (0xFFFF << 16) | inner
                stats["index-map-entries"] += 1
            return
        if not numeric or budget["n"] >= 40:
            return
        if isinstance(node, ValueRecord):
            for a in ("XPlacement", "YPlacement", "XAdvance", "YAdvance"):
                if hasattr(node, a) and rnd.random() < 0.15:
                    setattr(node, a, rnd.choice(_OT_VARIANTS["Short"]))
                    budget["n"] += 1
                    stats["ot-fields"] += 1
            return
        try:
            convs = node.getConverters()
        except Exception:
            return
        for conv in convs:
            cls = type(conv).__name__
            if cls not in _OT_NUMERIC or conv.repeat or getattr(conv, "isCount", False) or getattr(conv, "isPropagated", False) \
                    or getattr(conv, "isLookupType", False) or _OT_SKIP.search(conv.name):
                continue
            v = getattr(node, conv.name, None)
            if isinstance(v, (int, float)) and not isinstance(v, bool) and rnd.random() < 0.12:
                setattr(node, conv.name, rnd.choice(_OT_VARIANTS[cls]))
                budget["n"] += 1
                stats["ot-fields"] += 1

    for tag in font.keys():
        t = font[tag] if tag != "GlyphOrder" else None
        if isinstance(t, BaseTTXConverter) and hasattr(t, "table"):
            budget["n"] = 0
            _walk_ot(t.table, set(), visit)


def _floaty(vals, rnd):
    """same length, every element a float, at least one integral-valued and one fractional"""
    if not vals:
        return vals
    if isinstance(vals[0], list):
        return [_floaty(v, rnd) for v in vals]
    out = [float(v) for v in vals]
    out[0] = out[0] - 0.5
    return out


def _perturb_cff(font, rnd, stats):
    for tag in ("CFF ", "CFF2"):
        if tag not in font:
            continue
        td = font[tag].cff.topDictIndex[0]
        privs = []
        if hasattr(td, "FDArray"):
            privs = [fd.Private for fd in td.FDArray if hasattr(fd, "Private")]
        elif hasattr(td, "Private"):
            privs = [td.Private]
        for pr in privs:
            for k in ("BlueValues", "OtherBlues", "FamilyBlues", "FamilyOtherBlues", "StemSnapH", "StemSnapV"):
                v = pr.rawDict.get(k)
                if isinstance(v, list) and v:
                    setattr(pr, k, _floaty(v, rnd))
                    stats["cff-array-floats"] += 1
        if tag == "CFF ":
            bb = td.rawDict.get("FontBBox")
            if isinstance(bb, list) and len(bb) == 4:
                td.FontBBox = [float(bb[0]) - 0.5, float(bb[1]), float(bb[2]), float(bb[3])]
                stats["cff-array-floats"] += 1
            td.FontMatrix = [0.0005, 0.0, 0.0, 0.0005, 0.0, 1.0]
            stats["cff-array-floats"] += 1


def _perturb_plain(font, rnd, stats):
    def bump(obj, attr, choices):
        if hasattr(obj, attr):
            setattr(obj, attr, rnd.choice(choices))
            stats["plain-fields"] += 1

    if "head" in font:
        h = font["head"]
        bump(h, "fontRevision", [1.0, 2.5, 1.00299072265625, 0.5, 13.1199951171875])
        bump(h, "lowestRecPPEM", [0, 6, 65535])
        bump(h, "macStyle", [0, 1, 0x7F])
        bump(h, "created", [3000000000 + rnd.randrange(10 ** 8), 2082844800, 2082844801])
        bump(h, "fontDirectionHint", [-2, 0, 2])
    for tag, fields in (("hhea", ["ascent", "descent", "lineGap", "caretSlopeRise", "caretSlopeRun", "caretOffset"]),
                        ("vhea", ["ascent", "descent", "lineGap", "caretSlopeRise", "caretSlopeRun", "caretOffset"]),
                        ("OS/2", ["xAvgCharWidth", "ySubscriptXOffset", "yStrikeoutPosition", "sTypoAscender", "sTypoDescender",
                                  "sTypoLineGap", "sxHeight", "sCapHeight"])):
        if tag in font:
            for a in fields:
                if rnd.random() < 0.5:
                    bump(font[tag], a, [-32768, 32767, -1, 0, 1, 1234])
    if "OS/2" in font:
        for a in ("usWeightClass", "usWidthClass", "fsType", "usWinAscent", "usWinDescent", "usDefaultChar", "usBreakChar"):
            if rnd.random() < 0.5:
                bump(font["OS/2"], a, [0, 1, 65535, 400])
    if "post" in font:
        bump(font["post"], "italicAngle", [-12.5, 0.0, 1 / 65536, -0.100006103515625, 359.5])
        bump(font["post"], "underlinePosition", [-32768, 32767, -75])
        bump(font["post"], "isFixedPitch", [0, 1, 2 ** 32 - 1])
    if "maxp" in font:
        for a in ("maxZones", "maxTwilightPoints", "maxStorage", "maxFunctionDefs", "maxStackElements"):
            bump(font["maxp"], a, [0, 1, 65535])
    for tag in ("hmtx", "vmtx"):
        if tag in font:
            m = font[tag].metrics
            for g in rnd.sample(sorted(m), min(len(m), 4)):
                m[g] = (rnd.choice([0, 1, 65535, 1000]), rnd.choice([-32768, 32767, -1, 0]))
                stats["plain-fields"] += 1
    if "cvt " in font and len(font["cvt "].values):
        v = font["cvt "].values
        for i in rnd.sample(range(len(v)), min(len(v), 3)):
            v[i] = rnd.choice([-32768, 32767, 0, -1])
            stats["plain-fields"] += 1
    if "fvar" in font:
        for a in font["fvar"].axes:
            a.minValue -= 0.25
            a.maxValue += 0.1249847412109375
            stats["plain-fields"] += 2
    if "VORG" in font:
        bump(font["VORG"], "defaultVertOriginY", [-32768, 32767, 880])
    if "gasp" in font and getattr(font["gasp"], "gaspRange", None):
        font["gasp"].gaspRange[65535] = rnd.choice([0, 1, 15])
        stats["plain-fields"] += 1


def _perturb(src, rnd, ctx):
    """Replace numeric fields all over the object model by type-preserving variants (integral-valued
    floats in CFF DICT arrays and blend lists, 0xFFFF-outer delta-set index map entries with every
    inner index, boundary integers, fixed-point numbers with long decimal expansions), compile, and
    require that the result loads and compiles again - otherwise retry with the gentler set."""
    from collections import Counter

    for level in ("all", "no-ot-numeric", "maps-and-cff"):
        stats = Counter()
        f = _load_model(src)
        try:
            _perturb_cff(f, rnd, stats)
            _perturb_ot(f, rnd, stats, numeric=(level == "all"))
            if level != "maps-and-cff":
                _perturb_plain(f, rnd, stats)
            out = corpus.save_bytes(f)
            _save_tables(_load_model(out))
        except Exception as e:
            ctx.note("perturbation-level-rejected:%s:%s" % (level, type(e).__name__))
            continue
        if not stats:
            return None, None
        for k, v in stats.items():
            ctx.note("perturbed:" + k, v)
        return out, "perturbed (%s): %s" % (level, ", ".join("%s=%d" % kv for kv in sorted(stats.items())))
    return None, None


def _hostile_source(src, kind, rnd, ctx):
    """bytes of a font derived from `src` that carries hostile strings."""
    from fontTools.ttLib import TTFont

    if kind == "glyphnames":
        return _hostile_glyphnames(src, rnd)
    if kind == "glyphclash":
        return _hostile_glyphnames(src, rnd, clash=True)
    if kind == "perturb":
        return _perturb(src, rnd, ctx)
    if kind == "ttprogram":
        return _hostile_ttprogram(src, rnd)
    f = TTFont(io.BytesIO(src), lazy=True, recalcBBoxes=False, recalcTimestamp=False)
    desc = _inject(f, kind, rnd, ctx)
    if desc is None:
        return None, None
    return corpus.save_bytes(f), desc


def _ebdt_source(src, rnd, ngl, variant):
    from fontTools.ttLib import TTFont
    from fontTools.ttLib.tables.DefaultTable import DefaultTable
    from vmon.gen import c03_ebdt

    depth = [1, 1, 2, 4, 8, 1][variant % 6]
    eblc, ebdt, desc = c03_ebdt.build(rnd, min(ngl, 60), strikes=((7, depth), (10 + variant % 3, 1)))
    f = TTFont(io.BytesIO(src), lazy=True, recalcBBoxes=False, recalcTimestamp=False)
    for tag, d in (("EBLC", eblc), ("EBDT", ebdt)):
        t = DefaultTable(tag)
        t.data = d
        f[tag] = t
    return corpus.save_bytes(f), desc


# ------------------------------------------------------------------ driver
class _Abort(Exception):
    pass


def _fail(ctx, op, e, label, **extra):
    import traceback

    if isinstance(e, KeyError) and e.args and str(e.args[0]).strip("'").startswith("maxp") and _cur.get("no_maxp"):
        # table-fragment TTX files compiled on their own: no glyph order derivable from the binary
        ctx.skip("no maxp table: glyph order underivable from the binary")
        raise _Abort()

    ctx.violation(exc_mech(op, e, **extra), "%s: %s raised %s: %s" % (label, op, type(e).__name__, str(e)[:200]),
                  {"traceback": traceback.format_exception(type(e), e, e.__traceback__)[-10:]})
    raise _Abort()


def _load_model(src):
    from fontTools.ttLib import TTFont

    f = TTFont(io.BytesIO(src), lazy=False, recalcBBoxes=False, recalcTimestamp=False)
    for t in f.keys():
        f[t]
    f.flavor = None
    return f


def _save_tables(font):
    data = corpus.save_bytes(font)
    return sd.tables(data), data


def _mask(tag, b):
    return b[:8] + b"\0\0\0\0" + b[12:] if tag == "head" and len(b) >= 12 else b


def run_case(case, ctx):
    rnd = random.Random("%s/%s" % (case["id"], case["seed"]))
    scratch = os.path.join(os.environ.get("VMON_SCRATCH") or "/tmp", "c03-%d" % os.getpid())
    shutil.rmtree(scratch, ignore_errors=True)
    os.makedirs(scratch)
    try:
        _run(case, ctx, rnd, scratch)
    finally:
        shutil.rmtree(scratch, ignore_errors=True)


def _run(case, ctx, rnd, scratch):
    with hooks.quiet():
        src = corpus.font_bytes(case["path"], case["member"])
    label0 = case["id"]
    desc = None
    if case["kind"] == "hostile":
        try:
            with hooks.quiet():
                src, desc = _hostile_source(src, case["hostile"], rnd, ctx)
        except Exception as e:
            ctx.skip("hostile injection not applicable (%s: %s)" % (case["hostile"], type(e).__name__))
            return
        if src is None:
            ctx.skip("hostile injection not applicable (%s)" % case["hostile"])
            return
    elif case["kind"] == "ebdt":
        rec = [r for r in corpus.fonts() if r["path"] == case["path"]][0]
        with hooks.quiet():
            src, desc = _ebdt_source(src, rnd, rec["numGlyphs"], case["variant"])
    # ---- reference: the original object model, saved -------------------------------
    refs = {}

    def reference(model):
        if model not in refs:
            try:
                with hooks.quiet():
                    if model == "xml":
                        from fontTools.ttLib import TTFont

                        a = TTFont(recalcBBoxes=False, recalcTimestamp=False)
                        a.importXML(corpus.abspath(case["path"]))
                    else:
                        a = _load_model(src)
                    refs[model] = _save_tables(a)[0]
            except Exception as e:
                refs[model] = e
        if isinstance(refs[model], Exception):
            _fail(ctx, "save-original", refs[model], label0)
        return refs[model]

    samples = []
    _cur["no_maxp"] = "maxp" not in sd.tables(src) if sd.kind(src) == "sfnt" else False
    for n, o in enumerate(case["opts"]):
        if _cur["no_maxp"] and case["path"].endswith(".ttx") and case["kind"] == "corpus":
            o = dict(o, model="xml")     # fragments: the object model can only come from the TTX itself
        label = "%s [%s]" % (label0, _opt_id(o))
        d = os.path.join(scratch, "o%d" % n)
        os.makedirs(d)
        cwd = os.getcwd()
        try:
            ref = reference(o["model"])
            info = _one(ctx, case, src, ref, o, d, label, rnd)
            if info:
                samples.append(info)
        except _Abort:
            ctx.note("option-set-abandoned")
        finally:
            os.chdir(cwd)
            shutil.rmtree(d, ignore_errors=True)
    if samples:
        ctx.sample = {"case": case["id"], "derived": desc, "option_sets": samples[:3]}


def _dump_model(case, src, o):
    from fontTools.ttLib import TTFont

    if o["model"] == "xml":
        a = TTFont(recalcBBoxes=False, recalcTimestamp=False)
        with hooks.quiet():
            a.importXML(corpus.abspath(case["path"]))
        return a
    with hooks.quiet():
        return _load_model(src)


def _one(ctx, case, src, ref, o, d, label, rnd):
    from fontTools.ttLib import TTFont

    _cur.update(dumped=[], parsed=[], src=0)
    esc0 = _cur["esc_hard"]
    style = o.get("path", "abs")
    if style == "abs":
        ttx = os.path.join(d, "font.ttx")
    else:
        # relative names: the working directory is moved for the duration of this option set
        os.chdir(os.path.dirname(d) if style == "rel" else d)
        ttx = os.path.join(os.path.basename(d), "font.ttx") if style == "rel" else "font.ttx"
    out_font = os.path.join(d, "out.bin")
    sel = o["sel"]
    kw = dict(splitTables=o["split"] in ("tables", "glyphs"), splitGlyphs=o["split"] == "glyphs",
              disassembleInstructions=o["disasm"], bitmapGlyphDataFormat=o["bitmap"])
    if sel:
        kw["tables" if sel[0] == "tables" else "skipTables"] = list(sel[1])
    merge = bool(sel)
    if _cur.get("no_maxp"):
        if o["via"] == "cli":
            ctx.skip("no maxp table: CLI variant not run on table fragments")
            return None
    if o["via"] == "cli":
        # the ttx command line, in-process
        from fontTools import ttx as TTX

        srcpath = os.path.join(d, "in.otf")
        with open(srcpath, "wb") as fh:
            fh.write(_plain(src))
        args = ["-q", "-o", ttx, "--newline", o["nl"], "-z", o["bitmap"]]
        if o["split"] == "tables":
            args.append("-s")
        if o["split"] == "glyphs":
            args.append("-g")
        if not o["disasm"]:
            args.append("-i")
        try:
            TTX.main(args + ["-e", srcpath])
        except SystemExit as e:
            if e.code not in (0, None):
                ctx.violation({"kind": "cli-exit", "op": "dump"}, "%s: ttx dump exited with %r" % (label, e.code), None)
                raise _Abort()
        except Exception as e:
            _fail(ctx, "dump", e, label, via="cli")
        _check_glyph_files(ctx, o, d, label)
        try:
            TTX.main(["-q", "-b", "--no-recalc-timestamp", "-o", out_font, ttx])
        except SystemExit as e:
            if e.code not in (0, None):
                ctx.violation({"kind": "cli-exit", "op": "compile"}, "%s: ttx compile exited with %r" % (label, e.code), None)
                raise _Abort()
        except Exception as e:
            _fail(ctx, "import", e, label, via="cli")
        finally:
            import logging

            logging.disable(logging.CRITICAL)
        with open(out_font, "rb") as fh:
            got = sd.tables(fh.read())
    else:
        a = _dump_model(case, src, o)
        try:
            a.saveXML(ttx, newlinestr=NEWLINES[o["nl"]], **kw)
        except Exception as e:
            _fail(ctx, "dump", e, label, **({"bitmapGlyphDataFormat": o["bitmap"]} if o["bitmap"] != "raw" else {}))
        _check_glyph_files(ctx, o, d, label)
        if merge:
            with hooks.quiet():
                b = _load_model(src) if o["model"] == "binary" else _dump_model(case, src, o)
        else:
            b = TTFont(recalcBBoxes=False, recalcTimestamp=False)
        try:
            b.importXML(ttx)
        except expat.ExpatError as e:
            _fail(ctx, "import", e, label, **_illformed_cause(d, e))
        except Exception as e:
            _fail(ctx, "import", e, label)
        try:
            with hooks.quiet():
                got, _raw = _save_tables(b)
        except Exception as e:
            _fail(ctx, "save-imported", e, label)
    dumped, parsed = list(_cur["dumped"]), list(_cur["parsed"])
    ctx.note("tables-dumped", len(dumped))
    ctx.note("table-elements-parsed", len(parsed))
    ctx.note("src-includes-followed", _cur["src"])
    ctx.note("escape-calls-judged-by-expat", _cur["esc_hard"] - esc0)
    # ---- compare the two saved files ----------------------------------------------
    bad = False
    ctx.judged()
    if sorted(ref) != sorted(got):
        bad = True
        ctx.violation({"kind": "tag-set", "missing": sorted(set(ref) - set(got)), "extra": sorted(set(got) - set(ref))},
                      "%s: imported font has a different set of tables" % label, None)
    nws = 0
    for tag in sorted(ref):
        if tag not in got:
            continue
        ctx.judged()
        x, y = _mask(tag, ref[tag]), _mask(tag, got[tag])
        if x == y:
            continue
        if tag == "name":
            ok, why = cs.name_equivalent(x, y)
        elif tag == "CFF ":
            ok, why = cs.cff_equivalent(x, y)
        else:
            ok, why = False, None
        if ok:
            nws += 1
            ctx.note("whitespace-normalised-equal:" + tag.strip())
            continue
        bad = True
        field = _first_field(ref[tag], got[tag], tag, ref, got)
        mech = {"kind": "table-bytes", "table": tag, "field": field}
        if tag == "head" and len(x) == len(y) == 54:
            mech.update(_head_field(x, y))
        if tag in ("EBDT", "EBLC", "CBDT", "CBLC"):
            mech["bitmapGlyphDataFormat"] = o["bitmap"]
            if case["kind"] == "ebdt":
                mech["bitDepth_gt_1"] = [1, 1, 2, 4, 8, 1][case["variant"] % 6] > 1
        if tag == "name" and why and "unicode-space" in why:
            mech["cause"] = "leading/trailing Unicode (non-XML) white space stripped"
        if o["nl"] != "LF" and not ({"cause", "bitmapGlyphDataFormat"} & set(mech)):
            mech["newline"] = o["nl"]
        ctx.violation(mech,
                      "%s: table %r compiles to different bytes after dump+import%s"
                      % (label, tag, " (not a white-space-only string difference: %s)" % why if why else ""),
                      {"ref_len": len(x), "got_len": len(y), "first_diff": _first_diff(x, y), "options": o,
                       "ref_at": x[max(0, (_first_diff(x, y) or 0) - 8):(_first_diff(x, y) or 0) + 24].hex(),
                       "got_at": y[max(0, (_first_diff(x, y) or 0) - 8):(_first_diff(x, y) or 0) + 24].hex()})
    if o["via"] == "api" and not merge:
        # everything the dump wrote must have been parsed
        want = sorted(set(dumped))
        have = sorted(set(_xml_to_tags(parsed)))
        ctx.judged()
        if want != have and o["split"] == "whole":
            bad = True
            ctx.violation({"kind": "tables-parsed", "missing": sorted(set(want) - set(have))},
                          "%s: tables dumped and tables parsed differ" % label, {"dumped": want, "parsed": have})
    if o["split"] != "whole" and o["via"] == "api" and dumped and _cur["src"] == 0:
        bad = True
        ctx.violation({"kind": "src-link", "split": o["split"]}, "%s: split dump imported without following any src= include" % label, None)
    if dumped and parsed:
        ctx.nontrivial("%s|%s" % (case["id"], _opt_id(o)))
    if bad:
        raise _Abort()
    ctx.note("optset:%s/%s/%s/%s/%s/%s%s" % (o["split"], "asm" if o["disasm"] else "hex", o["nl"], o["bitmap"], o["via"],
                                             o["model"], ("/sel" if sel else "") + ("/path=" + style if style != "abs" else "")))
    return {"options": _opt_id(o), "tables_dumped": len(dumped), "tables_compared": len(ref),
            "src_includes": _cur["src"], "whitespace_normalised_tables": nws}


def _check_glyph_files(ctx, o, d, label):
    if o["split"] != "glyphs":
        return
    shared = _shared_glyph_files(d)
    if shared is not None:
        ctx.judged()
    if shared:
        ctx.violation({"kind": "split-glyph-file-shared", "path_style": o.get("path", "abs")},
                      "%s: per-glyph split dump references one file for several glyphs (a later glyph overwrote an earlier one)"
                      % label, {"files": shared[:4]})


def _shared_glyph_files(d):
    """Per-glyph split dump: every <TTGlyph src=.../> must name a file of its own and the file must
    exist (read straight from the glyf index file; independent of the importer)."""
    p = os.path.join(d, "font._g_l_y_f.ttx")
    if not os.path.exists(p):
        return None
    with open(p, "rb") as fh:
        srcs = re.findall(r'<TTGlyph src="([^"]*)"/>', fh.read().decode("utf-8", "replace"))
    _cur["glyph_files"] = len(srcs)
    seen, dup = set(), []
    for x in srcs:
        if x.lower() in seen or not os.path.exists(os.path.join(d, x.replace("&amp;", "&").replace("&lt;", "<")
                                                                 .replace("&gt;", ">").replace("&quot;", '"'))):
            dup.append(x)
        seen.add(x.lower())
    return dup


def _illformed_cause(d, e):
    """Classify an ill-formed dump by looking at the offending line (diagnostic keys for the
    mechanism; the verdict is the parser's)."""
    out = {"cause": "ill-formed XML"}
    try:
        for fn in sorted(os.listdir(d)):
            if not fn.endswith(".ttx"):
                continue
            with open(os.path.join(d, fn), "rb") as fh:
                lines = fh.read().decode("utf-8", "replace").replace("\r\n", "\n").replace("\r", "\n").split("\n")
            if e.lineno - 1 < len(lines):
                line = lines[e.lineno - 1]
                m = re.search(r"<!--(.*?)(-->|$)", line)
                if m and "--" in m.group(1):
                    out["cause"] = "double hyphen inside an XML comment"
                    for back in range(e.lineno - 1, -1, -1):
                        t = re.match(r"  <([A-Za-z_][\w.\-]*)[ >]", lines[back])
                        if t:
                            out["table"] = t.group(1)
                            break
                    return out
    except Exception:
        pass
    return out


def _plain(src):
    """sfnt bytes for the CLI input file (a WOFF source would make the CLI emit WOFF)."""
    if sd.kind(src) in ("sfnt",):
        return src
    with hooks.quiet():
        f = _load_model(src)
        return corpus.save_bytes(f)


def _xml_to_tags(names):
    from fontTools.ttLib import xmlToTag

    return [xmlToTag(n) for n in names]


def _first_diff(a, b):
    n = min(len(a), len(b))
    for i in range(n):
        if a[i] != b[i]:
            return i
    return n if len(a) != len(b) else None


_HEAD = [(0, "tableVersion"), (4, "fontRevision"), (8, "checkSumAdjustment"), (12, "magicNumber"), (16, "flags"),
         (18, "unitsPerEm"), (20, "created"), (28, "modified"), (36, "xMin"), (38, "yMin"), (40, "xMax"), (42, "yMax"),
         (44, "macStyle"), (46, "lowestRecPPEM"), (48, "fontDirectionHint"), (50, "indexToLocFormat"), (52, "glyphDataFormat")]
_EPOCH_1970 = 2082844800     # seconds from 1904-01-01 to 1970-01-01 (24107 days)


def _head_field(x, y):
    """struct-level: which head field differs; for timestamps, whether a pre-1970 value came
    back as exactly 1970-01-01 (the dump clamps there)."""
    i = _first_diff(x, y)
    name = [n for o, n in _HEAD if o <= i][-1]
    out = {"field": name}
    if name in ("created", "modified"):
        off = 20 if name == "created" else 28
        a = int.from_bytes(x[off:off + 8], "big")
        b = int.from_bytes(y[off:off + 8], "big")
        if a < _EPOCH_1970 and b == _EPOCH_1970:
            out["cause"] = "timestamp before 1970-01-01 comes back as 1970-01-01"
            out["field"] = "created/modified"
    return out


def _first_field(x, y, tag, ref, got):
    """Name of the first XML element that differs between the dumps of the two byte strings
    (diagnostic only: makes the mechanism readable; never decides)."""
    try:
        from vmon.checks.c01 import dump_tables

        with hooks.quiet():
            a = dump_tables("\0\1\0\0" if "glyf" in ref else "OTTO", dict(ref), True).get(tag)
            b = dump_tables("\0\1\0\0" if "glyf" in got else "OTTO", dict(got), True).get(tag)
        if isinstance(a, str) and isinstance(b, str):
            la = [l for l in a.split("\n") if "<checkSumAdjustment " not in l]
            lb = [l for l in b.split("\n") if "<checkSumAdjustment " not in l]
            for p, q in zip(la, lb):
                if p != q:
                    m = re.search(r"<([A-Za-z_][\w.\-]*)", p) or re.search(r"<([A-Za-z_][\w.\-]*)", q)
                    return m.group(1) if m else "text"
            return "length" if len(la) != len(lb) else "binary-only"
    except Exception:
        pass
    return "?"
