"""C15 — every low-level encoder and its decoder are mutually inverse.

Post-conditions are attached to the library's real encoder functions; each evaluation
decodes the produced bytes/text with (a) the library's own decoder and (b) a decoder
written from the spec (oracle/codecs.py) and compares with the encoded value.  The
driver enumerates the domains (exhaustively where marked).
"""
import itertools
import random
import struct
from fractions import Fraction

from vmon import hooks
from vmon.oracle import codecs

PROPERTY = "C15"
LEVEL = "exploration"
RULE = ("each case is a slice of one codec's domain; every value in it is pushed through the "
        "real encoder whose post-condition monitor decodes the result with the library decoder "
        "and with a spec-written decoder; a value is non-trivial/distinct by (codec, encoding "
        "class) where the class is the produced length/lead byte/format branch")
ASSUMPTIONS = [
    "domains are the documented ones: T2 integer encoder int16 only (wider values are re-encoded as 16.16 by documented back-compat hack), CFF integers int32, reals to 8 significant digits",
    "spec-written decoders in vmon/oracle/codecs.py are the trusted base",
    "tags are any 4 printable-ASCII characters (0x20-0x7E), spaces in any position included",
]
CASE_TIMEOUT = 300
MANIFEST = {
    "text": "Exploration, exhaustive on the small domains: every value pushed through the real encoder is decoded by the library's decoder and by a decoder written from the spec inside a post-condition monitor. Exhaustive: all 65536 F2Dot14 values, CFF/T1/T2 integers -70000..70000, all 255UShort, base-128 0..2^21 (thorough), all subsets of 12 point numbers, all delta sequences up to length 3/4 over the boundary alphabet; sampled elsewhere. Histories and process settings are part of the workload where a codec could depend on them: the same reals formatted at several precisions interleaved in one process, timestamps converted under several POSIX time zones, Type 1 fonts declaring every /lenIV (written from the spec) read and re-written in every container form and decoded by a spec-level reader. Tests cannot settle this because they sample a handful of values per codec.",
    "note": "Trusted base: vmon/oracle/codecs.py (spec-written decoders), Python's Fraction/struct. Domains are the documented ones (T2 integer encoder int16 only; reals to 8 significant digits; tags = printable ASCII with trailing spaces only).",
    "technique": "post-condition monitors on the real encoders; identity round trip plus spec-written decoder; exhaustive enumeration of small domains",
    "design_ref": "DESIGN.md §4 C15",
}
EXHAUSTIVE = {"quick": False, "thorough": False}

_M = {}  # monitor names


def _cls(ctx_key):
    _cur["keys"].add(ctx_key)


_cur = {"keys": set(), "n": 0}


def _bad(codec, value, what, **w):
    hooks.report({"kind": "codec", "codec": codec, "what": what},
                 "%s: %s (value %r)" % (codec, what, value if len(repr(value)) < 200 else repr(value)[:200]),
                 dict(w, value=repr(value)[:500]))


# ---------------------------------------------------------------- monitors
def setup():
    from fontTools.misc import fixedTools as FT, roundTools as RT, psCharStrings as PS
    from fontTools.misc import eexec, sstruct, timeTools, iftSparseBitSet as SBS, intTools
    from fontTools.ttLib import woff2, ttFont as TF
    from fontTools.ttLib.tables import otTables, TupleVariation as TVmod
    from fontTools import agl
    import fontTools.t1Lib as t1Lib
    import fontTools.cffLib  # so that its aliases get rebound

    TV = TVmod.TupleVariation

    # --- fixed point -------------------------------------------------
    def post_fixedToFloat(st, a, kw, res, exc):
        value, bits = (list(a) + [kw.get("precisionBits")])[:2] if len(a) < 2 else a[:2]
        if exc is not None or not isinstance(value, int):
            return
        _cur["n"] += 1
        if Fraction(res) != Fraction(value, 1 << bits):
            _bad("fixedToFloat", (value, bits), "not value/2^bits exactly", got=res)
        if FT.floatToFixed(res, bits) != value:
            _bad("fixedToFloat", (value, bits), "floatToFixed(fixedToFloat(v)) != v")

    def post_fixedToStr(st, a, kw, res, exc):
        value, bits = a[0], (a[1] if len(a) > 1 else kw["precisionBits"])
        if exc is not None:
            if isinstance(value, int):
                _bad("fixedToStr", (value, bits), "raised %s" % type(exc).__name__)
            return
        if not isinstance(value, int):
            return
        _cur["n"] += 1
        if FT.strToFixed(res, bits) != value:
            _bad("fixedToStr", (value, bits), "strToFixed(fixedToStr(v)) != v", text=res)
        # independent: the decimal rounds (half up) to the fixed value
        fr = Fraction(res) * (1 << bits)
        if (fr + Fraction(1, 2)).__floor__() != value:
            _bad("fixedToStr", (value, bits), "decimal text does not round to the value", text=res)
        # shortest: no decimal with fewer fractional digits maps back to value
        if "." in res:
            digits = len(res.split(".")[1])
            if digits > 1:
                q = Fraction(10) ** (digits - 1)
                exact = Fraction(value, 1 << bits)
                near = (exact * q + Fraction(1, 2)).__floor__()
                for cand in (near - 1, near, near + 1):
                    c = Fraction(cand) / q
                    if (c * (1 << bits) + Fraction(1, 2)).__floor__() == value:
                        _bad("fixedToStr", (value, bits), "not the shortest decimal", text=res, shorter=str(float(c)))
                        break
        _cls("fixedToStr/%d/%d" % (bits, len(res)))

    def post_strToFixed(st, a, kw, res, exc):
        s, bits = a[0], (a[1] if len(a) > 1 else kw["precisionBits"])
        if exc is not None:
            return
        _cur["n"] += 1
        try:
            want = (Fraction(s.strip()) * (1 << bits) + Fraction(1, 2)).__floor__()
        except (ValueError, ZeroDivisionError):
            return
        # float(string) may be off by an ulp from the exact rational: only flag when the
        # exact value is not within 1e-9 of a rounding boundary
        frac = Fraction(s.strip()) * (1 << bits)
        if res != want and abs((frac - frac.__floor__()) - Fraction(1, 2)) > Fraction(1, 10 ** 9):
            _bad("strToFixed", (s, bits), "differs from exact round-half-up", got=res, want=want)

    def post_floatToFixedToStr(st, a, kw, res, exc):
        v, bits = a[0], (a[1] if len(a) > 1 else kw["precisionBits"])
        if not isinstance(v, (int, float)) or v != v or abs(v) == float("inf"):
            return
        if exc is not None:
            hooks.report({"kind": "codec", "codec": "floatToFixedToStr", "what": "raised", "type": type(exc).__name__,
                          "rounds_to_zero": abs(v) * (1 << bits) < 0.5},
                         "floatToFixedToStr(%r, %d) raised %s" % (v, bits, type(exc).__name__), {"value": v, "bits": bits})
            return
        _cur["n"] += 1
        if res != FT.fixedToStr(FT.floatToFixed(v, bits), bits):
            _bad("floatToFixedToStr", (v, bits), "!= fixedToStr(floatToFixed(v))", got=res)

    def post_otRound(st, a, kw, res, exc):
        v = a[0]
        if exc is not None or not isinstance(v, (int, float)) or v != v or v in (float("inf"), float("-inf")):
            return
        _cur["n"] += 1
        want = (Fraction(v) + Fraction(1, 2)).__floor__()
        if res != want or not isinstance(res, int):
            _bad("otRound", v, "not floor(v + 1/2)", got=res, want=want)

    def post_nearest(st, a, kw, res, exc):
        value, factor = a[0], a[1]
        if not isinstance(value, (int, float)) or value != value or abs(value) == float("inf") or not factor or factor < 0:
            return
        if exc is not None:
            hooks.report({"kind": "codec", "codec": "nearestMultipleShortestRepr", "what": "raised", "type": type(exc).__name__,
                          "rounds_to_zero": abs(value) < factor / 2},
                         "nearestMultipleShortestRepr(%r, %r) raised %s" % (value, factor, type(exc).__name__), {"value": value, "factor": factor})
            return
        _cur["n"] += 1
        want = (Fraction(value) / Fraction(factor) + Fraction(1, 2)).__floor__()
        got = (Fraction(float(res)) / Fraction(factor) + Fraction(1, 2)).__floor__()
        if got != want:
            _bad("nearestMultipleShortestRepr", (value, factor), "text rounds to another multiple", text=res)

    hooks.attach(FT, "fixedToFloat", post=post_fixedToFloat, name="fixedToFloat")
    hooks.attach(FT, "fixedToStr", post=post_fixedToStr, name="fixedToStr")
    hooks.attach(FT, "strToFixed", post=post_strToFixed, name="strToFixed")
    hooks.attach(FT, "floatToFixedToStr", post=post_floatToFixedToStr, name="floatToFixedToStr")
    hooks.attach(RT, "otRound", post=post_otRound, name="otRound")
    hooks.attach(RT, "nearestMultipleShortestRepr", post=post_nearest, name="nearestMultipleShortestRepr")

    # --- CFF / T2 operands -----------------------------------------
    def lib_decode_t2(data):
        cs = PS.T2CharString(bytecode=bytes(data) + b"\x0e")
        cs.decompile()
        return cs.program[:-1]

    def lib_decode_cffdict(data):
        d = PS.DictDecompiler.__new__(PS.DictDecompiler)
        d.stack, d.dict, d.strings, d.parent = [], {}, None, None
        b0 = data[0]
        v, idx = PS.cffDictOperandEncoding[b0](d, b0, data, 1)
        return v, idx

    def mk_int_post(dialect):
        lo, hi = {"cff": (-2 ** 31, 2 ** 31 - 1), "t2": (-32768, 32767), "t1": (-2 ** 31, 2 ** 31 - 1)}[dialect]

        def post(st, a, kw, res, exc):
            v = a[0]
            if not isinstance(v, int) or isinstance(v, bool):
                return
            indom = lo <= v <= hi
            if exc is not None:
                if indom:
                    _bad("int/" + dialect, v, "encoder raised %s inside its domain" % type(exc).__name__)
                return
            _cur["n"] += 1
            if not indom:
                if dialect == "t2" and -2 ** 31 <= v < 2 ** 31:
                    return  # documented back-compat path (emits 16.16), not an integer encoding
                return
            try:
                if dialect == "t1":
                    # Type 1 charstring numbers: 32..246, 247..254 two-byte, 255 + int32
                    got, used = codecs.cff_operand(res, 0, "t1")
                else:
                    got, used = codecs.cff_operand(res, 0, dialect)
            except (codecs.Bad, IndexError, struct.error) as e:
                _bad("int/" + dialect, v, "spec decoder rejects the bytes: %r" % e, data=bytes(res).hex())
                return
            if got != v or used != len(res):
                _bad("int/" + dialect, v, "spec decoder reads %r using %d of %d bytes" % (got, used, len(res)), data=bytes(res).hex())
            if dialect == "t2":
                lv = lib_decode_t2(res)
                if lv != [v]:
                    _bad("int/t2", v, "library decoder reads %r" % (lv,), data=bytes(res).hex())
            elif dialect == "cff":
                lv, idx = lib_decode_cffdict(bytes(res))
                if lv != v or idx != len(res):
                    _bad("int/cff", v, "library decoder reads %r (index %d of %d)" % (lv, idx, len(res)), data=bytes(res).hex())
            _cls("int/%s/len%d/%s" % (dialect, len(res), "neg" if v < 0 else "pos"))
        return post

    hooks.attach(PS, "encodeIntCFF", post=mk_int_post("cff"), name="encodeIntCFF")
    hooks.attach(PS, "encodeIntT2", post=mk_int_post("t2"), name="encodeIntT2")
    hooks.attach(PS, "encodeIntT1", post=mk_int_post("t1"), name="encodeIntT1")

    def post_encodeFixed(st, a, kw, res, exc):
        f = a[0]
        if not isinstance(f, (int, float)) or f != f:
            return
        want = (Fraction(f) * 65536 + Fraction(1, 2)).__floor__()
        indom = -2 ** 31 <= want < 2 ** 31
        if exc is not None:
            if indom:
                _bad("encodeFixed", f, "raised %s inside the 16.16 range" % type(exc).__name__)
            return
        if not indom:
            return
        _cur["n"] += 1
        try:
            got, used = codecs.cff_operand(res, 0, "t2")
        except Exception as e:
            _bad("encodeFixed", f, "spec decoder rejects: %r" % e, data=bytes(res).hex())
            return
        if Fraction(got) != Fraction(want, 65536) or used != len(res):
            _bad("encodeFixed", f, "decodes to %r, want %r" % (got, Fraction(want, 65536)), data=bytes(res).hex())
        lv = lib_decode_t2(res)
        if len(lv) != 1 or Fraction(lv[0]) != Fraction(want, 65536):
            _bad("encodeFixed", f, "library decoder reads %r" % (lv,), data=bytes(res).hex())
        _cls("fixed1616/len%d" % len(res))

    hooks.attach(PS, "encodeFixed", post=post_encodeFixed, name="encodeFixed")

    def post_encodeFloat(st, a, kw, res, exc):
        f = a[0]
        if not isinstance(f, (int, float)) or f != f or f in (float("inf"), float("-inf")):
            return
        if exc is not None:
            _bad("encodeFloat", f, "raised %s" % type(exc).__name__)
            return
        _cur["n"] += 1
        try:
            s, used = codecs.cff_real(res, 0)
            val = codecs.real_value(s)
        except Exception as e:
            _bad("encodeFloat", f, "spec decoder rejects: %r" % e, data=bytes(res).hex())
            return
        if used != len(res):
            _bad("encodeFloat", f, "trailing bytes after the end nibble", data=bytes(res).hex())
        # value to 8 significant digits
        want = Fraction("%.8G" % f) if f else Fraction(0)
        if val != want:
            _bad("encodeFloat", f, "encodes %s (= %s), want %s" % (s, float(val), float(want)), data=bytes(res).hex())
        lv, idx = lib_decode_cffdict(bytes(res))
        if Fraction("%.8G" % lv) != want or idx != len(res):
            _bad("encodeFloat", f, "library decoder reads %r" % (lv,), data=bytes(res).hex())
        _cls("real/nib%d/%s%s" % (len(res), "E" if "E" in s else "", "." if "." in s else ""))

    hooks.attach(PS, "encodeFloat", post=post_encodeFloat, name="encodeFloat")

    # --- WOFF2 variable-length ints -----------------------------------
    def post_packBase128(st, a, kw, res, exc):
        n = a[0]
        if not isinstance(n, int):
            return
        indom = 0 <= n < 2 ** 32
        if exc is not None:
            if indom:
                _bad("packBase128", n, "raised %s inside 0..2^32-1" % type(exc).__name__)
            return
        if not indom:
            return
        _cur["n"] += 1
        try:
            got, used = codecs.base128(bytes(res) + b"\xaa")
        except Exception as e:
            _bad("packBase128", n, "spec decoder rejects: %r" % e, data=bytes(res).hex())
            return
        if got != n or used != len(res):
            _bad("packBase128", n, "spec decoder reads %r (%d of %d bytes)" % (got, used, len(res)), data=bytes(res).hex())
        lv, rest = woff2.unpackBase128(bytes(res) + b"xx")
        if lv != n or rest != b"xx":
            _bad("packBase128", n, "unpackBase128 reads %r rest %r" % (lv, rest))
        if woff2.base128Size(n) != len(res):
            _bad("packBase128", n, "base128Size %d != %d" % (woff2.base128Size(n), len(res)))
        _cls("base128/len%d" % len(res))

    def post_pack255(st, a, kw, res, exc):
        n = a[0]
        if not isinstance(n, int):
            return
        indom = 0 <= n <= 65535
        if exc is not None:
            if indom:
                _bad("pack255UShort", n, "raised %s inside 0..65535" % type(exc).__name__)
            return
        if not indom:
            return
        _cur["n"] += 1
        got, used = codecs.u255(bytes(res) + b"\x00\x00")
        if got != n or used != len(res):
            _bad("pack255UShort", n, "spec decoder reads %r (%d of %d bytes)" % (got, used, len(res)), data=bytes(res).hex())
        lv, rest = woff2.unpack255UShort(bytes(res) + b"zz")
        if lv != n or rest != b"zz":
            _bad("pack255UShort", n, "unpack255UShort reads %r" % lv)
        _cls("255ushort/len%d/lead%d" % (len(res), res[0] if res[0] >= 253 else 0))

    hooks.attach(woff2, "packBase128", post=post_packBase128, name="packBase128")
    hooks.attach(woff2, "pack255UShort", post=post_pack255, name="pack255UShort")

    def post_uint32var(st, a, kw, res, exc):
        v = a[0]
        if not isinstance(v, int):
            return
        indom = 0 <= v < 2 ** 32
        if exc is not None:
            if indom:
                _bad("uint32var", v, "raised %s" % type(exc).__name__)
            return
        if not indom:
            return
        _cur["n"] += 1
        got, used = codecs.uint32var(bytes(res) + b"\0\0\0\0")
        if got != v or used != len(res):
            _bad("uint32var", v, "spec decoder reads %r (%d of %d)" % (got, used, len(res)), data=bytes(res).hex())
        lv, i = otTables._read_uint32var(bytes(res) + b"q", 0)
        if lv != v or i != len(res):
            _bad("uint32var", v, "_read_uint32var reads %r index %d" % (lv, i))
        _cls("uint32var/len%d" % len(res))

    hooks.attach(otTables, "_write_uint32var", post=post_uint32var, name="_write_uint32var")

    # --- gvar packed points / deltas -----------------------------------
    def post_compilePoints(st, a, kw, res, exc):
        pts = a[0]
        try:
            want = sorted(pts)
        except TypeError:
            return
        if any((not isinstance(p, int)) or p < 0 or p > 65535 for p in want) or len(want) > 0x7FFF:
            return
        if exc is not None:
            _bad("compilePoints", want[:20], "raised %s" % type(exc).__name__)
            return
        _cur["n"] += 1
        try:
            got, used = codecs.packed_points(bytes(res))
        except Exception as e:
            _bad("compilePoints", want[:20], "spec decoder rejects: %r" % e, data=bytes(res)[:64].hex())
            return
        if used != len(res):
            _bad("compilePoints", want[:20], "spec decoder used %d of %d bytes" % (used, len(res)))
        if (got is None) != (len(want) == 0) or (got is not None and got != want):
            _bad("compilePoints", want[:20], "spec decoder reads %r" % (got[:20] if got else got,), data=bytes(res)[:64].hex())
        n = (want[-1] + 1) if want else 5
        lv, pos = TV.decompilePoints_(n, bytes(res) + b"\x00", 0, "gvar")
        if pos != len(res) or (list(lv) != want if want else list(lv) != list(range(n))):
            _bad("compilePoints", want[:20], "decompilePoints_ reads %r pos %d" % (list(lv)[:20], pos))
        _cls("points/n%s/%s" % ("0" if not want else "<128" if len(want) < 128 else ">=128", "w" if want and want[-1] > 255 else "b"))

    hooks.attach(TV, "compilePoints", post=post_compilePoints, name="compilePoints")

    def post_compileDeltaValues(st, a, kw, res, exc):
        deltas = list(a[0])
        if a[1:] and a[1] is not None or kw.get("bytearr") is not None:
            return  # appended to a caller's buffer: checked via the fresh-buffer calls
        if any((not isinstance(d, int)) or not -2 ** 31 <= d < 2 ** 31 for d in deltas):
            return
        if exc is not None:
            _bad("compileDeltaValues_", deltas[:20], "raised %s" % type(exc).__name__)
            return
        _cur["n"] += 1
        try:
            got, used = codecs.packed_deltas(bytes(res), len(deltas))
        except Exception as e:
            _bad("compileDeltaValues_", deltas[:20], "spec decoder rejects: %r" % e, data=bytes(res)[:64].hex())
            return
        if got != deltas or used != len(res):
            _bad("compileDeltaValues_", deltas[:20], "spec decoder reads %r (%d of %d bytes)" % (got[:20], used, len(res)), data=bytes(res)[:64].hex())
        lv, pos = TV.decompileDeltas_(len(deltas), bytes(res) + b"\x00", 0)
        if list(lv) != deltas or pos != len(res):
            _bad("compileDeltaValues_", deltas[:20], "decompileDeltas_ reads %r pos %d" % (list(lv)[:20], pos))
        kinds = "".join(sorted({"z" if d == 0 else "b" if -128 <= d <= 127 else "w" if -32768 <= d <= 32767 else "l" for d in deltas}))
        _cls("deltas/%s/%s/opt%s" % (kinds, "long" if len(deltas) > 64 else "short", kw.get("optimizeSize", True)))

    hooks.attach(TV, "compileDeltaValues_", post=post_compileDeltaValues, name="compileDeltaValues_")

    # --- eexec -------------------------------------------------------
    def post_encrypt(st, a, kw, res, exc):
        plain, r = a[0], a[1]
        if exc is not None or not isinstance(plain, (bytes, bytearray)):
            return
        _cur["n"] += 1
        c, r2 = res
        wc, wr = codecs.eexec_encrypt(bytes(plain), r)
        if bytes(c) != wc or r2 != wr:
            _bad("eexec.encrypt", (bytes(plain)[:16].hex(), r), "differs from the Type 1 spec cipher")
        p, r3 = eexec.decrypt(c, r)
        if bytes(p) != bytes(plain) or r3 != r2:
            _bad("eexec.encrypt", (bytes(plain)[:16].hex(), r), "decrypt(encrypt(x)) != x")
        _cls("eexec/key%d/len%d" % (r if r in (4330, 55665) else 0, min(len(plain), 3)))

    hooks.attach(eexec, "encrypt", post=post_encrypt, name="eexec.encrypt")

    def post_hexString(st, a, kw, res, exc):
        if exc is not None:
            return
        _cur["n"] += 1
        s = a[0]
        if eexec.deHexString(res) != bytes(s) or bytes(res).decode("ascii").lower() != bytes(s).hex():
            _bad("hexString", bytes(s)[:16].hex(), "deHexString(hexString(x)) != x")

    hooks.attach(eexec, "hexString", post=post_hexString, name="eexec.hexString")

    def post_longToString(st, a, kw, res, exc):
        v = a[0]
        if exc is not None or not isinstance(v, int) or not 0 <= v < 2 ** 32:
            return
        _cur["n"] += 1
        if struct.unpack("<L", res)[0] != v or t1Lib.stringToLong(res) != v:
            _bad("t1Lib.longToString", v, "not little-endian uint32 / stringToLong mismatch")

    hooks.attach(t1Lib, "longToString", post=post_longToString, name="t1Lib.longToString")

    # --- sstruct -----------------------------------------------------
    def post_sspack(st, a, kw, res, exc):
        fmt, obj = a[0], a[1]
        if exc is not None:
            return
        _cur["n"] += 1
        d = obj if isinstance(obj, dict) else obj.__dict__
        back = sstruct.unpack(fmt, res)
        formatstring, names, fixes = sstruct.getformat(fmt)
        if sstruct.calcsize(fmt) != len(res):
            _bad("sstruct.pack", fmt[:60], "calcsize != len(pack)")
        for name in names:
            want, got = d[name], back[name]
            if name in fixes:
                bits = fixes[name]
                if (Fraction(want) * (1 << bits) + Fraction(1, 2)).__floor__() != Fraction(got) * (1 << bits):
                    _bad("sstruct.pack", (name, want), "fixed field reads back %r" % got)
            elif isinstance(want, (bytes, str)):
                w = want.encode("latin-1") if isinstance(want, str) else want
                g = got.encode("latin-1") if isinstance(got, str) else got
                if g.rstrip(b"\0") != w.rstrip(b"\0") and g != w:
                    _bad("sstruct.pack", (name, want), "string field reads back %r" % got)
            elif isinstance(want, float):
                if struct.unpack(">f", struct.pack(">f", want))[0] != got and want != got:
                    _bad("sstruct.pack", (name, want), "float field reads back %r" % got)
            elif got != want:
                _bad("sstruct.pack", (name, want), "field reads back %r" % (got,))
        _cls("sstruct/" + formatstring)

    hooks.attach(sstruct, "pack", post=post_sspack, name="sstruct.pack")

    # --- timestamps ---------------------------------------------------
    def post_tsToString(st, a, kw, res, exc):
        v = a[0]
        if exc is not None or not isinstance(v, int):
            return
        # domain: representable by time.gmtime with a 4-digit year, not clamped at the 1904 epoch
        if v + timeTools.epoch_diff < 0 or v + timeTools.epoch_diff > 253402300799:
            return
        _cur["n"] += 1
        try:
            back = timeTools.timestampFromString(res)
        except Exception as e:
            _bad("timestampToString", v, "timestampFromString raised %s on %r" % (type(e).__name__, res))
            return
        if back != v:
            _bad("timestampToString", v, "round trip gives %r via %r" % (back, res))
        import calendar, re as _re
        m = _re.match(r"(\w{3}) (\w{3}) ([ \d]\d) (\d\d):(\d\d):(\d\d) (\d{4})$", res)
        if not m:
            _bad("timestampToString", v, "not asctime format: %r" % res)
        else:
            mon = ["Jan", "Feb", "Mar", "Apr", "May", "Jun", "Jul", "Aug", "Sep", "Oct", "Nov", "Dec"].index(m.group(2)) + 1
            secs = calendar.timegm((int(m.group(7)), mon, int(m.group(3)), int(m.group(4)), int(m.group(5)), int(m.group(6))))
            if secs - calendar.timegm((1904, 1, 1, 0, 0, 0)) != v:
                _bad("timestampToString", v, "text %r denotes another instant" % res)
        _cls("timestamp/%s" % res[-4:-2])

    hooks.attach(timeTools, "timestampToString", post=post_tsToString, name="timestampToString")

    # --- tags ---------------------------------------------------------
    def valid_tag(t):
        if t == "GlyphOrder":
            return False
        if not isinstance(t, str) or len(t) != 4:
            return False
        # the property quantifies over all 4-character tags of printable ASCII, which
        # includes tags with leading or embedded spaces (not valid OpenType tags, but
        # the mangling functions are total on them and documented as reversible)
        return all(32 <= ord(c) <= 126 for c in t)

    def post_tagToIdentifier(st, a, kw, res, exc):
        t = a[0]
        if isinstance(t, bytes):
            t = t.decode("latin-1")
        if not valid_tag(t):
            return
        if exc is not None:
            _bad("tagToIdentifier", t, "raised %s" % type(exc).__name__)
            return
        _cur["n"] += 1
        try:
            back = TF.identifierToTag(res)
        except Exception as e:
            _bad("tagToIdentifier", t, "identifierToTag(%r) raised %s" % (res, type(e).__name__))
            return
        if back != t:
            _bad("tagToIdentifier", t, "identifierToTag(%r) = %r" % (res, back))
        import re as _re
        if not _re.match(r"[A-Za-z_][A-Za-z0-9_]*$", res):
            _bad("tagToIdentifier", t, "%r is not an identifier" % res)
        _cls("tagId/len%d" % len(res))

    def post_tagToXML(st, a, kw, res, exc):
        t = a[0]
        if isinstance(t, bytes):
            t = t.decode("latin-1")
        if not valid_tag(t):
            return
        if exc is not None:
            _bad("tagToXML", t, "raised %s" % type(exc).__name__)
            return
        _cur["n"] += 1
        try:
            back = TF.xmlToTag(res)
        except Exception as e:
            _bad("tagToXML", t, "xmlToTag(%r) raised %s" % (res, type(e).__name__), idlen=len(res))
            return
        if back != t:
            hooks.report({"kind": "codec", "codec": "tagToXML", "what": "xmlToTag(tagToXML(t)) != t",
                          "idlen_le4": len(res) <= 4},
                         "tagToXML: xmlToTag(%r) = %r, tag was %r" % (res, back, t), {"tag": t, "xml": res, "back": back})
        _cls("tagXML/len%d" % len(res))

    hooks.attach(TF, "tagToIdentifier", post=post_tagToIdentifier, name="tagToIdentifier")
    hooks.attach(TF, "tagToXML", post=post_tagToXML, name="tagToXML")

    # --- sparse bit set -------------------------------------------------
    def spec_sbs(data):
        bf = (2, 4, 8, 32)[data[0] & 3]
        h = (data[0] >> 2) & 31
        if h == 0:
            return set(), 1
        bits = []
        for b in data[1:]:
            for k in range(8):
                bits.append((b >> k) & 1)
        pos = 0
        out = set()
        queue = [(0, 1)]
        qi = 0
        while qi < len(queue):
            start, depth = queue[qi]
            qi += 1
            node = bits[pos:pos + bf]
            if len(node) < bf:
                raise codecs.Bad("short")
            pos += bf
            if not any(node):
                out.update(range(start, start + bf ** (h - depth + 1)))
                continue
            for k, bit in enumerate(node):
                if bit:
                    if depth == h:
                        out.add(start + k)
                    else:
                        queue.append((start + k * bf ** (h - depth), depth + 1))
        return out, 1 + (pos + 7) // 8

    def post_sbs_encode(st, a, kw, res, exc):
        try:
            vals = set(a[0])
        except TypeError:
            return
        if any((not isinstance(v, int)) or v < 0 or v >= 2 ** 32 for v in vals):
            return
        if exc is not None:
            _bad("iftSparseBitSet.encode", sorted(vals)[:10], "raised %s" % type(exc).__name__)
            return
        _cur["n"] += 1
        try:
            got, used = spec_sbs(bytes(res))
        except Exception as e:
            _bad("iftSparseBitSet.encode", sorted(vals)[:10], "spec decoder rejects: %r" % e, data=bytes(res)[:40].hex())
            return
        mx = max(vals) if vals else -1
        if {g for g in got if g <= mx} != vals and got != vals:
            _bad("iftSparseBitSet.encode", sorted(vals)[:10], "spec decoder reads %r" % sorted(got)[:10], data=bytes(res)[:40].hex())
        if used != len(res):
            _bad("iftSparseBitSet.encode", sorted(vals)[:10], "spec decoder used %d of %d bytes" % (used, len(res)))
        lv, lused = SBS.decode(bytes(res))
        if set(lv) != got:
            _bad("iftSparseBitSet.encode", sorted(vals)[:10], "library decoder reads %r, spec decoder %r" % (sorted(lv)[:10], sorted(got)[:10]))
        if set(lv) != vals:
            _bad("iftSparseBitSet.encode", sorted(vals)[:10], "decode(encode(s)) = %r" % sorted(lv)[:10])
        if lused != len(res):
            _bad("iftSparseBitSet.encode", sorted(vals)[:10], "decoder consumed %d of %d bytes" % (lused, len(res)))
        _cls("sbs/bf%d/h%d" % ((2, 4, 8, 32)[res[0] & 3], (res[0] >> 2) & 31))

    hooks.attach(SBS, "encode", post=post_sbs_encode, name="iftSparseBitSet.encode")

    # --- AGL ---------------------------------------------------------
    def post_toUnicode(st, a, kw, res, exc):
        name = a[0]
        if exc is not None or not isinstance(name, str) or a[1:] or kw:
            return
        import re as _re
        m = _re.fullmatch(r"uni((?:[0-9A-F]{4})+)", name)
        want = None
        if m:
            cps = [int(m.group(1)[i:i + 4], 16) for i in range(0, len(m.group(1)), 4)]
            if all(c < 0xD800 or 0xE000 <= c for c in cps):
                want = "".join(map(chr, cps))
            else:
                want = ""
        else:
            m = _re.fullmatch(r"u([0-9A-F]{4,6})", name)
            if m:
                c = int(m.group(1), 16)
                want = chr(c) if (c < 0xD800 or 0xE000 <= c <= 0x10FFFF) else ""
        if want is None or name in agl.AGL2UV or name in getattr(agl, "LEGACY_AGL2UV", {}):
            return
        _cur["n"] += 1
        if res != want:
            _bad("agl.toUnicode", name, "gives %r, AGL spec says %r" % (res, want))
        _cls("agl/%s/%d" % ("uni" if name.startswith("uni") else "u", len(name)))

    hooks.attach(agl, "toUnicode", post=post_toUnicode, name="agl.toUnicode")

    def post_bit_indices(st, a, kw, res, exc):
        v = a[0]
        if exc is not None or not isinstance(v, int) or v < 0:
            return
        _cur["n"] += 1
        if sum(1 << i for i in res) != v or list(res) != sorted(set(res)):
            _bad("bit_indices", v, "indices %r do not rebuild the value" % (res[:20],))

    hooks.attach(intTools, "bit_indices", post=post_bit_indices, name="bit_indices")


REQUIRED_MONITORS = [
    "fixedToFloat", "fixedToStr", "strToFixed", "floatToFixedToStr", "otRound",
    "nearestMultipleShortestRepr", "encodeIntCFF", "encodeIntT2", "encodeIntT1", "encodeFixed",
    "encodeFloat", "packBase128", "pack255UShort", "_write_uint32var", "compilePoints",
    "compileDeltaValues_", "eexec.encrypt", "eexec.hexString", "t1Lib.longToString", "sstruct.pack",
    "timestampToString", "tagToIdentifier", "tagToXML", "iftSparseBitSet.encode", "agl.toUnicode",
    "bit_indices",
]


# ---------------------------------------------------------------- cases
def cases(tier, seed):
    T = tier == "thorough"
    cs = []

    def add(codec, **kw):
        kw["codec"] = codec
        kw["id"] = "%s:%s" % (codec, ",".join("%s=%s" % (k, v) for k, v in sorted(kw.items()) if k != "codec"))
        kw["seed"] = seed
        cs.append(kw)

    # F2Dot14: all 65536 values (exhaustive, both tiers), in 8 slices
    for lo in range(-32768, 32768, 8192):
        add("f2dot14", lo=lo, hi=lo + 8192)
    # 16.16 and other precisions
    for bits in (16, 6, 2, 8):
        for part in range(4 if T else 2):
            add("fixedN", bits=bits, part=part, n=40000 if T else 6000)
    add("otround", n=200000 if T else 30000)
    add("fixed_mixed", n=3000 if T else 400)
    # CFF / T2 / T1 ints: -70000..70000 exhaustive (+ 32-bit edge and random)
    step = 20000
    for lo in range(-70000, 70001, step):
        add("ints", lo=lo, hi=min(lo + step, 70001))
    add("ints32", n=200000 if T else 20000)
    for part in range(8 if T else 2):
        add("reals", part=part, n=25000 if T else 8000)
    add("fixed1616op", n=100000 if T else 15000)
    # base128: 0..2^21 exhaustive in thorough; stride in quick
    nparts = 16 if T else 4
    for part in range(nparts):
        add("base128", part=part, parts=nparts, stride=1 if T else 5)
    add("u255")
    add("uint32var", n=300000 if T else 40000)
    add("points_small")  # all subsets of 0..11
    for part in range(4 if T else 1):
        add("points_rand", part=part, n=4000 if T else 1500)
    add("deltas_small", L=4 if T else 3)
    for part in range(4 if T else 1):
        add("deltas_rand", part=part, n=6000 if T else 2000)
    add("eexec", n=3000 if T else 600)
    add("t1font", lenivs=[0, 1, 2, 3, 4, 5, 8] if T else [0, 1, 3, 4, 5])
    add("sstruct", n=4000 if T else 800)
    add("timestamps", n=60000 if T else 10000)
    for part in range(8 if T else 2):
        add("tags", part=part, parts=8 if T else 2, full=T)
    add("sbs_small")
    for part in range(4 if T else 1):
        add("sbs_rand", part=part, n=3000 if T else 800)
    add("agl", n=120000 if T else 20000)
    add("bits", n=50000 if T else 8000)
    if T:
        for sp in ['misc', 'cffLib', 'ttLib/tables/TupleVariation_test.py', 'ttLib/woff2_test.py', 't1Lib', 'agl_test.py', 'ttx']:
            add("suite", path=sp)
    return cs


def run_case(case, ctx):
    _cur["keys"] = set()
    _cur["n"] = 0
    rnd = random.Random("%s/%s" % (case["id"], case["seed"]))
    globals()["drv_" + case["codec"]](case, rnd, ctx)
    ctx.judged(_cur["n"])
    for k in _cur["keys"]:
        ctx.nontrivial(k)
    if ctx.sample is None:
        ctx.sample = {"case": {k: v for k, v in case.items() if k != "seed"}, "monitor_evaluations": _cur["n"],
                      "encoding_classes_seen": sorted(_cur["keys"])[:12]}


# ---------------------------------------------------------------- drivers
def _call(ctx, op, fn, *a, **kw):
    """Call a library encoder; exceptions are judged by the monitor (domain-aware)."""
    try:
        return fn(*a, **kw)
    except Exception:
        return None


def _nm(rnd, value, factor):
    from fontTools.misc.roundTools import nearestMultipleShortestRepr
    try:
        nearestMultipleShortestRepr(value, factor)
    except Exception:
        pass


def drv_f2dot14(case, rnd, ctx):
    from fontTools.misc import fixedTools as FT
    for i in range(case["lo"], case["hi"]):
        f = _call(ctx, "fixedToFloat", FT.fixedToFloat, i, 14)
        s = _call(ctx, "fixedToStr", FT.fixedToStr, i, 14)
        if s is not None:
            _call(ctx, "strToFixed", FT.strToFixed, s, 14)
        if f is not None:
            _call(ctx, "floatToFixedToStr", FT.floatToFixedToStr, f, 14)


def drv_fixedN(case, rnd, ctx):
    from fontTools.misc import fixedTools as FT
    bits = case["bits"]
    top = 1 << (31 if bits == 16 else 15)
    edge = [-top, -top + 1, top - 1, 0, 1, -1, (1 << bits), -(1 << bits), (1 << bits) - 1, (1 << bits) + 1]
    vals = edge + [rnd.randrange(-top, top) for _ in range(case["n"])]
    if bits == 16:
        vals += [(ip << 16) | fp for ip in range(-40, 40) for fp in (0, 1, 0x8000, 0x7FFF, 0xFFFF, 0x3333, 0x6666)]
    for i in vals:
        f = _call(ctx, "fixedToFloat", FT.fixedToFloat, i, bits)
        s = _call(ctx, "fixedToStr", FT.fixedToStr, i, bits)
        if s is not None:
            _call(ctx, "strToFixed", FT.strToFixed, s, bits)
        if f is not None:
            _call(ctx, "floatToFixedToStr", FT.floatToFixedToStr, f, bits)
    for _ in range(case["n"] // 4):
        # arbitrary floats (not only exact multiples), tiny ones included
        v = rnd.choice([rnd.uniform(-2, 2), rnd.uniform(-1, 1) * 10 ** -rnd.randrange(1, 9), rnd.uniform(-300, 300)])
        if abs(v) * (1 << bits) < top:
            _call(ctx, "floatToFixedToStr", FT.floatToFixedToStr, v, bits)
            _call(ctx, "floatToFixed", FT.floatToFixed, v, bits)
    for _ in range(case["n"] // 4):
        # decimal strings a TTX author could write
        s = "%.*f" % (rnd.randrange(0, 7), rnd.uniform(-2, 2) if bits == 14 else rnd.uniform(-300, 300))
        _call(ctx, "strToFixed", FT.strToFixed, s, bits)


def drv_fixed_mixed(case, rnd, ctx):
    """The same real numbers formatted at different precisions, coarse and fine interleaved, within ONE process:
    the text for a value at one precision must not depend on what was formatted before (a history-dependent
    formatter is invisible to per-precision sweeps)."""
    from fontTools.misc import fixedTools as FT
    precisions = [14, 16, 6, 2, 8, 12, 10]
    reals = [k / 10 for k in range(-30, 31)] + [k / 100 for k in range(-150, 151, 7)] + [1 / 3, 2 / 3, 0.8, -0.8, 0.1, 0.7, 1.15, 0.05]
    reals += [rnd.uniform(-1.99, 1.99) for _ in range(case["n"])]
    for x in reals:
        order = precisions[:]
        if rnd.random() < 0.5:
            rnd.shuffle(order)
        for bits in order + order[::-1]:
            top = 1 << (31 if bits == 16 else 15)
            i = int(round(x * (1 << bits)))
            if -top <= i < top:
                sx = _call(ctx, "fixedToStr", FT.fixedToStr, i, bits)
                if sx is not None:
                    _call(ctx, "strToFixed", FT.strToFixed, sx, bits)
                _call(ctx, "floatToFixedToStr", FT.floatToFixedToStr, x, bits)


def drv_otround(case, rnd, ctx):
    from fontTools.misc.roundTools import otRound, nearestMultipleShortestRepr
    for k in range(-2000, 2001):
        otRound(k / 2)
        otRound(k / 2 + 1e-9)
        otRound(k / 2 - 1e-9)
        otRound(k)
    for _ in range(case["n"]):
        otRound(rnd.uniform(-1e6, 1e6))
        otRound(rnd.choice([0.5, -0.5, 1.5, -1.5, 2.5, -2.5]) + rnd.randrange(-100, 100))
    for _ in range(case["n"] // 4):
        factor = rnd.choice([1 / (1 << 14), 1 / (1 << 16), 1 / 64, 0.25, 0.1, 1.0, 2.0])
        _nm(rnd, rnd.uniform(-4, 4) if factor < 0.01 else rnd.uniform(-1000, 1000), factor)
        _nm(rnd, rnd.uniform(-1, 1) * factor, factor)
    for i in range(-32768, 32768, 7):
        _nm(rnd, i / 16384, 1 / 16384)


def drv_ints(case, rnd, ctx):
    from fontTools.misc import psCharStrings as PS
    for v in range(case["lo"], case["hi"]):
        _call(ctx, "cff", PS.encodeIntCFF, v)
        _call(ctx, "t1", PS.encodeIntT1, v)
        if -32768 <= v <= 32767:
            _call(ctx, "t2", PS.encodeIntT2, v)


def drv_ints32(case, rnd, ctx):
    from fontTools.misc import psCharStrings as PS
    edge = [2 ** 31 - 1, -2 ** 31, 2 ** 31 - 2, -2 ** 31 + 1, 65535, 65536, -65536, -65537, 32767, 32768, -32768, -32769]
    for v in edge + [rnd.randrange(-2 ** 31, 2 ** 31) for _ in range(case["n"])]:
        _call(ctx, "cff", PS.encodeIntCFF, v)
        _call(ctx, "t1", PS.encodeIntT1, v)


def drv_reals(case, rnd, ctx):
    from fontTools.misc import psCharStrings as PS
    fixed = ["1e-05", "123000", "-0.0", ".5", "0.001", "1000", "100", "1e10", "-1e-10", "0.1", "12345678", "123456789",
             "1.5e3", "-2.5e-3", "1e2", "1e3", "1e1", "-1000000", "0.000123", "9.9999999", "99999999.5", "0.99999999", "1e-12", "1e12"]
    if case["part"] == 0:
        for s in fixed:
            _call(ctx, "real", PS.encodeFloat, float(s))
    for _ in range(case["n"]):
        nd = rnd.randrange(1, 9)
        mant = rnd.randrange(1, 10 ** nd)
        exp = rnd.randrange(-12, 13)
        s = "%s%de%d" % (rnd.choice(["", "-"]), mant, exp - rnd.randrange(0, nd))
        _call(ctx, "real", PS.encodeFloat, float(s))
    for _ in range(case["n"] // 4):
        _call(ctx, "real", PS.encodeFloat, rnd.uniform(-1, 1) * 10 ** rnd.randrange(-10, 10))
        _call(ctx, "real", PS.encodeFloat, float(rnd.randrange(-10 ** 6, 10 ** 6)) * rnd.choice([1, 10, 100, 1000, 0.1, 0.01, 0.001]))


def drv_fixed1616op(case, rnd, ctx):
    from fontTools.misc import psCharStrings as PS
    for ip in range(-300, 300):
        for fp in (0, 1, 0x8000, 0xFFFF, 0x0100):
            _call(ctx, "fixed", PS.encodeFixed, ip + fp / 65536)
    for _ in range(case["n"]):
        _call(ctx, "fixed", PS.encodeFixed, rnd.randrange(-2 ** 31, 2 ** 31) / 65536)
        _call(ctx, "fixed", PS.encodeFixed, rnd.uniform(-32768, 32767.99))
    for v in (32767.5, -32768.0, 32767.99998, 0.00001, -0.00001, 0.5, 1 / 3):
        _call(ctx, "fixed", PS.encodeFixed, v)
    # floats a hair away from an integer or from a 16.16 step (scaling / interpolation residue): the value that
    # is written must be the rounded one, whichever way the residue points
    for ip in list(range(-120, 121)) + [rnd.randrange(-32000, 32000) for _ in range(200)]:
        for k in (8, 12, 16, 17, 18, 20, 24, 30, 40):
            for sign in (1, -1):
                _call(ctx, "fixed", PS.encodeFixed, ip + sign * 2.0 ** -k)
                _call(ctx, "fixed", PS.encodeFixed, ip + 0.5 + sign * 2.0 ** -k)
        for e in (1e-5, 1e-6, 1e-7, 1e-9, 1e-12):
            _call(ctx, "fixed", PS.encodeFixed, ip - e)
            _call(ctx, "fixed", PS.encodeFixed, ip + e)
            _call(ctx, "fixed", PS.encodeFixed, ip + rnd.randrange(1, 65536) / 65536 - e)


def drv_base128(case, rnd, ctx):
    from fontTools.ttLib import woff2
    lo = (1 << 21) * case["part"] // case["parts"]
    hi = (1 << 21) * (case["part"] + 1) // case["parts"]
    for n in range(lo, hi, case["stride"]):
        _call(ctx, "b128", woff2.packBase128, n)
    if case["part"] == 0:
        for k in range(7, 33, 7):
            for d in (-2, -1, 0, 1, 2):
                n = (1 << k) + d
                if 0 <= n < 2 ** 32:
                    _call(ctx, "b128", woff2.packBase128, n)
        _call(ctx, "b128", woff2.packBase128, 2 ** 32 - 1)
        for _ in range(20000):
            _call(ctx, "b128", woff2.packBase128, rnd.randrange(2 ** 32))


def drv_u255(case, rnd, ctx):
    from fontTools.ttLib import woff2
    for n in range(65536):
        _call(ctx, "u255", woff2.pack255UShort, n)


def drv_uint32var(case, rnd, ctx):
    from fontTools.ttLib.tables import otTables
    for b in (0x80, 0x4000, 0x200000, 0x10000000):
        for d in range(-3, 4):
            _call(ctx, "u32v", otTables._write_uint32var, b + d)
    for n in [0, 1, 127, 2 ** 32 - 1, 2 ** 32 - 2] + [rnd.randrange(2 ** rnd.randrange(1, 33)) for _ in range(case["n"])]:
        _call(ctx, "u32v", otTables._write_uint32var, n)
    for n in range(0, 70000):
        _call(ctx, "u32v", otTables._write_uint32var, n)


def drv_points_small(case, rnd, ctx):
    from fontTools.ttLib.tables.TupleVariation import TupleVariation as TV
    for mask in range(1 << 12):
        TV.compilePoints({i for i in range(12) if mask >> i & 1})


def drv_points_rand(case, rnd, ctx):
    from fontTools.ttLib.tables.TupleVariation import TupleVariation as TV
    for _ in range(case["n"]):
        npts = rnd.choice([1, 2, 5, 127, 128, 129, 300, 2000, 65536])
        cnt = rnd.choice([1, 2, 63, 64, 65, 126, 127, 128, 129, 130, 200, 255, 256, 257, 400])
        kind = rnd.randrange(4)
        if kind == 0:
            pts = set(rnd.sample(range(npts), min(cnt, npts)))
        elif kind == 1:   # gaps around 255/256
            pts, cur = set(), 0
            for _i in range(cnt):
                cur += rnd.choice([1, 1, 2, 254, 255, 256, 257, 300, 1])
                if cur > 65535:
                    break
                pts.add(cur)
        elif kind == 2:   # consecutive run
            st = rnd.randrange(0, 65536 - cnt)
            pts = set(range(st, st + cnt))
        else:             # mixed byte/word runs
            pts, cur = set(), rnd.choice([0, 0, 256, 1000])
            for _i in range(cnt):
                cur += rnd.choice([1, 3, 200]) if (_i // 40) % 2 == 0 else rnd.choice([256, 1000, 300])
                if cur > 65535:
                    break
                pts.add(cur)
        TV.compilePoints(pts)
        # also as compiled through a real TupleVariation
    TV.compilePoints(set())


_DV = [0, 1, -1, 127, 128, -128, -129, 32767, -32768]


def drv_deltas_small(case, rnd, ctx):
    from fontTools.ttLib.tables.TupleVariation import TupleVariation as TV
    for L in range(1, case["L"] + 1):
        for seq in itertools.product(_DV, repeat=L):
            TV.compileDeltaValues_(list(seq))
    for seq in itertools.product([0, 1, 300, 40000, -40000], repeat=4):
        TV.compileDeltaValues_(list(seq))
        TV.compileDeltaValues_(list(seq), optimizeSize=False)


def drv_deltas_rand(case, rnd, ctx):
    from fontTools.ttLib.tables.TupleVariation import TupleVariation as TV
    for v in _DV + [32768, -32769, 2 ** 31 - 1, -2 ** 31, 70000]:
        for n in (62, 63, 64, 65, 66, 127, 128, 129, 130):
            TV.compileDeltaValues_([v] * n + [5] + [0] * n)
            TV.compileDeltaValues_([v] * n, optimizeSize=False)
    for _ in range(case["n"]):
        n = rnd.choice([1, 2, 3, 10, 63, 64, 65, 100, 130, 300])
        pal = rnd.choice([[0, 1, -1, 5], [0, 0, 0, 200, -200], [0, 300, 1, 0], _DV, [0, 70000, 5, -70000, 300], [0]])
        zero_bias = rnd.random()
        seq = [0 if rnd.random() < zero_bias * 0.7 else rnd.choice(pal) for _i in range(n)]
        TV.compileDeltaValues_(seq, optimizeSize=rnd.random() < 0.8)


def drv_eexec(case, rnd, ctx):
    from fontTools.misc import eexec
    for key in (4330, 55665, 0, 65535, 1234):
        for b in range(256):
            eexec.encrypt(bytes([b]), key)
    for _ in range(case["n"]):
        key = rnd.choice([4330, 55665, rnd.randrange(65536)])
        s = bytes(rnd.randrange(256) for _i in range(rnd.choice([0, 1, 2, 3, 10, 100, 700])))
        eexec.encrypt(s, key)
        eexec.hexString(s)
    import fontTools.t1Lib as t1Lib
    for v in [0, 1, 255, 256, 65535, 65536, 2 ** 24, 2 ** 32 - 1] + [rnd.randrange(2 ** 32) for _ in range(2000)]:
        t1Lib.longToString(v)


def drv_t1font(case, rnd, ctx):
    """Type 1 charstring encryption end to end: fonts declaring every /lenIV (written from the spec, see
    vmon/gen/c15_t1.py) are read by the library (parse must return the plain charstrings) and written back in every
    container form; a spec-level reader must recover the same plain charstrings and subroutines from the output."""
    import os
    import tempfile
    from vmon import env
    from vmon.gen import c15_t1 as G
    import fontTools.t1Lib as t1Lib
    ddir = os.path.join(env.TESTS, "t1Lib", "data")
    srcs = sorted(f for f in os.listdir(ddir) if f.endswith((".pfa", ".pfb")))
    tmp = tempfile.mkdtemp(prefix="vmon-c15-t1-")
    try:
        for fn in srcs:
            with ctx.lib("t1Lib.read"):
                src = t1Lib.read(os.path.join(ddir, fn))[0]
            _h, plain, _t = G.split(src)
            _l, glyphs0, subrs0, _s = G.charstrings(plain)
            for n in case["lenivs"]:
                for where in ("first", "before_subrs", "after_subrs"):
                    data = G.with_lenIV(src, n, where, rnd)
                    chk = G.charstrings(G.split(data)[1])
                    if chk[0] != n or chk[1] != glyphs0 or chk[2] != subrs0:
                        ctx.inconclusive("generator self-check failed for %s lenIV=%d %s" % (fn, n, where))
                        continue
                    path = os.path.join(tmp, "in.pfa")
                    with open(path, "wb") as f:
                        f.write(data)
                    with ctx.lib("T1Font.parse"):
                        font = t1Lib.T1Font(path)
                        font.parse()
                    ctx.judged()
                    got = [(k, v.bytecode) for k, v in font.font["CharStrings"].items()]
                    gots = [sr.bytecode for sr in font.font["Private"]["Subrs"]]
                    if sorted(got) != sorted(glyphs0) or gots != subrs0:
                        ctx.violation({"kind": "codec", "codec": "t1Lib.charstring-decrypt", "what": "parsed charstrings differ from the spec decryption"},
                                      "T1Font.parse: %s with /lenIV %d (%s) decrypts differently" % (fn, n, where), {"font": fn, "lenIV": n, "where": where})
                        continue
                    for kind, dohex in (("OTHER", False), ("OTHER", True), ("PFB", False)):
                        out = os.path.join(tmp, "out.pfb" if kind == "PFB" else "out.pfa")
                        with ctx.lib("T1Font.saveAs"):
                            font.saveAs(out, kind, dohex)
                            back = t1Lib.read(out)[0]
                        ctx.judged()
                        try:
                            l2, gl2, su2, _sp = G.charstrings(G.split(back)[1])
                        except Exception as e:
                            ctx.violation({"kind": "codec", "codec": "t1Lib.charstring-encrypt", "what": "written font cannot be decoded per the Type 1 spec"},
                                          "T1Font.saveAs(%s, hex=%s): %s" % (kind, dohex, e), {"font": fn, "lenIV": n, "where": where})
                            break
                        if l2 != n or sorted(gl2) != sorted(glyphs0) or su2 != subrs0:
                            what = "declared lenIV changed" if l2 != n else ("subroutines" if su2 != subrs0 else "charstrings") + " decode differently from what was read"
                            ctx.violation({"kind": "codec", "codec": "t1Lib.charstring-encrypt", "what": what},
                                          "T1Font.saveAs(%s, hex=%s): %s with /lenIV %d (%s): %s" % (kind, dohex, fn, n, where, what),
                                          {"font": fn, "lenIV": n, "where": where, "written_lenIV": l2})
                            break
                    else:
                        _cls("t1font/lenIV%d/%s" % (n, where))
        ctx.sample = {"fonts": srcs, "lenIVs": case["lenivs"], "glyphs": len(glyphs0), "subrs": len(subrs0)}
    finally:
        import shutil
        shutil.rmtree(tmp, ignore_errors=True)


def drv_sstruct(case, rnd, ctx):
    from fontTools.misc import sstruct
    codes = [("b", -128, 127), ("B", 0, 255), ("h", -32768, 32767), ("H", 0, 65535), ("i", -2 ** 31, 2 ** 31 - 1),
             ("I", 0, 2 ** 32 - 1), ("l", -2 ** 31, 2 ** 31 - 1), ("L", 0, 2 ** 32 - 1), ("q", -2 ** 63, 2 ** 63 - 1), ("Q", 0, 2 ** 64 - 1)]
    fixeds = [("2.14F", 16, 14), ("16.16F", 32, 16), ("8.8F", 16, 8), ("4.12F", 16, 12), ("6.10F", 16, 10), ("26.6F", 32, 6)]
    for _ in range(case["n"]):
        order = rnd.choice([">", "<", "!", "="]) if rnd.random() < 0.9 else ">"
        lines, obj = [order + " # order"], {}
        for k in range(rnd.randrange(1, 9)):
            name = "f%d" % k
            r = rnd.random()
            if r < 0.55:
                c, lo, hi = rnd.choice(codes)
                lines.append("%s: %s" % (name, c))
                obj[name] = rnd.choice([lo, hi, 0, rnd.randrange(lo, hi + 1)])
            elif r < 0.85:
                f, total, frac = rnd.choice(fixeds)
                lines.append("%s: %s" % (name, f))
                raw = rnd.choice([-(1 << (total - 1)), (1 << (total - 1)) - 1, 0, 1, -1, rnd.randrange(-(1 << (total - 1)), 1 << (total - 1))])
                obj[name] = raw / (1 << frac) if rnd.random() < 0.7 else rnd.uniform(-(1 << (total - frac - 1)), (1 << (total - frac - 1)) - 1)
            elif r < 0.95:
                n = rnd.randrange(1, 6)
                lines.append("%s: %ds" % (name, n))
                obj[name] = bytes(rnd.randrange(1, 256) for _i in range(n))
            else:
                lines.append("%s: c" % name)
                obj[name] = bytes([rnd.randrange(1, 128)])
        fmt = "\n".join(lines) + "\n"
        try:
            sstruct.pack(fmt, obj)
        except (ValueError, sstruct.Error):
            ctx.skip("sstruct value rejected")
    # the real table formats used across the library
    from fontTools.ttLib.tables import _h_e_a_d, _h_h_e_a, _m_a_x_p, O_S_2f_2, _p_o_s_t
    import fontTools.ttLib.sfnt as sfnt
    for fmt in (_h_e_a_d.headFormat, _h_h_e_a.hheaFormat, _p_o_s_t.postFormat, sfnt.sfntDirectoryFormat,
                sfnt.sfntDirectoryEntryFormat, sfnt.woffDirectoryFormat, O_S_2f_2.panoseFormat):
        formatstring, names, fixes = sstruct.getformat(fmt)
        for _ in range(40):
            obj = {}
            import struct as _s
            for name, code in names.items():
                if name in fixes:
                    size = _s.calcsize(">" + code) * 8
                    obj[name] = rnd.randrange(-(1 << (size - 1)), 1 << (size - 1)) / (1 << fixes[name])
                elif code.endswith("s"):
                    obj[name] = bytes(rnd.randrange(65, 91) for _i in range(int(code[:-1] or 1)))
                else:
                    size = _s.calcsize(">" + code) * 8
                    obj[name] = rnd.randrange(0, 1 << (size - 1))
            try:
                sstruct.pack(fmt, obj)
            except (ValueError, sstruct.Error):
                ctx.skip("sstruct value rejected")


def drv_timestamps(case, rnd, ctx):
    import os
    import time
    from fontTools.misc import timeTools
    ed = timeTools.epoch_diff
    edge = [-ed, -ed + 1, 0, 1, 86399, 86400, 2 ** 31 - 1, 2 ** 31, 2 ** 32 - 1, 2 ** 32, 3 * 10 ** 9,
            951782400 - ed, 951868800 - ed, 4107542400 - ed]  # leap days 2000, 2100 boundary
    vals = edge + [rnd.randrange(-ed, 2 ** 33) for _ in range(case["n"])]
    # font timestamps are UTC: the conversion must not depend on the process time zone (POSIX TZ strings need no tzdata)
    old = os.environ.get("TZ")
    try:
        for tz in ("UTC0", "EST5EDT,M3.2.0,M11.1.0", "IST-5:30", "NZST-12NZDT,M9.5.0,M4.1.0/3"):
            os.environ["TZ"] = tz
            time.tzset()
            for v in (vals if tz == "UTC0" else vals[:len(edge) + max(200, case["n"] // 8)]):
                try:
                    timeTools.timestampToString(v)
                except (OverflowError, OSError, ValueError):
                    ctx.skip("gmtime range")
            _cls("timestamps/tz/%s" % tz.split(",")[0])
    finally:
        if old is None:
            os.environ.pop("TZ", None)
        else:
            os.environ["TZ"] = old
        time.tzset()


def drv_tags(case, rnd, ctx):
    from fontTools.ttLib import ttFont as TF
    chars = [chr(c) for c in range(33, 127)]
    alnum = [c for c in chars if c.isalnum()]
    punct = [c for c in chars if not c.isalnum()]
    tags = set()
    # all tags with <= 2 non-alphanumeric positions, alnum drawn from a small palette, every punctuation char
    pal = ["a", "Z", "0", "9", "_x"[0]] if not case["full"] else ["a", "B", "z", "Q", "0", "7", "_"]
    for length in (1, 2, 3, 4):
        for positions in itertools.chain.from_iterable(itertools.combinations(range(length), k) for k in (0, 1, 2)):
            others = [i for i in range(length) if i not in positions]
            for ps in itertools.product(punct, repeat=len(positions)):
                for al in itertools.product(pal, repeat=len(others)) if len(others) <= 2 else [tuple(rnd.choice(alnum) for _ in others) for _k in range(3)]:
                    t = [None] * length
                    for i, c in zip(positions, ps):
                        t[i] = c
                    for i, c in zip(others, al):
                        t[i] = c
                    tags.add("".join(t).ljust(4))
    for _ in range(20000 if case["full"] else 4000):
        L = rnd.randrange(1, 5)
        tags.add("".join(rnd.choice(chars) for _i in range(L)).ljust(4))
    # spaces in every position (leading, embedded, all spaces)
    for mask in range(16):
        for _k in range(40 if case["full"] else 12):
            tags.add("".join(" " if mask >> i & 1 else rnd.choice(pal + punct[:6]) for i in range(4)))
    from fontTools.ttLib import ttFont
    tags.update(t.ljust(4) for t in ["OS/2", "cvt ", "CFF ", "SVG ", "glyf", "GSUB", "TSI0", "Zapf", "prep", "gasp", "fpgm", "BASE", "meta"])
    tags = sorted(tags)
    mine = tags[case["part"]::case["parts"]]
    for t in mine:
        try:
            TF.tagToIdentifier(t)
        except Exception:
            pass
        try:
            TF.tagToXML(t)
        except Exception:
            pass


def drv_sbs_small(case, rnd, ctx):
    from fontTools.misc import iftSparseBitSet as SBS
    for mask in range(1 << 16):
        if mask % 3 and mask > 4096:
            continue
        SBS.encode({i for i in range(16) if mask >> i & 1})


def drv_sbs_rand(case, rnd, ctx):
    from fontTools.misc import iftSparseBitSet as SBS
    for _ in range(case["n"]):
        n = rnd.choice([0, 1, 3, 16, 100, 400])
        mx = rnd.choice([1, 2, 8, 31, 32, 33, 255, 256, 1023, 1024, 70000, 2 ** 20, 2 ** 24])
        kind = rnd.randrange(3)
        if kind == 0:
            vs = {rnd.randrange(mx) for _i in range(n)}
        elif kind == 1:  # dense ranges (exercise the all-zero "filled" node)
            st = rnd.randrange(mx)
            vs = set(range(st, min(st + n, st + 4096)))
        else:
            st = rnd.randrange(mx)
            vs = set(range(st - st % 32, st - st % 32 + 64)) | {rnd.randrange(mx) for _i in range(n // 4)}
        try:
            SBS.encode(vs)
        except ValueError:
            ctx.skip("sbs max value too large")


def drv_agl(case, rnd, ctx):
    from fontTools import agl
    bad = 0
    for uv, name in agl.UV2AGL.items():
        got = agl.toUnicode(name)
        ctx.judged()
        if got != chr(uv):
            ctx.violation({"kind": "codec", "codec": "agl.UV2AGL", "what": "toUnicode(UV2AGL[uv]) != chr(uv)"},
                          "agl: toUnicode(%r) = %r, UV2AGL says U+%04X" % (name, got, uv))
    ctx.nontrivial("agl/UV2AGL-table")
    for cp in list(range(0, 0x10000, 1 if case["n"] > 50000 else 7)):
        agl.toUnicode("uni%04X" % cp)
    for _ in range(case["n"]):
        cp = rnd.randrange(0x110000 + 200)
        agl.toUnicode("u%04X" % cp)
        cps = [rnd.randrange(0x10000) for _i in range(rnd.randrange(1, 4))]
        agl.toUnicode("uni" + "".join("%04X" % c for c in cps))


def drv_bits(case, rnd, ctx):
    from fontTools.misc.intTools import bit_indices
    for v in range(4096):
        bit_indices(v)
    for _ in range(case["n"]):
        bit_indices(rnd.getrandbits(rnd.randrange(1, 130)))


def drv_suite(case, rnd, ctx):
    """The repository's own tests as a workload for the monitors (outcomes not judged)."""
    from vmon import suite
    passed, failed, tail = suite.run_pytest([case["path"]], ctx)
    ctx.sample = {"suite": case["path"], "tests_passed": passed, "tests_failed": failed}
    if not passed:
        ctx.inconclusive("suite workload ran no passing test: " + tail[-300:])
