"""C04 — every saved file is a valid container with consistent derived fields.

The deciding monitors are post-conditions on ``TTFont.save`` and ``TTCollection.save``:
whatever bytes the library wrote (path or stream) are handed to parsers written from
the OpenType / WOFF / WOFF2 specifications (vmon/oracle/sfnt.py, woff.py, woff2.py) and
the derived fields the library recomputed under the active options are recomputed
independently from the *saved* data (vmon/oracle/derived.py).  The drivers only
produce saves: a sweep over corpus and generated fonts x flavor x reorderTables x
recalcBBoxes x glyf padding x TTC sharing, plus subset / instancer / merge / varLib /
ttx / woff2 workloads whose saves pass through the same monitor.  Cross-flavour
equality of table content is judged by the driver from the monitor's decoded tables.
"""
import hashlib
import io
import os
import random
import struct

from vmon import corpus, hooks
from vmon.oracle import derived as D
from vmon.oracle import sfnt as OS
from vmon.oracle import woff as OW
from vmon.oracle import woff2 as OW2

PROPERTY = "C04"
LEVEL = "exploration"
RULE = ("a case is one font (corpus file, TTC, a fontBuilder font built to stress one derived field, a binary with corrupted derived fields, or a collection with checksum-colliding members) saved under "
        "several configurations; every save is judged by the TTFont.save/TTCollection.save post-condition; a "
        "(font, flavor, reorderTables, recalcBBoxes, glyf padding, flavor-data, sharing) combination is distinct, and "
        "non-trivial when the written file had at least one table and was parsed and judged by the independent reader")
ASSUMPTIONS = [
    "trusted base: vmon/oracle/{sfnt,woff,woff2,derived}.py (written from the OpenType 1.9, WOFF 1.0 and WOFF 2.0 specifications, no fontTools import), zlib, brotli, HarfBuzz (CFF outlines only)",
    "derived-field equality is demanded only for fields the library recomputes under the active options: tables that were loaded before save() started (raw tables are copied verbatim) and, for bounding boxes / maxp / hhea / vhea extents, recalcBBoxes=True",
    "bounding boxes of composites with a non-identity component transform are compared with +-1 unit (rounding of transformed points is unspecified); everything else on glyf fonts is exact; CFF FontBBox/head bbox against HarfBuzz tight outline bounds +-1 unit, CFF hhea extents +-2 (floor/ceil of float extrema on both sides)",
    "maxp instruction fields (maxSizeOfInstructions, maxZones, ...) are documented as not recalculated and are only observed; DSIG content is not asserted (only its removal from WOFF2)",
    "glyphs that have a description but flatten to zero points are accepted either way in 'glyphs with contours' minima/maxima of hhea/vhea",
    "WOFF2: head.flags bit 11, checkSumAdjustment and the dropped DSIG are the specified differences to the sfnt flavour besides the glyf/loca normalisation; head.checkSumAdjustment inside WOFF2 cannot be recomputed independently (the byte form of the normalised glyf table is not stored) and is only compared with the value obtained from the sfnt flavour's tables when those are byte-identical after re-encoding",
    "in a TTC head.checkSumAdjustment is unspecified (OpenType: must be ignored) and not asserted",
    "the physical table order is asserted for reorderTables=True (OpenType recommended order, fonts with glyf or 'CFF ') and reorderTables=False with a source file (relative order of the source kept); reorderTables=None asserts nothing beyond validity",
]
REQUIRED_MONITORS = ["TTFont.save", "TTCollection.save"]
CASE_TIMEOUT = 300
MANIFEST = {
    "text": "Exploration: post-condition monitors on TTFont.save and TTCollection.save hand every file written during the run (path or stream) to container parsers written from the OpenType, WOFF and WOFF2 specifications (directory order, search fields, alignment, zero padding, overlap, table and whole-file checksums, WOFF origChecksum/totalSfntSize/lengths, WOFF2 base128 directory, transformLength, glyf/loca and hmtx transform reconstruction) and recompute, from the saved bytes, every derived field the library recomputed under the active options (glyph and font bounding boxes with exact rational component transforms, maxp profile including recursive component depth, hhea/vhea extents and metric counts, loca format and offsets, glyph counts, CFF FontBBox against HarfBuzz outlines). Workload: all corpus fonts and TTCs plus fontBuilder fonts built to stress each derived field (nesting depth 6, scaled/rotated/point-matched components, empty and off-curve-only glyphs, negative side bearings, zero advances, single-glyph fonts, glyf size straddling 0x20000, WOFF2 triplet boundaries, table counts around powers of two) x flavor x reorderTables x recalcBBoxes x glyf padding x WOFF metadata/private blocks x WOFF2 transform sets x TTC sharing, with stale derived values scribbled into memory before each recalculating save, and separately corrupted in the binary (glyph boxes, head bbox, maxp, hhea/vhea) of fonts that are then opened lazily, have varying subsets of tables touched and are saved with recalcBBoxes=True; collections include members whose same-tag tables have equal length and equal checksum but different content (permuted glyph order, swapped aligned words), each member being compared with a standalone save; subset, instancer, merge, varLib, ttx and woff2.compress workloads save through the same monitor. Table content is compared across the three flavours decoded independently. Tests cannot settle this: they check header arithmetic on a handful of fixed fonts and never recompute derived fields for every output.",
    "note": "Trusted base: the spec-written oracles in vmon/oracle (sfnt, woff, woff2, derived), zlib, brotli, HarfBuzz for CFF outlines. Equality is demanded only for tables loaded before save() began and (for boxes/maxp/hhea/vhea) recalcBBoxes=True; transformed-composite boxes +-1 unit; maxp instruction fields, DSIG signatures, TTC checkSumAdjustment and WOFF2-internal checkSumAdjustment are out of reach or unspecified and not asserted.",
    "technique": "post-condition monitors on the real save functions; spec-written independent container parsers; independent recomputation of derived fields with exact rational arithmetic; cross-flavour differential decoding",
    "design_ref": "DESIGN.md §4 C04",
}

_S = {"n": 0, "files": 0, "captures": [], "events": [], "notes": {}, "keys": set(), "label": None, "inconc": []}
_glyph_cache = {}


def _note(k, n=1):
    _S["notes"][k] = _S["notes"].get(k, 0) + n


def _t(tag):
    return tag.decode("latin-1") if isinstance(tag, bytes) else str(tag)


# ============================================================================ judging a written file
def sniff(data):
    sig = bytes(data[:4])
    if sig == b"wOFF":
        return "woff"
    if sig == b"wOF2":
        return "woff2"
    if sig == b"ttcf":
        return "ttc"
    return "sfnt"


def parse_any(data):
    kind = sniff(data)
    if kind == "woff":
        return OW.validate_woff(data)
    if kind == "woff2":
        return OW2.validate_woff2(data)
    if kind == "ttc":
        return OS.validate_ttc(data)
    return OS.validate_sfnt(data)


def _report(mech, what, st, **w):
    wit = {"config": {k: v for k, v in st.items() if k in ("flavor", "reorder", "recalc", "padding", "label", "dest",
                                                           "transformed", "share")},
           "events_tail": list(_S["events"][-24:])}
    wit.update(w)
    hooks.report(mech, what, wit)


def sfnt_bytes_for_engines(p):
    """A plain sfnt a rasteriser can open, assembled by the oracle from decoded tables."""
    out, adj = OS.build_sfnt(p.version, [(t, p.tables[t]) for t in sorted(p.tables)])
    return out


def judge_written(data, st):
    """Container validity + derived fields of one written file.  Returns the Parsed object."""
    if st["op"] == "save" and not st["tags"]:
        _note("precondition:font-without-tables")
        return None
    _S["n"] += 1
    _S["files"] += 1
    p = parse_any(data)
    want = {None: "sfnt", "woff": "woff", "woff2": "woff2"}.get(st.get("flavor"), "sfnt") if st["op"] == "save" else "ttc"
    if p.container != want:
        _report({"kind": "container", "container": p.container, "field": "flavor"},
                "asked for %s, file is %s" % (want, p.container), st)
    seen = set()
    for field, msg, detail in p.problems:
        if (field, detail.get("table")) in seen:
            continue
        seen.add((field, detail.get("table")))
        _report({"kind": "container", "container": p.container, "field": field},
                "%s: %s" % (p.container, msg), st, detail=detail, size=len(data),
                sha256=hashlib.sha256(data).hexdigest()[:16])
    if p.container == "ttc":
        _note("ttc:shared_records", p.info.get("shared_records", 0))
        for m in p.members:
            if m.tables:
                judge_tables(m, None, st)
        return p
    # table set
    want_tags = set(st["tags"])
    if p.container == "woff2":
        want_tags.discard("DSIG")
    got_tags = {_t(t) for t in p.tables} | {_t(e["tag"]) for e in p.entries}
    if got_tags != want_tags:
        _report({"kind": "container", "container": p.container, "field": "table-set"},
                "tables written %s differ from the font's tables %s" % (sorted(got_tags), sorted(want_tags)), st)
    if p.tables:
        judge_order(p, st)
        judge_tables(p, st, st)
    return p


def glyph_model(p):
    """Glyph list of a decoded file of either kind, or None."""
    if getattr(p, "glyphs", None) is not None:
        return p.glyphs
    try:
        head, maxp = D.read_head(p.tables[b"head"]), D.read_maxp(p.tables[b"maxp"])
        glyphs, probs, loca = _glyph_list(p, head, maxp, False)
    except (D.Bad, KeyError):
        return None
    if glyphs is None:
        return None
    return glyphs if all(g is not None for g in glyphs) else None


def judge_order(p, st):
    if p.container == "woff2" or not p.order:
        return
    tags = list(p.order)
    if st["reorder"] is True and (b"glyf" in tags or b"CFF " in tags):
        # zero-length tables share their offset with the neighbour: ignore them
        z = {e["tag"] for e in p.entries if e["length"] == 0}
        got = [t for t in tags if t not in z]
        want = [t for t in OS.recommended_order(tags) if t not in z]
        if got != want:
            _report({"kind": "container", "container": p.container, "field": "data-order", "reorder": "True"},
                    "reorderTables=True: physical order %s, OpenType recommended order %s"
                    % (" ".join(map(_t, got)), " ".join(map(_t, want))), st)
    elif st["reorder"] is False and st.get("reader_order"):
        z = {e["tag"] for e in p.entries if e["length"] == 0}
        src = [t for t in st["reader_order"] if t.encode("latin-1") in tags and t.encode("latin-1") not in z]
        got = [_t(t) for t in tags if _t(t) in src]
        if got != src:
            _report({"kind": "container", "container": p.container, "field": "data-order", "reorder": "False"},
                    "reorderTables=False: physical order %s does not keep the source order %s"
                    % (" ".join(got), " ".join(src)), st)


def _glyph_list(p, head, maxp, want_problems):
    """Glyph model of a decoded file (sfnt/woff: parse glyf+loca; woff2: reconstructed)."""
    if getattr(p, "glyphs", None) is not None:
        return p.glyphs, [], None
    T = p.tables
    if b"glyf" not in T or b"loca" not in T:
        return None, [], None
    key = hashlib.sha1(T[b"glyf"] + b"|" + T[b"loca"] + bytes([head["indexToLocFormat"] & 1])).digest()
    if key in _glyph_cache:
        return _glyph_cache[key]
    try:
        loca = D.read_loca(T[b"loca"], head["indexToLocFormat"], maxp["numGlyphs"])
    except D.Bad as e:
        return None, [("loca", str(e), {})], None
    glyphs, probs = D.read_glyf(T[b"glyf"], loca)
    if len(_glyph_cache) > 6:
        _glyph_cache.clear()
    _glyph_cache[key] = (glyphs, probs, loca)
    return glyphs, probs, loca


def judge_tables(p, st, st_report):
    """Derived fields of one font's decoded tables.  `st` is the pre-save state (None for TTC
    members: nothing about load state is known, only unconditional consistency is checked)."""
    T = p.tables
    L = set(st["loaded"]) if st else set()
    recalc = bool(st and st["recalc"])
    flavor = p.container

    def bad(table, field, msg, **w):
        _report({"kind": "derived", "table": table, "field": field}, "%s [%s]: %s" % (table, flavor, msg), st_report, **w)

    def rd(tag, fn, *a):
        try:
            return fn(T[tag], *a)
        except KeyError:
            return None
        except (D.Bad, struct.error) as e:
            if _t(tag) in L:
                bad(_t(tag), "unreadable", "table compiled by the library cannot be read back: %s" % e)
            return None

    head = rd(b"head", D.read_head)
    maxp = rd(b"maxp", D.read_maxp)
    if head is None or maxp is None:
        _note("derived:no-head-or-maxp")
        return
    N = maxp["numGlyphs"]
    glyf_like = b"glyf" in T or getattr(p, "glyphs", None) is not None
    glyf_loaded = "glyf" in L
    checked = []

    # ---------------------------------------------------------------- metrics tables (both outline kinds)
    metrics = {}
    for mtx, hea, axis in ((b"hmtx", b"hhea", 0), (b"vmtx", b"vhea", 1)):
        if mtx not in T or hea not in T:
            continue
        xh = rd(hea, D.read_xhea)
        if xh is None:
            continue
        strict = _t(mtx) in L and "maxp" in L
        try:
            m = D.read_xmtx(T[mtx], xh["numberOfMetrics"], N)
        except D.Bad as e:
            if strict:
                bad(_t(hea), "numberOfMetrics", "%s does not fit %s.numberOf*Metrics and maxp.numGlyphs: %s" % (_t(mtx), _t(hea), e))
            continue
        metrics[axis] = (xh, m)
        if strict:
            want = D.minimal_number_of_metrics(m)
            checked.append("numberOfMetrics")
            if xh["numberOfMetrics"] != want:
                bad(_t(hea), "numberOfMetrics", "numberOf%sMetrics = %d, the advances need %d"
                    % ("H" if axis == 0 else "V", xh["numberOfMetrics"], want))

    if "post" in L and "maxp" in L and b"post" in T and len(T[b"post"]) >= 34:
        if struct.unpack_from(">I", T[b"post"], 0)[0] == 0x00020000:
            checked.append("post.numGlyphs")
            n = struct.unpack_from(">H", T[b"post"], 32)[0]
            if n != N:
                bad("post", "numGlyphs", "post 2.0 numberOfGlyphs %d, maxp.numGlyphs %d" % (n, N))

    # ---------------------------------------------------------------- TrueType outlines
    if glyf_like:
        glyphs, probs, loca = _glyph_list(p, head, maxp, glyf_loaded)
        if flavor == "woff2" and getattr(p, "glyphs", None) is not None:
            ginfo = p.info["glyf"]
            checked.append("woff2.indexFormat")
            if ginfo["indexFormat"] != head["indexToLocFormat"]:
                bad("head", "indexToLocFormat", "head.indexToLocFormat %d, transformed glyf indexFormat %d"
                    % (head["indexToLocFormat"], ginfo["indexFormat"]))
            if ginfo["numGlyphs"] != N:
                bad("maxp", "numGlyphs", "maxp.numGlyphs %d, transformed glyf numGlyphs %d" % (N, ginfo["numGlyphs"]))
        if glyf_loaded:
            for f, msg, d in probs[:3]:
                bad("glyf" if f.startswith("glyf") else "loca", f, msg, detail=d)
        if glyphs is None or any(g is None for g in glyphs):
            _note("derived:glyf-unreadable" + ("" if glyf_loaded else "(raw)"))
            return
        if glyf_loaded and loca is not None:
            checked.append("loca")
            glyf_len = len(T[b"glyf"])
            if loca[-1] != glyf_len and not (loca[-1] == 0 and T[b"glyf"] == b"\0"):
                bad("loca", "end", "last loca offset %d, glyf table is %d bytes" % (loca[-1], glyf_len))
            want_fmt = 0 if (max(loca) < 0x20000 and all(o % 2 == 0 for o in loca)) else 1
            if head["indexToLocFormat"] != want_fmt:
                bad("head", "indexToLocFormat", "indexToLocFormat %d; offsets (max %d, all even: %s) call for %d"
                    % (head["indexToLocFormat"], max(loca), all(o % 2 == 0 for o in loca), want_fmt))
            pad = st.get("padding")
            if pad in (2, 4) and any(o % pad for o in loca):
                bad("loca", "padding", "glyf.padding=%d but a glyph offset is not a multiple of it" % pad)
            if len(glyphs) != N:
                bad("maxp", "numGlyphs", "maxp.numGlyphs %d, loca describes %d glyphs" % (N, len(glyphs)))
        GG = D.Glyphs(glyphs)
        if glyf_loaded and recalc:
            checked.append("glyph-bbox")
            nbad = 0
            for gid, g in enumerate(glyphs):
                if g.nc == 0:
                    continue
                try:
                    exact, tol = GG.bbox(gid)
                except D.Unjudgeable:
                    _note("derived:glyph-unjudgeable")
                    continue
                if exact is None:
                    exact = (0, 0, 0, 0)
                if any(abs(s - e) > tol for s, e in zip(g.bbox, exact)) and nbad < 2:
                    nbad += 1
                    field = "glyph-bbox" + ("-composite" if g.nc < 0 else "")
                    if g.nc < 0 and _explained_by_degenerate_components(glyphs, g):
                        field = "glyph-bbox-composite-degenerate-component"
                    bad("glyf", field,
                        "glyph %d (%s): stored bbox %s, points give %s (tolerance %d)"
                        % (gid, "composite" if g.nc < 0 else "simple", g.bbox, tuple(float(v) for v in exact), tol),
                        gid=gid)
                if tol:
                    _note("derived:bbox-with-tolerance")
            if maxp["version"] == 0x00010000 and "maxp" in L:
                try:
                    want = GG.maxp()
                except D.Unjudgeable:
                    want = None
                    _note("derived:maxp-unjudgeable")
                if want:
                    checked.append("maxp")
                    for k, v in want.items():
                        if k == "maxSizeOfInstructions":
                            if maxp[k] < v:
                                _note("observed:maxSizeOfInstructions-too-small")
                            continue
                        if maxp[k] != v:
                            bad("maxp", k, "maxp.%s = %d, recomputed %d" % (k, maxp[k], v))
                fb = GG.font_bbox()
                checked.append("head.bbox")
                if head["bbox"] != fb:
                    bad("head", "bbox", "head bbox %s, union of glyph boxes %s" % (head["bbox"], fb))
                if 0 in metrics:
                    m = metrics[0][1]
                    all_lsb = all(m[i][1] == g.bbox[0] for i, g in enumerate(glyphs) if g.nc != 0 and i < len(m))
                    checked.append("head.flags.1")
                    if bool(head["flags"] & 2) != all_lsb:
                        bad("head", "flags-bit1", "head.flags bit 1 is %d, 'lsb == xMin for every glyph' is %s"
                            % (bool(head["flags"] & 2), all_lsb))
            for axis, hea, mtx in ((0, "hhea", "hmtx"), (1, "vhea", "vmtx")):
                if axis not in metrics or hea not in L or mtx not in L:
                    continue
                xh, m = metrics[axis]
                ext = []
                for gid, g in enumerate(glyphs):
                    if g.nc == 0:
                        ext.append(None)
                        continue
                    try:
                        definite = bool(GG.points(gid))
                    except D.Unjudgeable:
                        definite = True
                    ext.append((g.bbox[2 + axis] - g.bbox[axis], definite))
                want = D.xhea_expected(m, ext)
                checked.append(hea)
                names = {"advanceMax": "advance%sMax" % ("Width" if axis == 0 else "Height"),
                         "minFirstSB": "minLeftSideBearing" if axis == 0 else "minTopSideBearing",
                         "minSecondSB": "minRightSideBearing" if axis == 0 else "minBottomSideBearing",
                         "maxExtent": "xMaxExtent" if axis == 0 else "yMaxExtent"}
                for k, ok in want.items():
                    # stored as int16 / uint16: compare modulo the field width is not wanted, out-of-range raises in the library
                    if xh[k] not in ok:
                        bad(hea, names[k], "%s.%s = %d, recomputed %s" % (hea, names[k], xh[k], sorted(ok)))
    # ---------------------------------------------------------------- CFF outlines
    elif b"CFF " in T or b"CFF2" in T:
        ctag = b"CFF " if b"CFF " in T else b"CFF2"
        cff = rd(ctag, D.read_cff)
        if cff is None:
            _note("derived:cff-unreadable")
            return
        if "maxp" in L:
            checked.append("cff.numGlyphs")
            if cff["numGlyphs"] != N:
                bad("maxp", "numGlyphs", "maxp.numGlyphs %d, CharStrings INDEX has %d" % (N, cff["numGlyphs"]))
        if recalc and (_t(ctag) in L):
            judge_cff(p, st, cff, ctag, head, metrics, N, L, bad, checked)
    for c in checked:
        _note("checked:" + c)


def _explained_by_degenerate_components(glyphs, g):
    """Is the stored box of composite `g` what one gets by leaving out every component
    whose own stored box has zero width *and* zero height (a single point, or coincident
    points)?  Only for composites made of plain integer translations."""
    if any(c.t is not None or not c.flags & D.ARGS_XY or c.gid >= len(glyphs) for c in g.comps):
        return False
    box, skipped = None, False
    for c in g.comps:
        sub = glyphs[c.gid]
        b = sub.bbox if sub.nc != 0 else (0, 0, 0, 0)
        if b[0] == b[2] and b[1] == b[3]:
            skipped = skipped or bool(sub.nc != 0)
            continue
        b = (b[0] + c.a1, b[1] + c.a2, b[2] + c.a1, b[3] + c.a2)
        box = b if box is None else (min(box[0], b[0]), min(box[1], b[1]), max(box[2], b[2]), max(box[3], b[3]))
    return skipped and (box or (0, 0, 0, 0)) == tuple(g.bbox)


_cff_cache = {}


def _cff_boxes(p, ctag, cff, N):
    """Per-glyph tight boxes from the oracle's own Type 2 interpreter, in two variants
    (lone moveto points counted / ignored), cross-checked against HarfBuzz where HarfBuzz
    can open the font.  -> (boxes_with_lone, boxes_without) or None (not judgeable)."""
    key = hashlib.sha1(p.tables[ctag]).digest()
    if key in _cff_cache:
        return _cff_cache[key]
    res = None
    try:
        paths = D.cff_paths(p.tables[ctag], cff)
    except D.Bad:
        paths = None
        _note("derived:cff-paths-unreadable")
    if paths is not None and any(pp is None for pp in paths):
        _note("derived:cff-glyph-unjudgeable")
        paths = None
    if paths is not None:
        A = [D.subpath_bounds(pp, True) for pp in paths]
        B = [D.subpath_bounds(pp, False) for pp in paths]
        agree = True
        try:
            from vmon.oracle import hbft
            hb = hbft.HB(sfnt_bytes_for_engines(p))
            if hb.glyph_count == N and b"fvar" not in p.tables:
                for gid in range(N):
                    hb_box, drew = D.record_bounds(hb.outline(gid))
                    if (hb_box is None) != (B[gid] is None) or (hb_box and any(abs(x - y) > 0.05 for x, y in zip(hb_box, B[gid]))):
                        agree = False
                        break
                _note("derived:cff-crosschecked-with-harfbuzz")
            else:
                _note("derived:cff-harfbuzz-unusable")
        except Exception:
            _note("derived:cff-harfbuzz-unusable")
        if agree:
            res = (A, B)
        else:
            _note("derived:cff-oracles-disagree")
            _S.setdefault("inconc", []).append("T2 oracle and HarfBuzz disagree on glyph bounds (%s)" % _S["label"])
    if len(_cff_cache) > 4:
        _cff_cache.clear()
    _cff_cache[key] = res
    return res


def _union_int(boxes):
    import math
    have = [b for b in boxes if b is not None]
    if not have:
        return None
    return (math.floor(min(b[0] for b in have)), math.floor(min(b[1] for b in have)),
            math.ceil(max(b[2] for b in have)), math.ceil(max(b[3] for b in have)))


def judge_cff(p, st, cff, ctag, head, metrics, N, L, bad, checked):
    import math
    boxes = _cff_boxes(p, ctag, cff, N)
    if boxes is None:
        return
    variants = [("lone moveto points counted", boxes[0]), ("lone moveto points ignored", boxes[1])]
    wants = [(nm, _union_int(bx)) for nm, bx in variants]
    if all(w is None for _, w in wants):
        _note("derived:cff-no-outlines")
    elif ctag == b"CFF " and cff["FontBBox"] is not None and len(cff["FontBBox"]) == 4:
        checked.append("CFF.FontBBox")
        got = tuple(cff["FontBBox"])
        if not any(w is not None and all(abs(a - b) <= 1 for a, b in zip(got, w)) for _, w in wants):
            bad("CFF ", "FontBBox", "FontBBox %s; charstring outlines give %s"
                % (list(got), "; ".join("%s (%s)" % (list(w) if w else None, nm) for nm, w in wants)))
        if "head" in L:
            checked.append("head.bbox(CFF)")
            if tuple(head["bbox"]) != tuple(int(v) for v in got):
                bad("head", "bbox", "head bbox %s differs from CFF FontBBox %s" % (head["bbox"], list(got)))
    elif ctag == b"CFF2" and "head" in L and b"fvar" not in p.tables:
        checked.append("head.bbox(CFF2)")
        if not any(w is not None and all(abs(a - b) <= 1 for a, b in zip(head["bbox"], w)) for _, w in wants):
            bad("head", "bbox", "head bbox %s; charstring outlines give %s"
                % (head["bbox"], "; ".join("%s (%s)" % (list(w) if w else None, nm) for nm, w in wants)))
    if 0 in metrics and "hhea" in L and "hmtx" in L and b"fvar" not in p.tables:
        xh, m = metrics[0]
        tol = {"advanceMax": 0, "minFirstSB": 0, "minSecondSB": 2, "maxExtent": 2}
        names = {"advanceMax": "advanceWidthMax", "minFirstSB": "minLeftSideBearing",
                 "minSecondSB": "minRightSideBearing", "maxExtent": "xMaxExtent"}
        checked.append("hhea(CFF)")
        best = None
        for nm, bx in variants:
            ext = [None if b is None else (math.ceil(b[2]) - math.floor(b[0]), True) for b in bx]
            want = D.xhea_expected(m, ext)
            wrong = [(k, sorted(ok)) for k, ok in want.items() if not any(abs(xh[k] - v) <= tol[k] for v in ok)]
            if best is None or len(wrong) < len(best[1]):
                best = (nm, wrong)
        for k, ok in best[1]:
            bad("hhea", names[k], "hhea.%s = %d, recomputed from the charstrings %s (%s, tolerance %d)"
                % (names[k], xh[k], ok, best[0], tol[k]))


# ============================================================================ monitors
def _read_back(file, start):
    if isinstance(file, (str, os.PathLike)):
        with open(file, "rb") as f:
            return f.read()
    if hasattr(file, "getvalue"):
        return file.getvalue()[start or 0:]
    try:
        if hasattr(file, "seek") and hasattr(file, "read"):
            end = file.tell()
            file.seek(start or 0)
            data = file.read()
            file.seek(end)
            return data
    except Exception:
        pass
    return None


def _stream_pos(file):
    if hasattr(file, "write") and hasattr(file, "tell"):
        try:
            return file.tell()
        except Exception:
            return None
    return None


def setup():
    from fontTools.ttLib import ttFont as TF, ttCollection as TC, sfnt as SF, woff2 as W2

    def pre_save(a, kw):
        font, file, reorder = a[0], a[1], a[2]
        del _S["events"][:]
        st = {"op": "save", "flavor": font.flavor, "reorder": reorder, "recalc": bool(font.recalcBBoxes),
              "loaded": sorted(str(t) for t in font.tables), "tags": [str(t) for t in font.keys() if t != "GlyphOrder"],
              "start": _stream_pos(file), "dest": "path" if isinstance(file, (str, os.PathLike)) else type(file).__name__,
              "reader_order": [str(t) for t in font.reader.keys()] if font.reader is not None else None,
              "padding": getattr(font.tables.get("glyf"), "padding", None) if "glyf" in font.tables else None,
              "label": _S["label"]}
        fd = font.flavorData
        if font.flavor == "woff2" and fd is not None and hasattr(fd, "transformedTables"):
            st["transformed"] = sorted(fd.transformedTables)
        return st

    def post_save(st, a, kw, res, exc):
        if st is None:
            return
        if exc is not None:
            _note("save-raised:" + type(exc).__name__)
            return
        data = _read_back(a[1], st["start"])
        if data is None:
            _note("save-output-not-readable")
            return
        p = judge_written(data, st)
        if p is None:
            return
        _S["captures"].append((st, p, len(data)))
        _note("saves:" + p.container)

    def pre_csave(a, kw):
        coll, file, share = a[0], a[1], a[2]
        del _S["events"][:]
        return {"op": "ttc", "share": bool(share), "start": _stream_pos(file),
                "dest": "path" if isinstance(file, (str, os.PathLike)) else type(file).__name__,
                "n": len(coll.fonts), "label": _S["label"], "flavor": None, "recalc": None, "reorder": None,
                "padding": None, "loaded": [], "tags": []}

    def post_csave(st, a, kw, res, exc):
        if st is None:
            return
        if exc is not None:
            _note("ttc-save-raised:" + type(exc).__name__)
            return
        data = _read_back(a[1], st["start"])
        if data is None:
            _note("save-output-not-readable")
            return
        p = judge_written(data, st)
        if p.info.get("numFonts") != st["n"]:
            _report({"kind": "container", "container": "ttc", "field": "numFonts"},
                    "collection of %d fonts written with numFonts=%s" % (st["n"], p.info.get("numFonts")), st)
        if not st["share"] and p.info.get("shared_records"):
            _report({"kind": "container", "container": "ttc", "field": "unrequested-sharing"},
                    "shareTables=False but %d table records point at shared data" % p.info["shared_records"], st)
        _S["captures"].append((st, p, len(data)))
        _note("saves:ttc")

    hooks.attach(TF.TTFont, "save", pre=pre_save, post=post_save, name="TTFont.save")
    hooks.attach(TC.TTCollection, "save", pre=pre_csave, post=post_csave, name="TTCollection.save")

    # event recorders (witness only)
    def post_setitem(st, a, kw, res, exc):
        w, tag = a[0], a[1]
        e = w.tables.get(tag) if exc is None else None
        _S["events"].append(("SFNTWriter[%s]" % tag, getattr(e, "offset", None), getattr(e, "length", None),
                             "0x%08X" % e.checkSum if e is not None and hasattr(e, "checkSum") else None,
                             type(exc).__name__ if exc else None))

    def post_close(st, a, kw, res, exc):
        w = a[0]
        _S["events"].append(("%s.close" % type(w).__name__, w.numTables, getattr(w, "searchRange", None),
                             getattr(w, "totalSfntSize", None), type(exc).__name__ if exc else None))

    def post_reorder(st, a, kw, res, exc):
        _S["events"].append(("reorderFontTables", list(a[2]) if a[2] else None, type(exc).__name__ if exc else None))

    hooks.attach(SF.SFNTWriter, "__setitem__", post=post_setitem, name="SFNTWriter.__setitem__")
    hooks.attach(SF.SFNTWriter, "close", post=post_close, name="SFNTWriter.close")
    hooks.attach(W2.WOFF2Writer, "close", post=post_close, name="WOFF2Writer.close")
    hooks.attach(TF, "reorderFontTables", post=post_reorder, name="reorderFontTables")


# ============================================================================ cases
SMALL, MEDIUM = 12000, 120000
WORKLOADS_QUICK = ["subset:0", "subset:1", "woff2compress:0", "ttx:0", "ttx:1", "instancer:0", "merge:0", "varlib:0"]
WORKLOADS_THOROUGH = (["subset:%d" % i for i in range(10)] + ["woff2compress:%d" % i for i in range(6)]
                      + ["ttx:%d" % i for i in range(8)] + ["instancer:%d" % i for i in range(8)]
                      + ["merge:%d" % i for i in range(4)] + ["varlib:%d" % i for i in range(5)])


def cases(tier, seed):
    from vmon.gen import c04 as G
    T = tier == "thorough"
    out = []
    rnd = random.Random("c04-cases/%s" % seed)
    for rec in corpus.fonts():
        if rec["ext"] == "ttc" and rec["member"] is None:
            continue
        cid = "corpus:%s%s" % (rec["path"], "" if rec["member"] is None else "#%d" % rec["member"])
        size = rec["size"]
        if T:
            groups = 24 if size < SMALL else (16 if size < MEDIUM else 4)
        else:
            groups = 2 if size < SMALL else 1
            if rec["path"].startswith("ttLib/tables/data/aots/"):
                # 206 structurally alike lookup-test fonts: a seed-dependent third of them in quick
                if rnd.random() < 0.67:
                    continue
                groups = 1
        out.append({"id": cid, "kind": "font", "src": "corpus", "path": rec["path"], "member": rec["member"],
                    "groups": groups, "seed": seed, "timeout": 300 if size < MEDIUM else 900})
    for name in G.NAMES:
        big = name.startswith("loca_") and name != "loca_odd_small"       # 128 KB glyf tables
        out.append({"id": "gen:" + name, "kind": "font", "src": "gen", "name": name,
                    "groups": (8 if big else 24) if T else (2 if big else 4), "seed": seed, "timeout": 900 if big else 300})
    for n in G.TABLE_COUNTS if T else G.TABLE_COUNTS_QUICK:
        out.append({"id": "tables:%d" % n, "kind": "tables", "n": n, "seed": seed})
    ttcs = sorted({r["path"] for r in corpus.fonts() if r["ext"] == "ttc"})
    for path in ttcs:
        out.append({"id": "ttc-corpus:" + path, "kind": "ttc", "src": "corpus", "path": path, "seed": seed})
    for i in range(12 if T else 4):
        out.append({"id": "ttc-built:%d" % i, "kind": "ttc", "src": "built", "index": i, "seed": seed})
    for i in range(12 if T else 4):
        out.append({"id": "ttc-collide:%d" % i, "kind": "ttc", "src": "collide", "index": i, "seed": seed})
    # stale derived fields in the binary, lazily loaded, partially touched, recalculating save
    for rec in corpus.fonts():
        if rec["outlines"] != "glyf" or rec["flavor"] is not None or (rec["ext"] == "ttc" and rec["member"] is None):
            continue
        if not T and (rec["size"] >= MEDIUM or (rec["kind"] == "ttx" and rnd.random() < 0.6)):
            continue            # quick: binaries, and a seed-dependent 40 % of the (slow to import) TTX sources
        out.append({"id": "stale:%s%s" % (rec["path"], "" if rec["member"] is None else "#%d" % rec["member"]),
                    "kind": "stale", "src": "corpus", "path": rec["path"], "member": rec["member"],
                    "variants": 6 if T else 2, "seed": seed, "timeout": 300 if rec["size"] < MEDIUM else 900})
    for name in G.NAMES:
        if name.startswith("loca_") and name != "loca_odd_small" or name.startswith("cff"):
            continue
        out.append({"id": "stale-gen:" + name, "kind": "stale", "src": "gen", "name": name,
                    "variants": 6 if T else 2, "seed": seed})
    for w in (WORKLOADS_THOROUGH if T else WORKLOADS_QUICK):
        out.append({"id": "workload:" + w, "kind": "workload", "what": w, "seed": seed, "timeout": 300})
    return out


def run_case(case, ctx):
    from vmon.gen import c04 as G
    _S["n"] = 0
    _S["files"] = 0
    _S["notes"] = {}
    _S["keys"] = set()
    _S["inconc"] = []
    del _S["captures"][:]
    _S["label"] = case["id"]
    rnd = random.Random("%s/%s" % (case["id"], case["seed"]))
    try:
        G.DRIVERS[case["kind"]](case, rnd, ctx, _S)
    finally:
        ctx.judged(_S["n"])
        for k, v in _S["notes"].items():
            ctx.note(k, v)
        for k in _S["keys"]:
            ctx.nontrivial(k)
        for why in _S["inconc"][:3]:
            ctx.inconclusive(why)
        if ctx.sample is None:
            ctx.sample = {"case": {k: v for k, v in case.items() if k not in ("seed", "timeout")},
                          "files_judged_by_the_save_monitors": _S["files"],
                          "cross_flavour_table_comparisons": _S["n"] - _S["files"],
                          "checked": sorted(k[8:] for k in _S["notes"] if k.startswith("checked:")),
                          "saves": {k[6:]: v for k, v in _S["notes"].items() if k.startswith("saves:")}}
